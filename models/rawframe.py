"""
Raw Ethernet frame construction, OpenFlow 1.0 lookup-key extraction and the
reference action applier -- on bytes, with its own offset arithmetic and its
own RFC 1071 sum.  Shares no code with pox.lib.packet.
"""

import struct

ETH_IP = 0x0800
ETH_ARP = 0x0806
ETH_VLAN = 0x8100
ETH_LLDP = 0x88cc
VLAN_NONE = 0xffff


def csum(data):
  """RFC 1071 Internet checksum of data (bytes); returns the 16-bit value
  to store."""
  if len(data) & 1:
    data = data + b"\0"
  s = 0
  for i in range(0, len(data), 2):
    s += (data[i] << 8) | data[i + 1]
  while s >> 16:
    s = (s & 0xffff) + (s >> 16)
  return (~s) & 0xffff


def mac(i):
  """deterministic locally administered unicast MAC number i"""
  return bytes([0x02, 0, 0, (i >> 16) & 0xff, (i >> 8) & 0xff, i & 0xff])


def ip(a, b, c, d):
  return (a << 24) | (b << 16) | (c << 8) | d


def eth(dst, src, ethertype, payload, vlan=None, pad=True):
  """vlan: None or (vid, pcp)"""
  h = dst + src
  if vlan is not None:
    vid, pcp = vlan
    h += struct.pack("!HH", ETH_VLAN, ((pcp & 7) << 13) | (vid & 0xfff))
  h += struct.pack("!H", ethertype)
  f = h + payload
  return f


def llc_snap(dst, src, oui, ethertype, payload):
  body = b"\xaa\xaa\x03" + oui + struct.pack("!H", ethertype) + payload
  return dst + src + struct.pack("!H", len(body)) + body


def llc_plain(dst, src, payload, dsap=0x42, ssap=0x42, ctrl=3):
  body = bytes([dsap, ssap, ctrl]) + payload
  return dst + src + struct.pack("!H", len(body)) + body


def ipv4(src, dst, proto, payload, tos=0, ttl=64, ident=0, flags=0, frag=0,
         options=b""):
  ihl = 5 + len(options) // 4
  total = ihl * 4 + len(payload)
  h = struct.pack("!BBHHHBBHLL", (4 << 4) | ihl, tos, total, ident,
                  ((flags & 7) << 13) | (frag & 0x1fff), ttl, proto, 0,
                  src, dst) + options
  c = csum(h)
  h = h[:10] + struct.pack("!H", c) + h[12:]
  return h + payload


def _pseudo(src, dst, proto, length):
  return struct.pack("!LLBBH", src, dst, 0, proto, length)


def udp(src_ip, dst_ip, sport, dport, payload):
  length = 8 + len(payload)
  h = struct.pack("!HHHH", sport, dport, length, 0)
  c = csum(_pseudo(src_ip, dst_ip, 17, length) + h + payload)
  if c == 0:
    c = 0xffff
  return struct.pack("!HHHH", sport, dport, length, c) + payload


def tcp(src_ip, dst_ip, sport, dport, payload, seq=1, ack=0, flags=0x18,
        win=1024, options=b""):
  off = 5 + len(options) // 4
  h = struct.pack("!HHLLBBHHH", sport, dport, seq, ack, off << 4, flags, win,
                  0, 0) + options
  c = csum(_pseudo(src_ip, dst_ip, 6, len(h) + len(payload)) + h + payload)
  h = h[:16] + struct.pack("!H", c) + h[18:]
  return h + payload


def icmp(typ, code, payload):
  h = struct.pack("!BBH", typ, code, 0)
  c = csum(h + payload)
  return struct.pack("!BBH", typ, code, c) + payload


def arp(op, sha, spa, tha, tpa):
  return struct.pack("!HHBBH6sL6sL", 1, ETH_IP, 6, 4, op, sha, spa, tha, tpa)


# ---------------------------------------------------------------------------
# parsing helpers
# ---------------------------------------------------------------------------

def l2(frame):
  """
  Returns dict: dst, src, vlan (vid,pcp) or None, ethertype (after tags /
  SNAP; 0x05ff for 802.3 without usable SNAP), l3off (offset of the layer-3
  payload), tagoff (offset of the 802.1Q TPID or None).
  """
  if len(frame) < 14:
    return None
  dst, src = frame[0:6], frame[6:12]
  et = (frame[12] << 8) | frame[13]
  off = 14
  vlan = None
  tagoff = None
  if et == ETH_VLAN and len(frame) >= 18:
    tci = (frame[14] << 8) | frame[15]
    vlan = (tci & 0xfff, tci >> 13)
    tagoff = 12
    et = (frame[16] << 8) | frame[17]
    off = 18
  if et < 1536:
    # 802.3 length: LLC follows
    if (len(frame) >= off + 8 and frame[off] == 0xaa and frame[off + 1] == 0xaa
        and frame[off + 2] == 3 and frame[off + 3:off + 6] == b"\0\0\0"):
      et = (frame[off + 6] << 8) | frame[off + 7]
      off += 8
      if et == ETH_VLAN and vlan is None and len(frame) >= off + 4:
        # a tag behind the SNAP header (the order of the specification's
        # flowchart: decode 802.2/SNAP first, then look for 0x8100)
        tci = (frame[off] << 8) | frame[off + 1]
        vlan = (tci & 0xfff, tci >> 13)
        et = (frame[off + 2] << 8) | frame[off + 3]
        off += 4
    else:
      et = 0x05ff
  return {"dst": dst, "src": src, "vlan": vlan, "ethertype": et,
          "l3off": off, "tagoff": tagoff}


def lookup_key(frame, in_port):
  """OpenFlow 1.0 12-tuple of a frame (section 3.4 / figure 4)."""
  h = l2(frame)
  k = {"in_port": in_port, "dl_src": h["src"], "dl_dst": h["dst"],
       "dl_vlan": VLAN_NONE, "dl_vlan_pcp": 0, "dl_type": h["ethertype"],
       "nw_tos": 0, "nw_proto": 0, "nw_src": 0, "nw_dst": 0, "tp_src": 0,
       "tp_dst": 0}
  if h["vlan"] is not None:
    k["dl_vlan"], k["dl_vlan_pcp"] = h["vlan"]
  off = h["l3off"]
  if h["ethertype"] == ETH_IP and len(frame) >= off + 20:
    ihl = (frame[off] & 0xf) * 4
    k["nw_tos"] = frame[off + 1]
    fo = (frame[off + 6] << 8) | frame[off + 7]
    k["nw_proto"] = frame[off + 9]
    k["nw_src"], k["nw_dst"] = struct.unpack_from("!LL", frame, off + 12)
    is_frag = bool(fo & 0x2000) or bool(fo & 0x1fff)
    l4 = off + ihl
    iplen = (frame[off + 2] << 8) | frame[off + 3]
    end = min(len(frame), off + iplen) if iplen >= ihl else len(frame)
    have = max(0, end - l4)          # bytes of the transport layer present
    if not is_frag:
      # a datagram whose transport header is not all there has no ports:
      # the fields are absent (None), which equals no required value
      if k["nw_proto"] == 6:
        if have >= 20:
          k["tp_src"], k["tp_dst"] = struct.unpack_from("!HH", frame, l4)
        else:
          k["tp_src"] = k["tp_dst"] = None
      elif k["nw_proto"] == 17:
        if have >= 8 and struct.unpack_from("!H", frame, l4 + 4)[0] <= have:
          k["tp_src"], k["tp_dst"] = struct.unpack_from("!HH", frame, l4)
        else:
          k["tp_src"] = k["tp_dst"] = None
      elif k["nw_proto"] == 1:
        if have >= 4:
          k["tp_src"], k["tp_dst"] = frame[l4], frame[l4 + 1]
        else:
          k["tp_src"] = k["tp_dst"] = None
  elif h["ethertype"] == ETH_ARP and len(frame) >= off + 28:
    op = (frame[off + 6] << 8) | frame[off + 7]
    if op <= 255:
      k["nw_proto"] = op
      k["nw_src"] = struct.unpack_from("!L", frame, off + 14)[0]
      k["nw_dst"] = struct.unpack_from("!L", frame, off + 24)[0]
    else:
      # an opcode that does not fit nw_proto: no ARP fields at all
      k["nw_proto"] = k["nw_src"] = k["nw_dst"] = None
  return k


def strip_padding(frame):
  """the frame without what follows its IPv4 datagram (Ethernet padding): a
  switch that parses and re-serialises forwards this much"""
  h = l2(frame)
  off = h["l3off"]
  if h["ethertype"] == ETH_IP and len(frame) >= off + 20:
    iplen = (frame[off + 2] << 8) | frame[off + 3]
    if 20 <= iplen <= len(frame) - off:
      return frame[:off + iplen]
  return frame


def key_matches(canon, key):
  """
  canon: dict field -> None (wildcarded) | value | (addr, prefixlen), already
  normalised so that fields with unmet prerequisites are None.
  """
  for f in ("in_port", "dl_src", "dl_dst", "dl_vlan", "dl_vlan_pcp",
            "dl_type", "nw_tos", "nw_proto", "tp_src", "tp_dst"):
    v = canon.get(f)
    if v is not None and v != key[f]:
      return False
  for f in ("nw_src", "nw_dst"):
    v = canon.get(f)
    if v is not None:
      addr, plen = v
      mask = (0xffffffff << (32 - plen)) & 0xffffffff if plen else 0
      if key[f] is None:
        if mask:
          return False
        continue
      if (key[f] & mask) != (addr & mask):
        return False
  return True


# ---------------------------------------------------------------------------
# reference action applier (OpenFlow 1.0 section 3.3 / 5.2.4)
# ---------------------------------------------------------------------------

def _fix_l4_sum(frame, off):
  """Recompute IPv4 header checksum and TCP/UDP checksum of the IPv4 packet
  starting at off (not a fragment)."""
  f = bytearray(frame)
  ihl = (f[off] & 0xf) * 4
  f[off + 10:off + 12] = b"\0\0"
  c = csum(bytes(f[off:off + ihl]))
  f[off + 10:off + 12] = struct.pack("!H", c)
  total = (f[off + 2] << 8) | f[off + 3]
  proto = f[off + 9]
  fo = (f[off + 6] << 8) | f[off + 7]
  if fo & 0x3fff:
    return bytes(f)
  l4 = off + ihl
  end = min(len(f), off + total)
  src, dst = struct.unpack_from("!LL", f, off + 12)
  seg_len = end - l4
  if proto == 17 and seg_len >= 8:
    old = (f[l4 + 6] << 8) | f[l4 + 7]
    if old != 0:
      f[l4 + 6:l4 + 8] = b"\0\0"
      c = csum(_pseudo(src, dst, 17, seg_len) + bytes(f[l4:end]))
      if c == 0:
        c = 0xffff
      f[l4 + 6:l4 + 8] = struct.pack("!H", c)
  elif proto == 6 and seg_len >= 20:
    f[l4 + 16:l4 + 18] = b"\0\0"
    c = csum(_pseudo(src, dst, 6, seg_len) + bytes(f[l4:end]))
    f[l4 + 16:l4 + 18] = struct.pack("!H", c)
  return bytes(f)


class Unspecified(Exception):
  """the specification does not define the outcome"""


def apply_action(frame, a):
  """Apply one header-rewrite action (tuple as in of10wire) to raw bytes."""
  k = a[0]
  h = l2(frame)
  if k == "set_dl_src":
    return frame[:6] + a[1] + frame[12:]
  if k == "set_dl_dst":
    return a[1] + frame[6:]
  if k == "set_vlan_vid":
    if h["vlan"] is None:
      tci = a[1] & 0xfff
      return frame[:12] + struct.pack("!HH", ETH_VLAN, tci) + frame[12:]
    tci = (h["vlan"][1] << 13) | (a[1] & 0xfff)
    return frame[:14] + struct.pack("!H", tci) + frame[16:]
  if k == "set_vlan_pcp":
    if h["vlan"] is None:
      tci = (a[1] & 7) << 13
      return frame[:12] + struct.pack("!HH", ETH_VLAN, tci) + frame[12:]
    tci = ((a[1] & 7) << 13) | h["vlan"][0]
    return frame[:14] + struct.pack("!H", tci) + frame[16:]
  if k == "strip_vlan":
    if h["vlan"] is None:
      return frame
    return frame[:12] + frame[16:]
  # network / transport rewrites: IPv4 only (possibly under one VLAN tag)
  raw_et = (frame[12] << 8) | frame[13]
  off = 14
  if raw_et == ETH_VLAN:
    raw_et = (frame[16] << 8) | frame[17]
    off = 18
  if raw_et != ETH_IP or len(frame) < off + 20:
    return frame
  f = bytearray(frame)
  ihl = (f[off] & 0xf) * 4
  fo0 = (f[off + 6] << 8) | f[off + 7]
  if (fo0 & 0x3fff) and k != "set_nw_tos" and f[off + 9] in (6, 17):
    # rewriting addresses/ports of a TCP/UDP *fragment*: whether and how the
    # transport checksum is adjusted is not specified
    raise Unspecified("L3/L4 rewrite of a TCP/UDP fragment")
  if k == "set_nw_src":
    f[off + 12:off + 16] = struct.pack("!L", a[1])
    return _fix_l4_sum(bytes(f), off)
  if k == "set_nw_dst":
    f[off + 16:off + 20] = struct.pack("!L", a[1])
    return _fix_l4_sum(bytes(f), off)
  if k == "set_nw_tos":
    f[off + 1] = a[1]
    return _fix_l4_sum(bytes(f), off)
  if k in ("set_tp_src", "set_tp_dst"):
    proto = f[off + 9]
    fo = (f[off + 6] << 8) | f[off + 7]
    if proto not in (6, 17) or (fo & 0x3fff):
      return frame
    l4 = off + ihl
    if len(f) < l4 + 4:
      return frame
    o = l4 if k == "set_tp_src" else l4 + 2
    f[o:o + 2] = struct.pack("!H", a[1])
    return _fix_l4_sum(bytes(f), off)
  return frame


def verify_sums(frame):
  """Returns list of problems with IPv4/TCP/UDP lengths and checksums."""
  h = l2(frame)
  out = []
  if h is None or h["ethertype"] != ETH_IP:
    return out
  off = h["l3off"]
  if len(frame) < off + 20:
    return out
  ihl = (frame[off] & 0xf) * 4
  if csum(frame[off:off + ihl]) != 0:
    out.append("ipv4 header checksum")
  total = (frame[off + 2] << 8) | frame[off + 3]
  if off + total > len(frame):
    out.append("ipv4 total length beyond frame")
  return out
