"""
Independent OpenFlow 1.0 wire codec used by harness peers and oracles.

Written from the OpenFlow 1.0.0 specification (openflow.h), sharing no code
with pox.openflow.libopenflow_01: the scripted controller builds requests
with `enc_*` and decodes what the real switch writes with `decode`, and the
scripted switch peer does the reverse, so a codec fault in pox shows up as
a behavioural difference instead of cancelling out.
"""

import struct

VERSION = 1

# message types
HELLO, ERROR, ECHO_REQUEST, ECHO_REPLY, VENDOR, FEATURES_REQUEST, \
  FEATURES_REPLY, GET_CONFIG_REQUEST, GET_CONFIG_REPLY, SET_CONFIG, \
  PACKET_IN, FLOW_REMOVED, PORT_STATUS, PACKET_OUT, FLOW_MOD, PORT_MOD, \
  STATS_REQUEST, STATS_REPLY, BARRIER_REQUEST, BARRIER_REPLY, \
  QUEUE_GET_CONFIG_REQUEST, QUEUE_GET_CONFIG_REPLY = range(22)

TYPE_NAMES = ["HELLO", "ERROR", "ECHO_REQUEST", "ECHO_REPLY", "VENDOR",
              "FEATURES_REQUEST", "FEATURES_REPLY", "GET_CONFIG_REQUEST",
              "GET_CONFIG_REPLY", "SET_CONFIG", "PACKET_IN", "FLOW_REMOVED",
              "PORT_STATUS", "PACKET_OUT", "FLOW_MOD", "PORT_MOD",
              "STATS_REQUEST", "STATS_REPLY", "BARRIER_REQUEST",
              "BARRIER_REPLY", "QUEUE_GET_CONFIG_REQUEST",
              "QUEUE_GET_CONFIG_REPLY"]

# ports
OFPP_MAX = 0xff00
OFPP_IN_PORT = 0xfff8
OFPP_TABLE = 0xfff9
OFPP_NORMAL = 0xfffa
OFPP_FLOOD = 0xfffb
OFPP_ALL = 0xfffc
OFPP_CONTROLLER = 0xfffd
OFPP_LOCAL = 0xfffe
OFPP_NONE = 0xffff

# wildcards
FW_IN_PORT = 1 << 0
FW_DL_VLAN = 1 << 1
FW_DL_SRC = 1 << 2
FW_DL_DST = 1 << 3
FW_DL_TYPE = 1 << 4
FW_NW_PROTO = 1 << 5
FW_TP_SRC = 1 << 6
FW_TP_DST = 1 << 7
FW_NW_SRC_SHIFT = 8
FW_NW_SRC_MASK = 0x3f << 8
FW_NW_DST_SHIFT = 14
FW_NW_DST_MASK = 0x3f << 14
FW_DL_VLAN_PCP = 1 << 20
FW_NW_TOS = 1 << 21
FW_ALL = (1 << 22) - 1

# flow mod
FC_ADD, FC_MODIFY, FC_MODIFY_STRICT, FC_DELETE, FC_DELETE_STRICT = range(5)
FF_SEND_FLOW_REM = 1
FF_CHECK_OVERLAP = 2
FF_EMERG = 4

# port config / state
PC_PORT_DOWN = 1
PC_NO_STP = 2
PC_NO_RECV = 4
PC_NO_RECV_STP = 8
PC_NO_FLOOD = 16
PC_NO_FWD = 32
PC_NO_PACKET_IN = 64
PS_LINK_DOWN = 1

# stats
ST_DESC, ST_FLOW, ST_AGGREGATE, ST_TABLE, ST_PORT, ST_QUEUE = range(6)
ST_VENDOR = 0xffff
SF_REPLY_MORE = 1

# errors
ET_HELLO_FAILED, ET_BAD_REQUEST, ET_BAD_ACTION, ET_FLOW_MOD_FAILED, \
  ET_PORT_MOD_FAILED, ET_QUEUE_OP_FAILED = range(6)
BRC_BAD_VERSION, BRC_BAD_TYPE, BRC_BAD_STAT, BRC_BAD_VENDOR, \
  BRC_BAD_SUBTYPE, BRC_EPERM, BRC_BAD_LEN, BRC_BUFFER_EMPTY, \
  BRC_BUFFER_UNKNOWN = range(9)
FMFC_ALL_TABLES_FULL, FMFC_OVERLAP, FMFC_EPERM, FMFC_BAD_EMERG_TIMEOUT, \
  FMFC_BAD_COMMAND, FMFC_UNSUPPORTED = range(6)
PMFC_BAD_PORT, PMFC_BAD_HW_ADDR = range(2)
BAC_BAD_TYPE, BAC_BAD_LEN, BAC_BAD_VENDOR, BAC_BAD_VENDOR_TYPE, \
  BAC_BAD_OUT_PORT, BAC_BAD_ARGUMENT, BAC_EPERM, BAC_TOO_MANY, \
  BAC_BAD_QUEUE = range(9)
QOFC_BAD_PORT, QOFC_BAD_QUEUE, QOFC_EPERM = range(3)

# reasons
R_NO_MATCH, R_ACTION = 0, 1
RR_IDLE_TIMEOUT, RR_HARD_TIMEOUT, RR_DELETE = 0, 1, 2
PR_ADD, PR_DELETE, PR_MODIFY = 0, 1, 2

NO_BUFFER = 0xffffffff

# action types
AT_OUTPUT, AT_SET_VLAN_VID, AT_SET_VLAN_PCP, AT_STRIP_VLAN, AT_SET_DL_SRC, \
  AT_SET_DL_DST, AT_SET_NW_SRC, AT_SET_NW_DST, AT_SET_NW_TOS, AT_SET_TP_SRC, \
  AT_SET_TP_DST, AT_ENQUEUE = range(12)
AT_VENDOR = 0xffff


def hdr(typ, length, xid, version=VERSION):
  return struct.pack("!BBHL", version, typ, length, xid & 0xffffffff)


def msg(typ, xid, body=b"", version=VERSION):
  return hdr(typ, 8 + len(body), xid, version) + body


# ---------------------------------------------------------------------------
# match
# ---------------------------------------------------------------------------

MATCH_FIELDS = ("in_port", "dl_src", "dl_dst", "dl_vlan", "dl_vlan_pcp",
                "dl_type", "nw_tos", "nw_proto", "nw_src", "nw_dst",
                "tp_src", "tp_dst")


def ignored_fields_cleared(m):
  """
  The other legal wire form of match m: fields whose protocol prerequisite is
  not met (nw_* unless dl_type is IPv4 or ARP, tp_* unless IPv4 with
  TCP/UDP/ICMP, nw_tos unless IPv4) "don't need to be wildcarded and should
  be set to 0" -- returns the wildcard word with those bits cleared.  Only
  fields absent from m are touched.  (This is also the form pox's own
  encoder produces.)
  """
  w = match_wildcards(m)
  dt = m.get("dl_type")
  ign = []
  if dt == 0x0800:
    if m.get("nw_proto") not in (1, 6, 17):
      ign = ["tp_src", "tp_dst"]
  elif dt == 0x0806:
    ign = ["tp_src", "tp_dst", "nw_tos"]
  else:
    ign = ["tp_src", "tp_dst", "nw_tos", "nw_proto", "nw_src", "nw_dst"]
  bit = {"tp_src": FW_TP_SRC, "tp_dst": FW_TP_DST, "nw_tos": FW_NW_TOS,
         "nw_proto": FW_NW_PROTO}
  for f in ign:
    if f in m:
      continue
    if f in bit:
      w &= ~bit[f]
    elif f == "nw_src":
      w &= ~(0x3f << FW_NW_SRC_SHIFT)
    else:
      w &= ~(0x3f << FW_NW_DST_SHIFT)
  return w & 0xffffffff


def match_wildcards(m):
  w = 0
  if "in_port" not in m: w |= FW_IN_PORT
  if "dl_vlan" not in m: w |= FW_DL_VLAN
  if "dl_src" not in m: w |= FW_DL_SRC
  if "dl_dst" not in m: w |= FW_DL_DST
  if "dl_type" not in m: w |= FW_DL_TYPE
  if "nw_proto" not in m: w |= FW_NW_PROTO
  if "tp_src" not in m: w |= FW_TP_SRC
  if "tp_dst" not in m: w |= FW_TP_DST
  if "dl_vlan_pcp" not in m: w |= FW_DL_VLAN_PCP
  if "nw_tos" not in m: w |= FW_NW_TOS
  sb = m.get("nw_src_bits", 0 if "nw_src" in m else 32)
  db = m.get("nw_dst_bits", 0 if "nw_dst" in m else 32)
  w |= (min(sb, 63) << FW_NW_SRC_SHIFT) | (min(db, 63) << FW_NW_DST_SHIFT)
  return w


def enc_match(m):
  """
  m: dict with optional keys in MATCH_FIELDS plus nw_src_bits / nw_dst_bits
  (number of *wildcarded* low bits, 0..32; default 0 when the address is
  present, 32 when absent).  Absent field = wildcarded, value 0 on the wire.
  'wildcards' may be given explicitly to override the computed word.
  """
  w = 0
  if "in_port" not in m: w |= FW_IN_PORT
  if "dl_vlan" not in m: w |= FW_DL_VLAN
  if "dl_src" not in m: w |= FW_DL_SRC
  if "dl_dst" not in m: w |= FW_DL_DST
  if "dl_type" not in m: w |= FW_DL_TYPE
  if "nw_proto" not in m: w |= FW_NW_PROTO
  if "tp_src" not in m: w |= FW_TP_SRC
  if "tp_dst" not in m: w |= FW_TP_DST
  if "dl_vlan_pcp" not in m: w |= FW_DL_VLAN_PCP
  if "nw_tos" not in m: w |= FW_NW_TOS
  sb = m.get("nw_src_bits", 0 if "nw_src" in m else 32)
  db = m.get("nw_dst_bits", 0 if "nw_dst" in m else 32)
  w |= (min(sb, 63) << FW_NW_SRC_SHIFT) | (min(db, 63) << FW_NW_DST_SHIFT)
  if "wildcards" in m:
    w = m["wildcards"]
  return struct.pack("!LH6s6sHBxHBBxxLLHH", w, m.get("in_port", 0),
                     m.get("dl_src", b"\0" * 6), m.get("dl_dst", b"\0" * 6),
                     m.get("dl_vlan", 0), m.get("dl_vlan_pcp", 0),
                     m.get("dl_type", 0), m.get("nw_tos", 0),
                     m.get("nw_proto", 0), m.get("nw_src", 0),
                     m.get("nw_dst", 0), m.get("tp_src", 0),
                     m.get("tp_dst", 0))


def dec_match(b, off=0):
  (w, in_port, dl_src, dl_dst, dl_vlan, pcp, dl_type, tos, proto, nw_src,
   nw_dst, tp_src, tp_dst) = struct.unpack_from("!LH6s6sHBxHBBxxLLHH", b, off)
  return {"wildcards": w, "in_port": in_port, "dl_src": dl_src,
          "dl_dst": dl_dst, "dl_vlan": dl_vlan, "dl_vlan_pcp": pcp,
          "dl_type": dl_type, "nw_tos": tos, "nw_proto": proto,
          "nw_src": nw_src, "nw_dst": nw_dst, "tp_src": tp_src,
          "tp_dst": tp_dst}


def canon_match(m):
  """
  Canonical (hashable) form of a decoded or to-be-encoded match: a tuple of
  (field -> value or None when wildcarded), addresses as (value under mask,
  prefix length).  Two matches that select the same set of packets for the
  purposes of strict identity compare equal.
  """
  if "wildcards" in m and len(m) >= 13:
    w = m["wildcards"]
    out = {}
    bits = (("in_port", FW_IN_PORT), ("dl_vlan", FW_DL_VLAN),
            ("dl_src", FW_DL_SRC), ("dl_dst", FW_DL_DST),
            ("dl_type", FW_DL_TYPE), ("nw_proto", FW_NW_PROTO),
            ("tp_src", FW_TP_SRC), ("tp_dst", FW_TP_DST),
            ("dl_vlan_pcp", FW_DL_VLAN_PCP), ("nw_tos", FW_NW_TOS))
    for name, bit in bits:
      out[name] = None if w & bit else m[name]
    for name, shift in (("nw_src", FW_NW_SRC_SHIFT),
                        ("nw_dst", FW_NW_DST_SHIFT)):
      wb = min(32, (w >> shift) & 0x3f)
      plen = 32 - wb
      if plen == 0:
        out[name] = None
      else:
        mask = (0xffffffff << wb) & 0xffffffff
        out[name] = (m[name] & mask, plen)
  else:
    out = {}
    for name in ("in_port", "dl_vlan", "dl_src", "dl_dst", "dl_type",
                 "nw_proto", "tp_src", "tp_dst", "dl_vlan_pcp", "nw_tos"):
      out[name] = m.get(name)
    for name in ("nw_src", "nw_dst"):
      if name in m:
        wb = min(32, m.get(name + "_bits", 0))
        plen = 32 - wb
        if plen == 0:
          out[name] = None
        else:
          mask = (0xffffffff << wb) & 0xffffffff
          out[name] = (m[name] & mask, plen)
      else:
        out[name] = None
  return tuple(sorted(out.items(), key=lambda kv: kv[0]))


# ---------------------------------------------------------------------------
# actions
# ---------------------------------------------------------------------------

def enc_action(a):
  """a: tuple (kind, args...) -- see below"""
  k = a[0]
  if k == "output":
    return struct.pack("!HHHH", AT_OUTPUT, 8, a[1], a[2] if len(a) > 2
                       else 0xffff)
  if k == "set_vlan_vid":
    return struct.pack("!HHHxx", AT_SET_VLAN_VID, 8, a[1])
  if k == "set_vlan_pcp":
    return struct.pack("!HHBxxx", AT_SET_VLAN_PCP, 8, a[1])
  if k == "strip_vlan":
    return struct.pack("!HHxxxx", AT_STRIP_VLAN, 8)
  if k == "set_dl_src":
    return struct.pack("!HH6sxxxxxx", AT_SET_DL_SRC, 16, a[1])
  if k == "set_dl_dst":
    return struct.pack("!HH6sxxxxxx", AT_SET_DL_DST, 16, a[1])
  if k == "set_nw_src":
    return struct.pack("!HHL", AT_SET_NW_SRC, 8, a[1])
  if k == "set_nw_dst":
    return struct.pack("!HHL", AT_SET_NW_DST, 8, a[1])
  if k == "set_nw_tos":
    return struct.pack("!HHBxxx", AT_SET_NW_TOS, 8, a[1])
  if k == "set_tp_src":
    return struct.pack("!HHHxx", AT_SET_TP_SRC, 8, a[1])
  if k == "set_tp_dst":
    return struct.pack("!HHHxx", AT_SET_TP_DST, 8, a[1])
  if k == "enqueue":
    return struct.pack("!HHHxxxxxxL", AT_ENQUEUE, 16, a[1], a[2])
  if k == "vendor":
    return struct.pack("!HHL", AT_VENDOR, 8, a[1])
  if k == "raw":
    return a[1]
  raise ValueError(k)


def enc_actions(actions):
  return b"".join(enc_action(tuple(a)) for a in actions)


def dec_actions(b, off, end):
  out = []
  while off + 4 <= end:
    t, l = struct.unpack_from("!HH", b, off)
    if l < 4 or off + l > end:
      out.append(("bad", t, l))
      break
    body = b[off + 4: off + l]
    if t == AT_OUTPUT and l == 8:
      out.append(("output",) + struct.unpack("!HH", body))
    elif t == AT_SET_VLAN_VID and l == 8:
      out.append(("set_vlan_vid", struct.unpack("!Hxx", body)[0]))
    elif t == AT_SET_VLAN_PCP and l == 8:
      out.append(("set_vlan_pcp", body[0]))
    elif t == AT_STRIP_VLAN and l == 8:
      out.append(("strip_vlan",))
    elif t in (AT_SET_DL_SRC, AT_SET_DL_DST) and l == 16:
      out.append(("set_dl_src" if t == AT_SET_DL_SRC else "set_dl_dst",
                  body[:6]))
    elif t in (AT_SET_NW_SRC, AT_SET_NW_DST) and l == 8:
      out.append(("set_nw_src" if t == AT_SET_NW_SRC else "set_nw_dst",
                  struct.unpack("!L", body)[0]))
    elif t == AT_SET_NW_TOS and l == 8:
      out.append(("set_nw_tos", body[0]))
    elif t in (AT_SET_TP_SRC, AT_SET_TP_DST) and l == 8:
      out.append(("set_tp_src" if t == AT_SET_TP_SRC else "set_tp_dst",
                  struct.unpack("!Hxx", body)[0]))
    elif t == AT_ENQUEUE and l == 16:
      p, q = struct.unpack("!HxxxxxxL", body)
      out.append(("enqueue", p, q))
    else:
      out.append(("other", t, bytes(body)))
    off += l
  return out


# ---------------------------------------------------------------------------
# controller -> switch encoders
# ---------------------------------------------------------------------------

def enc_hello(xid=0, body=b""):
  return msg(HELLO, xid, body)


def enc_echo_request(xid, body=b""):
  return msg(ECHO_REQUEST, xid, body)


def enc_echo_reply(xid, body=b""):
  return msg(ECHO_REPLY, xid, body)


def enc_features_request(xid):
  return msg(FEATURES_REQUEST, xid)


def enc_get_config_request(xid):
  return msg(GET_CONFIG_REQUEST, xid)


def enc_set_config(xid, flags, miss_send_len):
  return msg(SET_CONFIG, xid, struct.pack("!HH", flags, miss_send_len))


def enc_barrier_request(xid):
  return msg(BARRIER_REQUEST, xid)


def enc_vendor(xid, vendor, data=b""):
  return msg(VENDOR, xid, struct.pack("!L", vendor) + data)


def enc_flow_mod(xid, match, command, actions=(), cookie=0, idle=0, hard=0,
                 priority=0x8000, buffer_id=NO_BUFFER, out_port=OFPP_NONE,
                 flags=0):
  body = (enc_match(match) + struct.pack("!QHHHHLHH", cookie, command, idle,
                                         hard, priority, buffer_id, out_port,
                                         flags) + enc_actions(actions))
  return msg(FLOW_MOD, xid, body)


def enc_packet_out(xid, buffer_id, in_port, actions, data=b""):
  acts = enc_actions(actions)
  return msg(PACKET_OUT, xid, struct.pack("!LHH", buffer_id, in_port,
                                          len(acts)) + acts + data)


def enc_port_mod(xid, port_no, hw_addr, config, mask, advertise=0):
  return msg(PORT_MOD, xid, struct.pack("!H6sLLLxxxx", port_no, hw_addr,
                                        config, mask, advertise))


def enc_stats_request(xid, stype, body=b"", flags=0):
  return msg(STATS_REQUEST, xid, struct.pack("!HH", stype, flags) + body)


def enc_flow_stats_request(xid, match, table_id=0xff, out_port=OFPP_NONE,
                           aggregate=False):
  body = enc_match(match) + struct.pack("!BxH", table_id, out_port)
  return enc_stats_request(xid, ST_AGGREGATE if aggregate else ST_FLOW, body)


def enc_port_stats_request(xid, port_no=OFPP_NONE):
  return enc_stats_request(xid, ST_PORT, struct.pack("!Hxxxxxx", port_no))


def enc_queue_stats_request(xid, port_no, queue_id):
  return enc_stats_request(xid, ST_QUEUE, struct.pack("!HxxL", port_no,
                                                      queue_id))


def enc_queue_get_config_request(xid, port):
  return msg(QUEUE_GET_CONFIG_REQUEST, xid, struct.pack("!Hxx", port))


# ---------------------------------------------------------------------------
# switch -> controller encoders (for the scripted switch peer)
# ---------------------------------------------------------------------------

def enc_phy_port(p):
  name = p.get("name", b"")
  if isinstance(name, str):
    name = name.encode()
  return struct.pack("!H6s16sLLLLLL", p["port_no"], p["hw_addr"],
                     name[:15], p.get("config", 0),
                     p.get("state", 0), p.get("curr", 0),
                     p.get("advertised", 0), p.get("supported", 0),
                     p.get("peer", 0))


def dec_phy_port(b, off):
  (no, hw, name, config, state, curr, adv, sup, peer) = struct.unpack_from(
      "!H6s16sLLLLLL", b, off)
  return {"port_no": no, "hw_addr": hw,
          "name": name.split(b"\0", 1)[0], "config": config, "state": state,
          "curr": curr, "advertised": adv, "supported": sup, "peer": peer}


def enc_features_reply(xid, dpid, ports, n_buffers=0, n_tables=1,
                       capabilities=0, actions=0):
  body = struct.pack("!QLBxxxLL", dpid, n_buffers, n_tables, capabilities,
                     actions) + b"".join(enc_phy_port(p) for p in ports)
  return msg(FEATURES_REPLY, xid, body)


def enc_port_status(xid, reason, port):
  return msg(PORT_STATUS, xid, struct.pack("!Bxxxxxxx", reason)
             + enc_phy_port(port))


def enc_barrier_reply(xid):
  return msg(BARRIER_REPLY, xid)


def enc_error(xid, etype, code, data=b""):
  return msg(ERROR, xid, struct.pack("!HH", etype, code) + data)


def enc_packet_in(xid, buffer_id, total_len, in_port, reason, data):
  return msg(PACKET_IN, xid, struct.pack("!LHHBx", buffer_id, total_len,
                                         in_port, reason) + data)


def enc_stats_reply(xid, stype, body=b"", flags=0):
  return msg(STATS_REPLY, xid, struct.pack("!HH", stype, flags) + body)


def enc_desc_stats(mfr=b"m", hw=b"h", sw=b"s", serial=b"1", dp=b"d"):
  return struct.pack("!256s256s256s32s256s", mfr, hw, sw, serial, dp)


def enc_flow_stats_entry(match, actions=(), table_id=0, duration_sec=0,
                         duration_nsec=0, priority=0x8000, idle=0, hard=0,
                         cookie=0, packet_count=0, byte_count=0):
  acts = enc_actions(actions)
  return (struct.pack("!HBx", 88 + len(acts), table_id) + enc_match(match)
          + struct.pack("!LLHHHxxxxxxQQQ", duration_sec, duration_nsec,
                        priority, idle, hard, cookie, packet_count,
                        byte_count) + acts)


def enc_table_stats_entry(table_id=0, name=b"t", wildcards=FW_ALL,
                          max_entries=10, active=0, lookup=0, matched=0):
  return struct.pack("!Bxxx32sLLLQQ", table_id, name, wildcards, max_entries,
                     active, lookup, matched)


def enc_port_stats_entry(port_no, vals=None):
  vals = list(vals or [0] * 12)
  return struct.pack("!Hxxxxxx12Q", port_no, *vals)


def enc_queue_stats_entry(port_no, queue_id, tx_bytes=0, tx_packets=0,
                          tx_errors=0):
  return struct.pack("!HxxLQQQ", port_no, queue_id, tx_bytes, tx_packets,
                     tx_errors)


def enc_flow_removed(xid, match, cookie=0, priority=0, reason=0,
                     duration_sec=0, duration_nsec=0, idle=0, packet_count=0,
                     byte_count=0):
  return msg(FLOW_REMOVED, xid, enc_match(match) + struct.pack(
      "!QHBxLLHxxQQ", cookie, priority, reason, duration_sec, duration_nsec,
      idle, packet_count, byte_count))


# ---------------------------------------------------------------------------
# framing and decoding
# ---------------------------------------------------------------------------

def split_stream(buf):
  """
  Split a byte stream by declared header lengths.  Returns (frames,
  residue, bad) where bad is True when a header declares a length < 8
  (framing cannot continue).
  """
  out = []
  off = 0
  n = len(buf)
  while n - off >= 8:
    l = (buf[off + 2] << 8) | buf[off + 3]
    if l < 8:
      return out, buf[off:], True
    if n - off < l:
      break
    out.append(bytes(buf[off:off + l]))
    off += l
  return out, bytes(buf[off:]), False


def decode(frame):
  """Decode one complete frame into a dict; never raises on short bodies --
  a body that does not fit its type is reported under key 'malformed'."""
  ver, typ, length, xid = struct.unpack_from("!BBHL", frame, 0)
  d = {"version": ver, "type": typ, "len": length, "xid": xid,
       "name": TYPE_NAMES[typ] if typ < len(TYPE_NAMES) else "T%d" % typ}
  b = frame
  try:
    if typ in (ECHO_REQUEST, ECHO_REPLY, HELLO):
      d["body"] = bytes(b[8:])
    elif typ == ERROR:
      d["etype"], d["code"] = struct.unpack_from("!HH", b, 8)
      d["data"] = bytes(b[12:])
    elif typ == FEATURES_REPLY:
      (d["dpid"], d["n_buffers"], d["n_tables"], d["capabilities"],
       d["actions"]) = struct.unpack_from("!QLBxxxLL", b, 8)
      ports = []
      off = 32
      if (length - 32) % 48:
        d["malformed"] = "ports"
      while off + 48 <= length:
        ports.append(dec_phy_port(b, off))
        off += 48
      d["ports"] = ports
    elif typ == GET_CONFIG_REPLY or typ == SET_CONFIG:
      d["flags"], d["miss_send_len"] = struct.unpack_from("!HH", b, 8)
      if length != 12:
        d["malformed"] = "len"
    elif typ == PACKET_IN:
      (d["buffer_id"], d["total_len"], d["in_port"],
       d["reason"]) = struct.unpack_from("!LHHBx", b, 8)
      d["data"] = bytes(b[18:])
    elif typ == FLOW_REMOVED:
      d["match"] = dec_match(b, 8)
      (d["cookie"], d["priority"], d["reason"], d["duration_sec"],
       d["duration_nsec"], d["idle_timeout"], d["packet_count"],
       d["byte_count"]) = struct.unpack_from("!QHBxLLHxxQQ", b, 48)
      if length != 88:
        d["malformed"] = "len"
    elif typ == PORT_STATUS:
      d["reason"] = b[8]
      d["desc"] = dec_phy_port(b, 16)
      if length != 64:
        d["malformed"] = "len"
    elif typ in (BARRIER_REPLY, BARRIER_REQUEST, FEATURES_REQUEST,
                 GET_CONFIG_REQUEST):
      if length != 8:
        d["malformed"] = "len"
    elif typ == STATS_REPLY or typ == STATS_REQUEST:
      d["stype"], d["flags"] = struct.unpack_from("!HH", b, 8)
      body = b[12:]
      d["raw_body"] = bytes(body)
      if typ == STATS_REPLY:
        _dec_stats_reply(d, body)
    elif typ == QUEUE_GET_CONFIG_REPLY:
      d["port"] = struct.unpack_from("!H", b, 8)[0]
      d["queues_raw"] = bytes(b[16:])
    elif typ == VENDOR:
      d["vendor"] = struct.unpack_from("!L", b, 8)[0]
      d["data"] = bytes(b[12:])
    elif typ == FLOW_MOD:
      d["match"] = dec_match(b, 8)
      (d["cookie"], d["command"], d["idle_timeout"], d["hard_timeout"],
       d["priority"], d["buffer_id"], d["out_port"],
       d["flags"]) = struct.unpack_from("!QHHHHLHH", b, 48)
      d["actions"] = dec_actions(b, 72, length)
    elif typ == PACKET_OUT:
      (d["buffer_id"], d["in_port"], alen) = struct.unpack_from("!LHH", b, 8)
      d["actions"] = dec_actions(b, 16, 16 + alen)
      d["data"] = bytes(b[16 + alen:])
    elif typ == PORT_MOD:
      (d["port_no"], d["hw_addr"], d["config"], d["mask"],
       d["advertise"]) = struct.unpack_from("!H6sLLLxxxx", b, 8)
  except struct.error as e:
    d["malformed"] = "short:" + str(e)
  return d


def _dec_stats_reply(d, body):
  st = d["stype"]
  n = len(body)
  if st == ST_DESC:
    if n != 1056:
      d["malformed"] = "desc len %d" % n
    else:
      f = struct.unpack("!256s256s256s32s256s", body)
      d["desc"] = [x.split(b"\0", 1)[0] for x in f]
  elif st == ST_FLOW:
    off = 0
    flows = []
    while off + 88 <= n:
      l = struct.unpack_from("!H", body, off)[0]
      if l < 88 or off + l > n:
        d["malformed"] = "flow entry len"
        break
      e = {"table_id": body[off + 2], "match": dec_match(body, off + 4)}
      (e["duration_sec"], e["duration_nsec"], e["priority"],
       e["idle_timeout"], e["hard_timeout"], e["cookie"], e["packet_count"],
       e["byte_count"]) = struct.unpack_from("!LLHHHxxxxxxQQQ", body,
                                             off + 44)
      e["actions"] = dec_actions(body, off + 88, off + l)
      flows.append(e)
      off += l
    if off != n and "malformed" not in d:
      d["malformed"] = "flow trailing"
    d["flows"] = flows
  elif st == ST_AGGREGATE:
    if n != 24:
      d["malformed"] = "aggregate len %d" % n
    else:
      (d["packet_count"], d["byte_count"],
       d["flow_count"]) = struct.unpack("!QQLxxxx", body)
  elif st == ST_TABLE:
    if n % 64:
      d["malformed"] = "table len %d" % n
    tables = []
    for off in range(0, n - 63, 64):
      (tid, name, wc, mx, act, look,
       mat) = struct.unpack_from("!Bxxx32sLLLQQ", body, off)
      tables.append({"table_id": tid, "name": name.split(b"\0", 1)[0],
                     "wildcards": wc, "max_entries": mx, "active_count": act,
                     "lookup_count": look, "matched_count": mat})
    d["tables"] = tables
  elif st == ST_PORT:
    if n % 104:
      d["malformed"] = "port len %d" % n
    ports = []
    for off in range(0, n - 103, 104):
      v = struct.unpack_from("!Hxxxxxx12Q", body, off)
      ports.append({"port_no": v[0], "rx_packets": v[1], "tx_packets": v[2],
                    "rx_bytes": v[3], "tx_bytes": v[4], "rest": list(v[5:])})
    d["ports"] = ports
  elif st == ST_QUEUE:
    if n % 32:
      d["malformed"] = "queue len %d" % n
    d["queues"] = n // 32
