"""
Executable reference model of an OpenFlow 1.0 single-table switch, written
from the specification and the property statements (DESIGN.md section 5a).

Used as the oracle of the switch-world checks (C03 lookup, C04 table state
machine, C12 actions/ports/counters, C18 buffers).  Works on raw bytes and
on of10wire's tuples/dicts only.
"""

from . import of10wire as W
from . import rawframe as F

INF_PRIO = (1 << 16) + 1


def canon_of(m):
  """canonical dict of a match (decoded dict or encoder-style dict) with
  fields whose prerequisites are unmet forced to None"""
  c = dict(W.canon_match(m))
  dt = c.get("dl_type")
  if dt not in (0x0800, 0x0806):
    for f in ("nw_tos", "nw_proto", "nw_src", "nw_dst", "tp_src", "tp_dst"):
      c[f] = None
  elif dt == 0x0806:
    for f in ("nw_tos", "tp_src", "tp_dst"):
      c[f] = None
  elif c.get("nw_proto") not in (1, 6, 17):
    c["tp_src"] = c["tp_dst"] = None
  return c


def ckey(c):
  return tuple(sorted(c.items()))


def is_exact(c):
  """no field wildcarded (only possible for IPv4 TCP/UDP/ICMP matches)"""
  for f, v in c.items():
    if v is None:
      return False
    if f in ("nw_src", "nw_dst") and v[1] != 32:
      return False
  return True


def subsumes(d, e):
  """description d covers entry e: every field d fixes, e fixes equally (or
  more narrowly for prefixes)"""
  for f, v in d.items():
    if v is None:
      continue
    ev = e.get(f)
    if ev is None:
      return False
    if f in ("nw_src", "nw_dst"):
      if v[1] > ev[1]:
        return False
      mask = (0xffffffff << (32 - v[1])) & 0xffffffff
      if (ev[0] & mask) != (v[0] & mask):
        return False
    elif v != ev:
      return False
  return True


def overlaps(a, b):
  """some packet could match both"""
  for f in a:
    va, vb = a[f], b.get(f)
    if va is None or vb is None:
      continue
    if f in ("nw_src", "nw_dst"):
      p = min(va[1], vb[1])
      mask = (0xffffffff << (32 - p)) & 0xffffffff if p else 0
      if (va[0] & mask) != (vb[0] & mask):
        return False
    elif va != vb:
      return False
  return True


class Flow(object):
  __slots__ = ("canon", "key", "priority", "actions", "cookie", "idle",
               "hard", "flags", "created", "touched", "packets", "bytes",
               "uid")

  def __init__(self, canon, priority, actions, cookie, idle, hard, flags,
               now, uid):
    self.canon = canon
    self.key = (ckey(canon), priority)
    self.priority = priority
    self.actions = [tuple(a) for a in actions]
    self.cookie = cookie
    self.idle = idle
    self.hard = hard
    self.flags = flags
    self.created = now
    self.touched = now
    self.packets = 0
    self.bytes = 0
    self.uid = uid

  @property
  def eff(self):
    return INF_PRIO if is_exact(self.canon) else self.priority

  def outputs_to(self, port):
    return any(a[0] == "output" and a[1] == port for a in self.actions)

  def brief(self):
    return "flow#%d prio=%d %s" % (
        self.uid, self.priority,
        {k: v for k, v in self.canon.items() if v is not None})


class SwitchModel(object):

  def __init__(self, ports, max_entries, max_buffers, miss_send_len,
               sweep_period):
    # ports: {no: {"hw": bytes, "config": int, "state": int}}
    self.ports = ports
    self.max_entries = max_entries
    self.max_buffers = max_buffers
    self.miss_send_len = miss_send_len
    self.flags = 0
    self.sweep = sweep_period
    self.flows = []
    self.uid = 0
    self.rx = {p: [0, 0] for p in ports}
    self.tx = {p: [0, 0] for p in ports}
    self.lookups = 0
    self.matched = 0
    self.buffers = {}          # id -> (frame bytes, in_port)
    self.pending_removed = []  # expected flow_removed messages
    self.counts = {}

  def _c(self, k, n=1):
    self.counts[k] = self.counts.get(k, 0) + n

  # -- table -------------------------------------------------------------
  def find(self, key):
    for f in self.flows:
      if f.key == key:
        return f
    return None

  def flow_mod(self, fm, now):
    """
    fm: dict(match=<encoder dict>, command, priority, actions, cookie, idle,
    hard, flags, out_port).  Returns ("ok", None) or ("error", (etype,
    codes)).  Expected flow_removed messages are appended to
    self.pending_removed.
    """
    c = canon_of(fm["match"])
    cmd = fm["command"]
    prio = fm["priority"]
    if cmd in (W.FC_MODIFY, W.FC_MODIFY_STRICT):
      hit = []
      for f in self.flows:
        if cmd == W.FC_MODIFY_STRICT:
          ok = f.key == (ckey(c), prio)
        else:
          ok = subsumes(c, f.canon)
        if ok:
          hit.append(f)
      if hit:
        for f in hit:
          f.actions = [tuple(a) for a in fm["actions"]]
        return ("ok", None)
      cmd = W.FC_ADD     # modify acts as add
    if cmd == W.FC_ADD:
      if fm["flags"] & W.FF_EMERG:
        return ("error", (W.ET_FLOW_MOD_FAILED, None))
      new = Flow(c, prio, fm["actions"], fm["cookie"], fm["idle"],
                 fm["hard"], fm["flags"], now, self.uid)
      if fm["flags"] & W.FF_CHECK_OVERLAP:
        for f in self.flows:
          if f.eff == new.eff and overlaps(f.canon, c):
            return ("error", (W.ET_FLOW_MOD_FAILED, (W.FMFC_OVERLAP,)))
      old = self.find(new.key)
      n = len(self.flows) - (1 if old is not None else 0)
      if n >= self.max_entries:
        return ("error", (W.ET_FLOW_MOD_FAILED, (W.FMFC_ALL_TABLES_FULL,)))
      if old is not None:
        self.flows.remove(old)
        self._c("replaced")
      self.uid += 1
      self.flows.append(new)
      return ("ok", None)
    if cmd in (W.FC_DELETE, W.FC_DELETE_STRICT):
      op = fm.get("out_port", W.OFPP_NONE)
      gone = []
      for f in self.flows:
        if cmd == W.FC_DELETE_STRICT:
          ok = f.key == (ckey(c), prio)
        else:
          ok = subsumes(c, f.canon)
        if ok and op != W.OFPP_NONE and not f.outputs_to(op):
          ok = False
        if ok:
          gone.append(f)
      for f in gone:
        self.flows.remove(f)
        self._c("removed_delete")
        if f.flags & W.FF_SEND_FLOW_REM:
          self.pending_removed.append((f, W.RR_DELETE, now, now))
      return ("ok", None)
    return ("error", (W.ET_FLOW_MOD_FAILED, (W.FMFC_BAD_COMMAND,)))

  # -- expiry reconciliation ----------------------------------------------
  def reconcile(self, present_keys, now, last_sync, eps=1e-6):
    """
    present_keys: set of flow keys the implementation currently has.
    Returns list of problems (vclass, detail); removes justified expiries
    from the model and queues their flow_removed expectations.
    """
    probs = []
    for f in list(self.flows):
      hard_due = f.hard > 0 and now - f.created >= f.hard - eps
      idle_due = f.idle > 0 and now - f.touched >= f.idle - eps
      if f.key not in present_keys:
        if not (hard_due or idle_due):
          probs.append(("vanished", "%s disappeared at t=%.3f without "
                        "delete or timeout (age %.3f, idle for %.3f, "
                        "idle_to=%d hard_to=%d)"
                        % (f.brief(), now, now - f.created, now - f.touched,
                           f.idle, f.hard)))
        self.flows.remove(f)
        self._c("removed_idle" if idle_due else "removed_hard")
        if f.flags & W.FF_SEND_FLOW_REM:
          reasons = set()
          if idle_due:
            reasons.add(W.RR_IDLE_TIMEOUT)
          if hard_due:
            reasons.add(W.RR_HARD_TIMEOUT)
          if not reasons:
            reasons = {W.RR_IDLE_TIMEOUT, W.RR_HARD_TIMEOUT}
          self.pending_removed.append((f, reasons, last_sync, now))
      else:
        if f.hard > 0 and now - f.created > f.hard + self.sweep + eps:
          probs.append(("overdue-hard", "%s still installed %.3fs after "
                        "creation (hard_timeout=%d, sweep every %gs)"
                        % (f.brief(), now - f.created, f.hard, self.sweep)))
        if f.idle > 0 and now - f.touched > f.idle + self.sweep + eps:
          probs.append(("overdue-idle", "%s still installed %.3fs after its "
                        "last packet (idle_timeout=%d, sweep every %gs)"
                        % (f.brief(), now - f.touched, f.idle, self.sweep)))
    mk = set(f.key for f in self.flows)
    for k in present_keys:
      if k not in mk:
        probs.append(("phantom", "implementation has an entry the model "
                      "does not: prio=%d %s"
                      % (k[1], {a: b for a, b in k[0] if b is not None})))
    return probs

  # -- lookup ------------------------------------------------------------
  def candidates(self, key):
    """flows matching the lookup key with maximal effective priority"""
    m = [f for f in self.flows if F.key_matches(f.canon, key)]
    if not m:
      return []
    top = max(f.eff for f in m)
    return [f for f in m if f.eff == top]

  # -- ports -------------------------------------------------------------
  HANDLED = (W.PC_PORT_DOWN | W.PC_NO_RECV | W.PC_NO_RECV_STP |
             W.PC_NO_FLOOD | W.PC_NO_FWD | W.PC_NO_PACKET_IN)

  def port_mod(self, port_no, hw, config, mask):
    p = self.ports.get(port_no)
    if p is None:
      return ("error", (W.ET_PORT_MOD_FAILED, (W.PMFC_BAD_PORT,)))
    if hw != p["hw"]:
      return ("error", (W.ET_PORT_MOD_FAILED, (W.PMFC_BAD_HW_ADDR,)))
    m = mask & self.HANDLED
    p["config"] = (p["config"] & ~m) | (config & m)
    return ("ok", None)

  def can_tx(self, port_no):
    p = self.ports.get(port_no)
    if p is None:
      return False
    if p["config"] & (W.PC_NO_FWD | W.PC_PORT_DOWN):
      return False
    return True

  # -- action pipeline ----------------------------------------------------
  def run_actions(self, actions, frame, in_port):
    """
    Returns (outputs, events): outputs = [(port, bytes)], events = list of
    ("controller", bytes, max_len) / ("table", bytes) in order.
    """
    outs = []
    events = []
    cur = frame
    for a in actions:
      a = tuple(a)
      if a[0] in ("output", "enqueue"):
        port = a[1]
        if port < W.OFPP_MAX:
          if port != in_port and self.can_tx(port):
            outs.append((port, cur))
        elif a[0] == "enqueue":
          pass
        elif port == W.OFPP_IN_PORT:
          if self.can_tx(in_port):
            outs.append((in_port, cur))
        elif port in (W.OFPP_FLOOD, W.OFPP_ALL):
          for no in sorted(self.ports):
            if no == in_port:
              continue
            if port == W.OFPP_FLOOD and \
                self.ports[no]["config"] & W.PC_NO_FLOOD:
              continue
            if self.can_tx(no):
              outs.append((no, cur))
        elif port == W.OFPP_CONTROLLER:
          events.append(("controller", cur, a[2] if len(a) > 2 else 0xffff))
        elif port == W.OFPP_TABLE:
          events.append(("table", cur))
      else:
        cur = F.apply_action(cur, a)
    return outs, events

  def count_tx(self, outs):
    for port, data in outs:
      self.tx[port][0] += 1
      self.tx[port][1] += len(data)
