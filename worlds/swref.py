"""
Switch refinement harness shared by C03, C04, C12 and C18.

A plan (JSON) is a history of controller messages, data-plane frames, clock
advances and port changes.  It is executed against the real switch stack in
the SW world and, in lock step, against models.of10switch.SwitchModel; the
two are compared after every step.  Every comparison carries the property it
belongs to (scope tag); a check reports only deviations in its own scope --
a deviation in another property's scope ends the run quietly (counted as a
probe) because the model can no longer be trusted afterwards.
"""

import struct

from simkit import sim as S
from simkit.rng import mix
from simkit.check import load_known
from worlds.sw import SWWorld
from models import of10wire as W
from models import rawframe as F
from models import of10switch as M


class Deviation(Exception):
  def __init__(self, tag, vclass, detail):
    Exception.__init__(self, tag, vclass, detail)
    self.tag = tag
    self.vclass = vclass
    self.detail = detail


# ---------------------------------------------------------------------------
# JSON <-> wire helpers
# ---------------------------------------------------------------------------

def jmatch(m):
  """JSON match (hex strings for MACs) -> encoder dict"""
  out = {}
  for k, v in m.items():
    if k in ("dl_src", "dl_dst"):
      out[k] = bytes.fromhex(v)
    else:
      out[k] = v
  return out


def jacts(acts):
  out = []
  for a in acts:
    a = list(a)
    if a[0] in ("set_dl_src", "set_dl_dst"):
      a[1] = bytes.fromhex(a[1])
    out.append(tuple(a))
  return out


def build_frame(fs):
  """frame spec (JSON dict) -> bytes"""
  raw = _build_frame(fs)
  if fs.get("pad") and fs["kind"] in ("udp", "tcp", "icmp", "ipother"):
    raw += b"\0" * fs["pad"]          # Ethernet padding after the datagram
  if fs.get("tag8023"):
    # an 802.1Q-tagged 802.3 frame as it is on the wire: the tag sits
    # between the addresses and the length field
    vid, pcp = fs["tag8023"]
    raw = raw[:12] + struct.pack("!HH", 0x8100, (pcp << 13) | vid) + raw[12:]
  if fs.get("vlan") and fs.get("vlan2"):
    # a second 802.1Q tag under the first (the 12-tuple only looks at the
    # outer one: dl_type is then 0x8100)
    vid, pcp = fs["vlan2"]
    raw = raw[:16] + struct.pack("!HH", 0x8100, (pcp << 13) | vid) + raw[16:]
  return raw


def _build_frame(fs):
  dst = bytes.fromhex(fs["dst"])
  src = bytes.fromhex(fs["src"])
  vlan = tuple(fs["vlan"]) if fs.get("vlan") else None
  k = fs["kind"]
  pay = bytes((i * 7 + fs.get("pseed", 0)) & 0xff
              for i in range(fs.get("paylen", 0)))
  if k in ("udp", "tcp", "icmp", "ipother"):
    sip, dip = fs["sip"], fs["dip"]
    frag = fs.get("frag")
    if k == "udp" and fs.get("zsum") and len(pay) >= 2:
      # payload tuned so that the datagram's checksum computes to zero (which
      # RFC 768 has transmitted as 0xffff; a zero field means "none")
      body0 = b"\0\0" + pay[2:]
      ln = 8 + len(body0)
      s0 = (~F.csum(F._pseudo(sip, dip, 17, ln)
                    + struct.pack("!HHHH", fs["sport"], fs["dport"], ln, 0)
                    + body0)) & 0xffff
      pay = struct.pack("!H", (0xffff - s0) & 0xffff) + pay[2:]
    if k == "udp":
      l4 = F.udp(sip, dip, fs["sport"], fs["dport"], pay)
      if frag and frag[0] and frag[1] == 0 and fs.get("fragcut"):
        # a real first fragment: the UDP header describes the whole
        # datagram, of which only the beginning is here
        l4 = F.udp(sip, dip, fs["sport"], fs["dport"],
                   pay + bytes(fs["fragcut"]))[:len(l4)]
      if fs.get("nosum") and len(l4) >= 8:
        l4 = l4[:6] + b"\0\0" + l4[8:]
      proto = 17
    elif k == "tcp":
      l4 = F.tcp(sip, dip, fs["sport"], fs["dport"], pay,
                 options=bytes.fromhex(fs.get("tcpopts", "")))
      proto = 6
    elif k == "icmp":
      l4 = F.icmp(fs["itype"], fs["icode"], b"\0\0\0\0" + pay)
      proto = 1
    else:
      l4 = pay
      proto = fs["proto"]
    if fs.get("l4cut") is not None:
      l4 = l4[:fs["l4cut"]]           # cut off inside the transport header
    flags, off = (0, 0)
    if frag:
      flags, off = (1 if frag[0] else 0), frag[1]
    if fs.get("df"):
      flags |= 2
    ip = F.ipv4(sip, dip, proto, l4, tos=fs.get("tos", 0), flags=flags,
                frag=off, ident=fs.get("ident", 1),
                options=bytes.fromhex(fs.get("ipopts", "")))
    return F.eth(dst, src, F.ETH_IP, ip, vlan)
  if k == "arp":
    return F.eth(dst, src, F.ETH_ARP,
                 F.arp(fs["op"], src, fs["sip"], b"\0" * 6, fs["dip"]), vlan)
  if k == "rarp":
    # same layout as ARP, but not ARP as far as the 12-tuple is concerned
    return F.eth(dst, src, 0x8035,
                 F.arp(fs["op"], src, fs["sip"], b"\0" * 6, fs["dip"]), vlan)
  if k == "ip6":
    # a plain IPv6 datagram (no extension headers; next header 59 "none" or
    # an experimental protocol, so that nothing above it is interpreted):
    # to the 1.0 table a frame with dl_type 0x86dd and nothing else
    s6 = bytes.fromhex("20010db8000000000000000000000000")[:15] + \
        bytes([fs.get("h6", 1)])
    d6 = bytes.fromhex("20010db8000000000000000000000000")[:15] + \
        bytes([fs.get("h6", 1) ^ 0x80])
    hdr = struct.pack("!LHBB", (6 << 28) | (fs.get("tc", 0) << 20)
                      | fs.get("fl", 0), len(pay), fs["nh"], 64)
    return F.eth(dst, src, 0x86dd, hdr + s6 + d6 + pay, vlan)
  if k == "other":
    return F.eth(dst, src, fs["ethertype"], pay, vlan)
  if k == "snap" and fs.get("snapvlan"):
    # 802.3 / SNAP (OUI 0, type 0x8100) / 802.1Q tag / IPv4+UDP: the tag
    # comes after the SNAP header, which is the order the 1.0
    # specification's parsing flowchart expects
    vid, pcp = fs["snapvlan"]
    inner = F.ipv4(fs["sip"], fs["dip"], 17,
                   F.udp(fs["sip"], fs["dip"], fs.get("sport", 1000),
                         fs.get("dport", 80), pay))
    return F.llc_snap(dst, src, b"\0\0\0", 0x8100,
                      struct.pack("!HH", (pcp << 13) | vid, 0x0800) + inner)
  if k == "snap":
    return F.llc_snap(dst, src, bytes.fromhex(fs.get("oui", "000000")),
                      fs["ethertype"], pay)
  if k == "llc":
    return F.llc_plain(dst, src, pay)
  raise ValueError(k)


def is_stp_dst(raw):
  return raw[:6] == b"\x01\x80\xc2\x00\x00\x00"


# ---------------------------------------------------------------------------

class Ref(object):

  def __init__(self, plan, scope, known=None):
    self.plan = plan
    self.scope = scope
    cfg = plan["cfg"]
    self.cfg = cfg
    self.sim = S.Sim(mix(plan["seed"], "run"), calm=plan.get("calm", False))
    S.install(self.sim)
    self.sim.recv_mode = cfg.get("recv_mode", "all")
    self.sim.net_segment = cfg.get("segment", False)
    self.world = SWWorld(self.sim, cfg)
    self.known = known if known is not None else {}
    self.hit_known = []
    self.xid = 0x10000
    self.last_sync = None
    self.oos = None

  # -- plumbing ----------------------------------------------------------
  def dev(self, tag, vclass, detail, kf=None):
    if kf is not None and kf in self.known:
      self.hit_known.append(kf)
      self.sim.probes["known_" + kf] += 1
      return
    raise Deviation(tag, vclass, detail)

  def nx(self):
    self.xid += 1
    return self.xid

  def boot(self):
    w = self.world
    w.boot()
    sw = w.switch
    ports = {p.port_no: {"hw": p.hw_addr.toRaw(), "config": p.config,
                         "state": p.state} for p in sw.ports.values()}
    cfg = self.cfg
    self.model = M.SwitchModel(ports, cfg.get("max_entries", 0x7fffffff),
                               cfg.get("max_buffers", 100),
                               cfg.get("miss_send_len", 128),
                               cfg.get("expire_period", 2))
    got = w.hello()
    self.async_in = []
    self.last_sync = self.sim.now
    if not got or got[0]["type"] != W.HELLO:
      raise S.SimAbort("harness", "no hello from switch")

  def roundtrip(self, raw):
    """send a control message; everything the switch wrote comes back as
    (replies-by-xid, async list)"""
    self.world.send(raw)
    self.sim.drain()
    return self.sort_msgs()

  def sort_msgs(self):
    msgs = self.world.collect()
    out = []
    for d in msgs:
      if d["type"] in (W.PACKET_IN, W.FLOW_REMOVED, W.PORT_STATUS):
        self.async_in.append(d)
      else:
        out.append(d)
    return out

  def take_async(self, typ):
    got = [d for d in self.async_in if d["type"] == typ]
    self.async_in = [d for d in self.async_in if d["type"] != typ]
    return got

  # -- table probe and reconciliation --------------------------------------
  def probe_table(self):
    xid = self.nx()
    rs = self.roundtrip(W.enc_flow_stats_request(xid, {}, 0xff))
    rs = [d for d in rs if d["xid"] == xid]
    if len(rs) != 1 or rs[0]["type"] != W.STATS_REPLY or \
        rs[0].get("stype") != W.ST_FLOW or "malformed" in rs[0]:
      self.dev("C13", "probe/flow-stats", "flow stats probe got %r"
               % ([(d["name"], d.get("malformed")) for d in rs],))
      raise Deviation("C13", "probe/flow-stats", "unusable probe")
    out = {}
    for e in rs[0]["flows"]:
      key = (M.ckey(M.canon_of(e["match"])), e["priority"])
      if key in out:
        self.dev("C04", "duplicate-entry", "two installed entries with "
                 "identical match and priority %r" % (key[1],))
      out[key] = e
    return out

  def sync(self, full=True):
    """reconcile expiry, then compare the whole table (C04 scope)"""
    sim = self.sim
    model = self.model
    now = sim.now
    impl = self.probe_table()
    probs = model.reconcile(set(impl), now, self.last_sync)
    for vc, det in probs:
      self.dev("C04", vc, det)
    self.check_flow_removed(now)
    self.last_sync = now
    if full:
      for f in model.flows:
        e = impl.get(f.key)
        if e is None:
          continue
        if _norm(e["actions"]) != _norm(f.actions):
          self.dev("C04", "entry/actions", "%s: actions %r, model %r"
                   % (f.brief(), e["actions"], f.actions))
        if (e["cookie"], e["idle_timeout"], e["hard_timeout"]) != \
            (f.cookie, f.idle, f.hard):
          self.dev("C04", "entry/fields", "%s: cookie/idle/hard %r, model %r"
                   % (f.brief(), (e["cookie"], e["idle_timeout"],
                                  e["hard_timeout"]),
                      (f.cookie, f.idle, f.hard)))
        if (e["packet_count"], e["byte_count"]) != (f.packets, f.bytes):
          self.dev("C04", "entry/counters", "%s: packets/bytes %d/%d, model "
                   "%d/%d" % (f.brief(), e["packet_count"], e["byte_count"],
                              f.packets, f.bytes))
        if e["duration_sec"] != int(now - f.created):
          self.dev("C04", "entry/duration", "%s: duration_sec %d, model %d"
                   % (f.brief(), e["duration_sec"], int(now - f.created)))
      # sorted-by-effective-priority invariant of the real table
      effs = [t.effective_priority for t in self.world.switch.table.entries]
      if any(effs[i] < effs[i + 1] for i in range(len(effs) - 1)):
        self.dev("C04", "table-unsorted", "table.entries effective "
                 "priorities not non-increasing: %r" % (effs,))
    return impl

  def check_flow_removed(self, now, eps=1e-6):
    got = self.take_async(W.FLOW_REMOVED)
    pend = self.model.pending_removed
    self.model.pending_removed = []
    for d in got:
      if "malformed" in d:
        self.dev("C04", "flow-removed/malformed", d["malformed"])
      key = (M.ckey(M.canon_of(d["match"])), d["priority"])
      hit = None
      for i, (f, reasons, lo, hi) in enumerate(pend):
        if f.key == key:
          hit = i
          break
      if hit is None:
        self.dev("C04", "flow-removed/unexpected", "flow_removed (reason %d) "
                 "for prio=%d %s which no removal with SEND_FLOW_REM "
                 "accounts for" % (d["reason"], d["priority"],
                                   {a: b for a, b in key[0] if b is not None}))
        continue
      f, reasons, lo, hi = pend.pop(hit)
      if isinstance(reasons, int):
        reasons = {reasons}
      if d["reason"] not in reasons:
        self.dev("C04", "flow-removed/reason", "%s removed with reason %d, "
                 "expected one of %s" % (f.brief(), d["reason"],
                                         sorted(reasons)))
      if (d["cookie"], d["idle_timeout"]) != (f.cookie, f.idle):
        self.dev("C04", "flow-removed/fields", "%s: cookie/idle %r"
                 % (f.brief(), (d["cookie"], d["idle_timeout"])))
      if (d["packet_count"], d["byte_count"]) != (f.packets, f.bytes):
        self.dev("C04", "flow-removed/counters", "%s: %d/%d, model %d/%d"
                 % (f.brief(), d["packet_count"], d["byte_count"],
                    f.packets, f.bytes))
      dur = d["duration_sec"] + d["duration_nsec"] * 1e-9
      t_rm = f.created + dur
      if not (lo - 1e-3 <= t_rm <= hi + 1e-3):
        self.dev("C04", "flow-removed/duration", "%s: duration %.6f puts the "
                 "removal at %.6f, outside [%.6f, %.6f]"
                 % (f.brief(), dur, t_rm - S.T0, lo - S.T0, hi - S.T0))
      if d["reason"] == W.RR_HARD_TIMEOUT and dur < f.hard - 1e-3:
        self.dev("C04", "early-hard", "%s hard-timed-out after %.3fs < %d"
                 % (f.brief(), dur, f.hard))
      if d["reason"] == W.RR_IDLE_TIMEOUT and t_rm - f.touched < f.idle - 1e-3:
        self.dev("C04", "early-idle", "%s idle-timed-out %.3fs after its "
                 "last packet < %d" % (f.brief(), t_rm - f.touched, f.idle))
    for f, reasons, lo, hi in pend:
      self.dev("C04", "flow-removed/missing", "%s was removed (reason %s) "
               "with SEND_FLOW_REM set but no flow_removed was sent"
               % (f.brief(), reasons))

  # -- operations --------------------------------------------------------
  def op_reconnect(self, st):
    """the control connection is lost (closed or reset by the controller's
    side) and the switch's worker connects again through its real back-off
    timer; table, counters and held packets are the switch's and stay.
    What is removed while nobody is connected is reported to nobody."""
    sim = self.sim
    w = self.world
    self.sync()
    n = len(w.accepts)
    if st.get("how") == "reset":
      w.ctl.inject_reset()
      if w.ctl.peer is not None:
        w.ctl.peer.inject_reset()
    else:
      w.ctl.close()
    sim.drain()
    for _ in range(160):
      sim.advance(0.25)
      if len(w.accepts) > n:
        break
    else:
      raise S.SimAbort("harness", "switch did not reconnect within 40 s")
    got = w.hello()
    if not got or got[0]["type"] != W.HELLO:
      raise S.SimAbort("harness", "no hello from the switch after it "
                       "reconnected")
    self.async_in = []
    self.sort_msgs()
    now = sim.now
    impl = self.probe_table()
    for vc, det in self.model.reconcile(set(impl), now, self.last_sync):
      self.dev("C04", vc, det)
    # removals in the gap: a notification may have reached the new
    # connection (if the sweep came after it was up) or nobody
    pend = self.model.pending_removed
    self.model.pending_removed = []
    for d in self.take_async(W.FLOW_REMOVED):
      key = (M.ckey(M.canon_of(d["match"])), d["priority"])
      hit = [i for i, (f, _, _, _) in enumerate(pend) if f.key == key]
      if not hit:
        self.dev("C04", "flow-removed/unexpected", "after the reconnect: "
                 "flow_removed (reason %d) for prio=%d which no removal "
                 "accounts for" % (d["reason"], d["priority"]))
      else:
        pend.pop(hit[0])
    self.last_sync = now
    sim.probes["control_reconnected"] += 1

  def op_flow_mod(self, st):
    sim = self.sim
    self.sync()
    m = jmatch(st["m"])
    acts = jacts(st["acts"])
    xid = self.nx()
    buf = st.get("buffer")
    buffer_id = W.NO_BUFFER
    if buf is not None:
      buffer_id = self.resolve_buffer(buf)
    wire_m = m
    if "wildcards" not in m and sim.ch.chance("match_wire_form", 0.3):
      # the other legal wire form: ignored fields not wildcarded, set to 0
      wire_m = dict(m, wildcards=W.ignored_fields_cleared(m))
      sim.probes["match_ignored_fields_cleared"] += 1
    fbad = st.get("fbad")
    if fbad is not None and st["cmd"] not in (W.FC_ADD, W.FC_MODIFY,
                                              W.FC_MODIFY_STRICT):
      fbad = None                 # (a delete's action list is not looked at)
    wire_acts = acts
    if fbad is not None:
      bad = ("raw", struct.pack("!HHL", fbad, 8, 0x2320))
      wire_acts = acts + [bad] if st.get("fbadpos") else [bad] + acts
    raw = W.enc_flow_mod(xid, wire_m, st["cmd"], wire_acts,
                         cookie=st.get("cookie", 0),
                         idle=st.get("idle", 0), hard=st.get("hard", 0),
                         priority=st["prio"], buffer_id=buffer_id,
                         out_port=st.get("out_port", W.OFPP_NONE),
                         flags=st.get("flags", 0))
    self.world.take_out()
    store = self.world.switch._packet_buffer
    self._slot_before = (store[buffer_id - 1]
                         if 0 < buffer_id <= len(store) else None)
    rs = self.roundtrip(raw)
    now = sim.now
    if fbad is not None:
      # an action list the switch cannot carry out: refused as a whole,
      # whatever the command and whatever else is wrong with the request;
      # the table (compared at the next sync) and a named buffer stay
      sim.probes["fm_unknown_action_cmd_%d" % st["cmd"]] += 1
      errs = [d for d in rs if d["type"] == W.ERROR and d["xid"] == xid]
      buf_err = [d for d in errs if d["etype"] == W.ET_BAD_REQUEST
                 and d["code"] in (W.BRC_BUFFER_EMPTY, W.BRC_BUFFER_UNKNOWN)]
      errs = [d for d in errs if d not in buf_err]
      if len(errs) != 1 or errs[0]["etype"] != W.ET_BAD_ACTION \
          or errs[0]["code"] != W.BAC_BAD_TYPE \
          or len(rs) != len(errs) + len(buf_err):
        raise Deviation(("C04", "C13"), "flow-mod/unknown-action-not-refused",
                        "flow_mod cmd=%d with an action of type %#x the "
                        "switch does not implement was answered with %r "
                        "instead of one BAD_ACTION/BAD_TYPE error"
                        % (st["cmd"], fbad,
                           [(d["name"], d.get("etype"), d.get("code"))
                            for d in rs]))
      if buf is not None:
        self.refused_flow_mod_buffer(buffer_id, buf_err)
      self.no_more_packet_ins("flow_mod")
      self.sync()
      return
    res = self.model.flow_mod(
        {"match": m, "command": st["cmd"], "priority": st["prio"],
         "actions": acts, "cookie": st.get("cookie", 0),
         "idle": st.get("idle", 0), "hard": st.get("hard", 0),
         "flags": st.get("flags", 0),
         "out_port": st.get("out_port", W.OFPP_NONE)}, now)
    errs = [d for d in rs if d["type"] == W.ERROR and d["xid"] == xid]
    other = [d for d in rs if not (d["type"] == W.ERROR and d["xid"] == xid)]
    if other:
      self.dev("C13", "flow-mod/unsolicited", "flow_mod answered with %r"
               % ([d["name"] for d in other],))
    buf_err = [d for d in errs if d["etype"] == W.ET_BAD_REQUEST
               and d["code"] in (W.BRC_BUFFER_EMPTY, W.BRC_BUFFER_UNKNOWN)]
    errs = [d for d in errs if d not in buf_err]
    kf = None
    if res[0] == "error" and res[1][1] == (W.FMFC_OVERLAP,):
      kf = "C04-check-overlap-partial"
    if res[0] == "ok":
      if errs:
        self.dev("C04", "flow-mod/spurious-error", "valid flow_mod cmd=%d "
                 "rejected with error %d/%d"
                 % (st["cmd"], errs[0]["etype"], errs[0]["code"]))
        raise Deviation("C04", "flow-mod/spurious-error", "model out of sync")
    else:
      et, codes = res[1]
      if len(errs) != 1 or errs[0]["etype"] != et or \
          (codes is not None and errs[0]["code"] not in codes):
        if kf and kf in self.known and not errs:
          # listed finding: the overlapping entry was installed anyway;
          # follow the implementation
          self.hit_known.append(kf)
          self.sim.probes["known_" + kf] += 1
          self._force_add(m, st, acts, now)
        else:
          self.dev("C04", "flow-mod/missing-error", "flow_mod cmd=%d should "
                   "be rejected with %d/%s; got %r"
                   % (st["cmd"], et, codes,
                      [(d["etype"], d["code"]) for d in errs]))
          raise Deviation("C04", "flow-mod/missing-error", "out of sync")
    # buffered packet attached to the flow_mod (C18 scope)
    if buf is not None and res[0] != "ok":
      self.refused_flow_mod_buffer(buffer_id, buf_err)
    elif buf is not None:
      self.after_buffer_use(buffer_id, acts, buf_err, "flow_mod",
                            lenient=st["cmd"] in (W.FC_DELETE,
                                                  W.FC_DELETE_STRICT))
    elif buf_err:
      self.dev("C18", "buffer/spurious-error", "flow_mod without buffer got "
               "a buffer error")
    self.sim.probes["fm_cmd_%d_%s" % (st["cmd"], res[0])] += 1
    self.no_more_packet_ins("flow_mod")
    self.sync()

  def _force_add(self, m, st, acts, now):
    mdl = self.model
    c = M.canon_of(m)
    new = M.Flow(c, st["prio"], acts, st.get("cookie", 0), st.get("idle", 0),
                 st.get("hard", 0), st.get("flags", 0), now, mdl.uid)
    old = mdl.find(new.key)
    if old is not None:
      mdl.flows.remove(old)
    mdl.uid += 1
    mdl.flows.append(new)

  def resolve_buffer(self, buf):
    """plan buffer reference -> wire id"""
    if isinstance(buf, int):
      return buf
    ids = sorted(self.model.buffers)
    if buf == "last" and ids:
      return self.last_buffer if self.last_buffer in self.model.buffers \
          else ids[-1]
    if buf == "first" and ids:
      return ids[0]
    if buf == "used" and self.used_buffers:
      return self.used_buffers[-1]
    return 0x7ffffff0   # certainly unknown

  last_buffer = None

  def after_buffer_use(self, buffer_id, acts, buf_err, what, lenient=False):
    """a message referenced buffer_id with action list acts (C18)"""
    mdl = self.model
    outs = self.world.take_out()
    if buffer_id in mdl.buffers:
      frame, in_port = mdl.buffers.pop(buffer_id)
      self.used_buffers.append(buffer_id)
      if buf_err:
        self.dev("C18", "buffer/valid-rejected", "%s using outstanding "
                 "buffer %d got error code %d" % (what, buffer_id,
                                                  buf_err[0]["code"]))
        return
      if lenient:
        # deleting flow_mod (OpenFlow 1.0: buffer_id is "not meaningful for
        # OFPFC_DELETE*"): whether that is a use of the buffer is not
        # specified.  Either it was one -- the packet is gone, and went
        # through the given actions like any other -- or it was not, and
        # then the packet is still held and nothing of it went out.
        store = self.world.switch._packet_buffer
        cur = store[buffer_id - 1] if 0 < buffer_id <= len(store) else None
        # (the very packet that was there before the request: a slot that
        # was freed and taken again by what the actions sent to the
        # controller holds another one)
        if cur is not None and cur is self._slot_before:
          self.sim.probes["deleting_flow_mod_left_buffer"] += 1
          if outs:
            self.dev("C18", "buffer/emitted-and-kept", "%s (a delete) naming "
                     "held buffer %d emitted %d frame(s) and the packet is "
                     "still held" % (what, buffer_id, len(outs)))
          mdl.buffers[buffer_id] = (frame, in_port)
          self.used_buffers.remove(buffer_id)
          return
        self.sim.probes["deleting_flow_mod_used_buffer"] += 1
      exp_outs, events = mdl.run_actions(acts, frame, in_port)
      # whether the slot is freed before or after the actions run is not
      # specified: while they run it may or may not count as occupied
      self.inflight = 1
      try:
        # what a buffered packet emits is C18's business (that packet,
        # through the given actions) and C12's (the actions and port rules)
        self.finish(outs, exp_outs, events, in_port, ("C18", "C12"),
                    "buffer/emit", "%s with buffer %d" % (what, buffer_id))
      finally:
        self.inflight = 0
      self.sim.probes["buffer_used"] += 1
    else:
      self.sim.probes["buffer_bogus"] += 1
      if outs:
        self.dev("C18", "buffer/bogus-emits", "%s naming unknown/used buffer "
                 "%d emitted %d frame(s)" % (what, buffer_id, len(outs)))
      if len(buf_err) != 1:
        self.dev("C13", "buffer/no-error", "%s naming unknown/used buffer %d "
                 "got %d buffer errors" % (what, buffer_id, len(buf_err)))

  def refused_flow_mod_buffer(self, buffer_id, buf_err):
    """a flow_mod that named buffer_id was refused with an error: the
    controller has been told that nothing happened, so a packet held under
    that id is still held (and still good for exactly one release)"""
    mdl = self.model
    outs = self.world.take_out()
    self.sim.probes["refused_flow_mod_names_buffer"] += 1
    if buffer_id in mdl.buffers:
      self.sim.probes["refused_flow_mod_names_held_buffer"] += 1
      if outs or buf_err:
        self.dev("C18", "buffer/refused-flow-mod-used-buffer", "the flow_mod "
                 "naming held buffer %d was refused, yet %d frame(s) were "
                 "emitted / %d buffer error(s) sent"
                 % (buffer_id, len(outs), len(buf_err)))
      store = self.world.switch._packet_buffer
      if not (0 < buffer_id <= len(store)
              and store[buffer_id - 1] is not None):
        self.dev("C18", "buffer/refused-flow-mod-freed-buffer", "the "
                 "flow_mod naming held buffer %d was refused, and the packet "
                 "is gone" % buffer_id)
    elif outs:
      self.dev("C18", "buffer/bogus-emits", "refused flow_mod naming "
               "unknown/used buffer %d emitted %d frame(s)"
               % (buffer_id, len(outs)))

  used_buffers = None
  inflight = 0
  _slot_before = None

  def drop_pending_events(self):
    self.take_async(W.PACKET_IN)

  def compare_outs(self, got, exp, tag, vclass, ctx):
    g = sorted(got)
    e = sorted(exp)
    if g == e:
      return
    gp = sorted(p for p, _ in g)
    ep = sorted(p for p, _ in e)
    if gp != ep:
      self.dev(tag, vclass + "/ports", "%s: emitted on ports %r, model %r"
               % (ctx, gp, ep))
    else:
      for (p, a), (_, b) in zip(g, e):
        if a != b:
          i = next((k for k in range(min(len(a), len(b))) if a[k] != b[k]),
                   min(len(a), len(b)))
          self.dev(tag, vclass + "/bytes", "%s: frame on port %d differs "
                   "from the model at offset %d (len %d vs %d): got %s "
                   "want %s" % (ctx, p, i, len(a), len(b),
                                a[max(0, i - 4):i + 8].hex(),
                                b[max(0, i - 4):i + 8].hex()))
    raise Deviation(tag, vclass, "outputs differ")

  def finish(self, outs, exp_outs, events, in_port, tag, vclass, ctx):
    """compare emitted frames and consume the packet_ins of one action
    list (incl. a TABLE re-injection, whose outputs are interleaved)"""
    tables = [e for e in events if e[0] == "table"]
    if len(tables) > 1:
      raise F.Unspecified("more than one output:TABLE in one action list")
    self.model.count_tx(exp_outs)
    if not tables:
      self.compare_outs(outs, exp_outs, tag, vclass, ctx)
    for ev in events:
      if ev[0] == "controller":
        self.expect_packet_in(in_port, ev[1], W.R_ACTION, ev[2])
      elif ev[0] == "table":
        pm = self.model.ports.get(in_port)
        if pm is None and in_port == W.OFPP_NONE:
          # a packet of the controller's own making: looked up as coming
          # from no port (entries that wildcard in_port apply)
          pm = {"config": 0}
          self.sim.probes["table_reinject_from_no_port"] += 1
        if pm is None or pm["config"] & (W.PC_NO_RECV | W.PC_PORT_DOWN):
          # re-injection "from" a missing or receive-disabled port: the
          # specification does not say what happens
          raise F.Unspecified("output:TABLE from an odd in_port")
        if (self.model.flags & 3) != 0:
          raise F.Unspecified("output:TABLE with fragment handling on")
        self.table_reinjected = True
        self.sim.probes["table_reinject"] += 1
        self.process_lookup(in_port, ev[1], injected=False, outs=outs,
                            pre=exp_outs)

  def no_more_packet_ins(self, ctx):
    left = self.take_async(W.PACKET_IN)
    if left:
      self.dev("C18", "packet-in/unexpected", "%s: %d packet_in(s) nothing "
               "accounts for (first: in_port=%d reason=%d len=%d)"
               % (ctx, len(left), left[0]["in_port"], left[0]["reason"],
                  len(left[0]["data"])))

  def expect_packet_in(self, in_port, frame, reason, limit, store=None):
    mdl = self.model
    d = None
    for i, x in enumerate(self.async_in):
      if x["type"] == W.PACKET_IN:
        d = self.async_in.pop(i)
        break
    if d is None:
      tag = "C18" if reason == W.R_ACTION else "C03"
      self.dev(tag, "packet-in/missing", "expected a packet_in (reason %d) "
               "for a %d-byte frame on port %d, got none"
               % (reason, len(frame), in_port))
      raise Deviation(tag, "packet-in/missing", "out of sync")
    if d["in_port"] != in_port or d["reason"] != reason:
      self.dev("C18", "packet-in/fields", "packet_in in_port=%d reason=%d, "
               "expected %d/%d" % (d["in_port"], d["reason"], in_port,
                                   reason))
    bid = d["buffer_id"]
    free = mdl.max_buffers - len(mdl.buffers)
    free_min = free - self.inflight
    if bid == W.NO_BUFFER:
      if d["data"] != frame:
        # (what goes to the controller without a buffer behind it is the
        # only copy there is: also an emission -- C12's business -- when an
        # output:CONTROLLER action sent it)
        self.dev(("C18", "C12") if reason == W.R_ACTION else "C18",
                 "packet-in/unbuffered-truncated", "unbuffered "
                 "packet_in carries %d of %d bytes" % (len(d["data"]),
                                                       len(frame)))
      if free_min > 0 and len(frame) > limit:
        self.dev("C18", "packet-in/not-buffered", "a buffer was free (%d of "
                 "%d used) but the %d-byte frame was sent whole (limit %d)"
                 % (len(mdl.buffers), mdl.max_buffers, len(frame), limit))
      self.sim.probes["pi_unbuffered"] += 1
    else:
      if bid in mdl.buffers:
        self.dev("C18", "buffer/id-reused", "buffer id %d handed out while "
                 "still outstanding" % bid)
      if free <= 0:
        self.dev("C18", "buffer/over-bound", "buffer id %d handed out with "
                 "%d of %d buffers outstanding" % (bid, len(mdl.buffers),
                                                   mdl.max_buffers))
      if len(d["data"]) > limit or frame[:len(d["data"])] != d["data"]:
        self.dev("C18", "packet-in/data", "buffered packet_in carries %d "
                 "bytes (limit %d) or not a prefix of the frame"
                 % (len(d["data"]), limit))
      mdl.buffers[bid] = (frame if store is None else store, in_port)
      self.last_buffer = bid
      self.sim.probes["pi_buffered"] += 1
      if len(d["data"]) < len(frame):
        self.sim.probes["pi_truncated"] += 1
    if d["total_len"] != len(frame):
      self.dev("C18", "packet-in/total-len", "total_len %d for a %d-byte "
               "frame (data %d bytes, buffer %s)"
               % (d["total_len"], len(frame), len(d["data"]),
                  "none" if bid == W.NO_BUFFER else bid),
               kf="C18-total-len-truncated")

  def process_lookup(self, port, raw, injected=True, outs=None, pre=(),
                     wire=None):
    """model side of a frame entering the table on `port` (the
    implementation has already processed it); `wire` is the frame as it was
    received when that differs from what is forwarded (padding)"""
    mdl = self.model
    sim = self.sim
    now = sim.now
    key = F.lookup_key(raw, port)
    if None in key.values():
      sim.probes["frame_lacks_a_field"] += 1
    cands = mdl.candidates(key)
    mdl.lookups += 1
    impl = self.probe_table()
    fired = []
    for f in mdl.flows:
      e = impl.get(f.key)
      if e is None:
        self.dev("C04", "vanished", "%s missing right after a frame"
                 % f.brief())
        continue
      dp = e["packet_count"] - f.packets
      if dp:
        fired.append((f, dp, e["byte_count"] - f.bytes))
    if len(fired) > 1 or (fired and fired[0][1] != 1):
      self.dev("C03", "lookup/multi-hit", "one frame advanced the counters "
               "of %r" % ([(f.brief(), dp) for f, dp, _ in fired],))
      raise Deviation("C03", "lookup/multi-hit", "out of sync")
    if outs is None:
      outs = self.world.take_out()
    pre = list(pre)
    if not fired:
      if cands:
        # (which entry fired is read off the entries' counters: an entry
        # that handled the frame without counting it looks the same from
        # here, and that is C04's business)
        self.dev(("C03", "C04"), "lookup/missed", "frame %s on port %d "
                 "matches %s but no entry fired (no entry's counters "
                 "advanced)" % (_kbrief(key), port,
                                [f.brief() for f in cands]),
                 kf=self.lookup_kf(raw))
        raise Deviation(("C03", "C04"), "lookup/missed", "out of sync")
      sim.probes["lookup_miss"] += 1
      if sorted(outs) != sorted(pre):
        self.dev("C12", "miss-emits", "table miss emitted %d frame(s) "
                 "beyond the %d expected" % (len(outs), len(pre)))
      if (mdl.ports.get(port) or {"config": 0})["config"] \
          & W.PC_NO_PACKET_IN:
        # (packet_ins caused by output:CONTROLLER actions of the same list
        # are somebody else's: only a table-miss one is wrong here)
        miss = [d for d in self.async_in if d["type"] == W.PACKET_IN
                and d["reason"] == W.R_NO_MATCH]
        if miss:
          self.async_in = [d for d in self.async_in if d not in miss]
          self.dev("C12", "no-packet-in-ignored", "packet_in sent for a "
                   "port with NO_PACKET_IN")
        return
      self.expect_packet_in(port, raw if wire is None else wire,
                            W.R_NO_MATCH, mdl.miss_send_len, store=raw)
      return
    f, _, db = fired[0]
    if f not in cands:
      self.dev("C03", "lookup/wrong-entry", "frame %s on port %d fired %s; "
               "acceptable: %s" % (_kbrief(key), port, f.brief(),
                                   [c.brief() for c in cands] or "miss"),
               kf=self.lookup_kf(raw))
      raise Deviation("C03", "lookup/wrong-entry", "out of sync")
    sim.probes["lookup_hit"] += 1
    if len(cands) > 1:
      sim.probes["lookup_tie"] += 1
    if M.is_exact(f.canon):
      sim.probes["lookup_exact"] += 1
    mdl.matched += 1
    f.packets += 1
    f.bytes += len(raw)
    f.touched = now
    if db != len(raw):
      self.dev("C04", "entry/byte-count", "%s byte_count advanced by %d for "
               "a %d-byte frame" % (f.brief(), db, len(raw)))
    exp_outs, events = mdl.run_actions(f.actions, raw, port)
    if any(e[0] == "table" for e in events):
      raise F.Unspecified("output:TABLE inside a flow entry")
    mdl.count_tx(exp_outs)
    self.compare_outs(outs, pre + exp_outs, "C12", "actions",
                      "frame %s on port %d through %s"
                      % (_kbrief(key), port, f.actions))
    for o in exp_outs:
      for p in F.verify_sums(o[1]):
        self.dev("C12", "actions/checksum", "emitted frame has bad %s" % p)
    for ev in events:
      self.expect_packet_in(port, ev[1], W.R_ACTION, ev[2])

  def lookup_kf(self, raw):
    h = F.l2(raw)
    et = (raw[12] << 8) | raw[13]
    if h["tagoff"] is None and et < 1536 and h["ethertype"] != 0x05ff:
      return "C03-snap-ethertype-ignored"
    return None

  def op_frame(self, st):
    mdl = self.model
    port = st["port"]
    raw = build_frame(st["f"])
    pm = mdl.ports.get(port)
    if pm is None or pm["config"] & W.PC_PORT_DOWN:
      return
    self.sync()
    self.world.take_out()
    body = F.strip_padding(raw)
    padded = body != raw
    if st["f"].get("kind") == "ip6":
      self.sim.probes["frame_kind_ip6"] += 1
    if padded:
      # (a datapath always has the bytes it received; what it forwards or
      # buffers is the re-serialised parse, i.e. the frame less its padding)
      self.sim.probes["frame_with_padding"] += 1
    self.world.inject(port, raw,
                      with_data=True if padded else st.get("with_data", True))
    self.sim.drain()
    self.sort_msgs()
    stp = is_stp_dst(raw)
    drop = ((pm["config"] & W.PC_NO_RECV) and not stp) or \
           ((pm["config"] & W.PC_NO_RECV_STP) and stp)
    if not drop and (mdl.flags & 3) == 1:
      k = F.l2(raw)
      et, off = k["ethertype"], k["l3off"]
      while et == 0x8100 and len(raw) >= off + 4:
        # (further 802.1Q tags: the datagram inside is a fragment all the
        # same, whatever the 12-tuple calls the frame)
        et = (raw[off + 2] << 8) | raw[off + 3]
        off += 4
      if et == F.ETH_IP and len(raw) >= off + 20:
        fo = (raw[off + 6] << 8) | raw[off + 7]
        if fo & 0x3fff:
          drop = True     # OFPC_FRAG_DROP
          self.sim.probes["frag_dropped"] += 1
    if drop:
      self.sim.probes["rx_dropped"] += 1
      outs = self.world.take_out()
      pis = self.take_async(W.PACKET_IN)
      if outs or pis:
        self.dev("C12", "no-recv-ignored", "frame on receive-disabled port "
                 "%d produced %d output(s) / %d packet_in(s)"
                 % (port, len(outs), len(pis)))
      self.sync()
      return
    mdl.rx[port][0] += 1
    mdl.rx[port][1] += len(raw)
    ps = self.world.switch.port_stats.get(port)
    if self.scope == "C12" and ps is not None \
        and not self.table_reinjected and \
        (ps.rx_packets, ps.rx_bytes) != tuple(mdl.rx[port]):
      # (before looking at what the table did with it: a frame the port
      # accepted is a frame received)
      self.dev("C12", "counters/frame-not-counted", "port %d accepted a "
               "%d-byte frame; its rx counters are now (%d, %d), frames "
               "actually received (%d, %d)"
               % (port, len(raw), ps.rx_packets, ps.rx_bytes,
                  mdl.rx[port][0], mdl.rx[port][1]))
    self.process_lookup(port, body, wire=raw)
    self.no_more_packet_ins("frame")
    self.sync()

  def op_packet_out(self, st):
    mdl = self.model
    self.sync()
    acts = jacts(st["acts"])
    xid = self.nx()
    in_port = st.get("in_port", W.OFPP_NONE)
    self.world.take_out()
    if st.get("f") is not None:
      frame = build_frame(st["f"])
      rs = self.roundtrip(W.enc_packet_out(xid, W.NO_BUFFER, in_port, acts,
                                           frame))
      errs = [d for d in rs if d["type"] == W.ERROR]
      if errs or [d for d in rs if d["type"] != W.ERROR]:
        self.dev("C13", "packet-out/reply", "packet_out answered with %r"
                 % ([d["name"] for d in rs],))
      outs = self.world.take_out()
      # (the switch works on the re-serialised parse of the data: padding
      # after an IP datagram does not survive)
      exp_outs, events = mdl.run_actions(acts, F.strip_padding(frame),
                                         in_port)
      self.finish(outs, exp_outs, events, in_port, "C12", "packet-out",
                  "packet_out in_port=%#x actions %s" % (in_port, acts))
      self.sim.probes["packet_out_data"] += 1
    elif st.get("badact") is not None:
      self.refused_buffer_use(st, xid, in_port, acts)
    else:
      bid = self.resolve_buffer(st["buffer"])
      decoy = b""
      if st.get("decoy") is not None and bid != W.NO_BUFFER:
        decoy = build_frame(st["decoy"])
        self.sim.probes["packet_out_buffer_id_and_data"] += 1
      rs = self.roundtrip(W.enc_packet_out(xid, bid, in_port, acts, decoy))
      errs = [d for d in rs if d["type"] == W.ERROR and d["xid"] == xid
              and d["etype"] == W.ET_BAD_REQUEST
              and d["code"] in (W.BRC_BUFFER_EMPTY, W.BRC_BUFFER_UNKNOWN)]
      rest = [d for d in rs if d not in errs]
      if rest:
        self.dev("C13", "packet-out/reply", "packet_out answered with %r"
                 % ([d["name"] for d in rest],))
      self.after_buffer_use(bid, acts, errs, "packet_out")
    self.no_more_packet_ins("packet_out")
    self.sync()

  def refused_buffer_use(self, st, xid, in_port, acts):
    """a packet_out that names a buffer and whose action list holds an
    action of a type the switch has no handler for (after the actions in
    `acts`).  Whether anything of the list is carried out before it is
    refused is not specified (the model follows the implementation's
    transmissions); but a held packet that WAS sent out has been released:
    its id must not be good for a second emission."""
    import struct
    mdl = self.model
    bid = self.resolve_buffer(st["buffer"])
    bad = ("raw", struct.pack("!HHL", st["badact"], 8, 0x2320))
    wire = list(acts) + [bad] if st.get("badpos", 1) else [bad] + list(acts)
    raw = W.enc_packet_out(xid, bid, in_port, wire)
    rs = self.roundtrip(raw)
    errs = [d for d in rs if d["type"] == W.ERROR and d["xid"] == xid]
    if len(errs) != 1 or [d for d in rs if d not in errs]:
      self.dev("C13", "packet-out/refused-reply", "packet_out with an "
               "unknown action answered with %r" % ([d["name"] for d in rs],))
    outs = self.world.take_out()
    self.drop_pending_events()
    for port, data in outs:
      if port in mdl.tx:
        mdl.tx[port][0] += 1
        mdl.tx[port][1] += len(data)
    if bid not in mdl.buffers:
      self.sim.probes["buffer_bogus"] += 1
      if outs:
        self.dev("C18", "buffer/bogus-emits", "refused packet_out naming "
                 "unknown/used buffer %d emitted %d frame(s)"
                 % (bid, len(outs)))
      return
    store = self.world.switch._packet_buffer
    held = 0 < bid <= len(store) and store[bid - 1] is not None
    self.sim.probes["buffer_use_refused"] += 1
    if outs and held:
      self.dev("C18", "buffer/emitted-and-kept", "packet_out with buffer %d "
               "was refused after %d frame(s) of the held packet had been "
               "sent, and the packet is still held under that id"
               % (bid, len(outs)))
    if not held:
      mdl.buffers.pop(bid)
      self.used_buffers.append(bid)

  def op_port_mod(self, st):
    mdl = self.model
    pm = mdl.ports.get(st["port"])
    hw = pm["hw"] if (pm and st.get("hw_ok", True)) else b"\x02\xee\0\0\0\1"
    xid = self.nx()
    rs = self.roundtrip(W.enc_port_mod(xid, st["port"], hw, st["config"],
                                       st["mask"]))
    res = mdl.port_mod(st["port"], hw, st["config"], st["mask"])
    errs = [d for d in rs if d["type"] == W.ERROR and d["xid"] == xid]
    if res[0] == "ok" and errs:
      self.dev("C12", "port-mod/spurious-error", "valid port_mod rejected")
      raise Deviation("C12", "port-mod", "out of sync")
    if res[0] != "ok" and (len(errs) != 1 or errs[0]["etype"] != res[1][0]
                           or errs[0]["code"] not in res[1][1]):
      self.dev("C13", "port-mod/error", "invalid port_mod: errors %r"
               % ([(d["etype"], d["code"]) for d in errs],))
    self.take_async(W.PORT_STATUS)
    self.sim.probes["port_mod_" + res[0]] += 1

  def op_del_port(self, st):
    """a port is unplugged (a local event, no message): packets that came
    in on it and are held stay held, under the ids they were announced with"""
    mdl = self.model
    p = st["port"]
    if p not in mdl.ports or len(mdl.ports) <= 1:
      return
    self.sync()
    self.world.switch.delete_port(p)
    self.sim.drain()
    del mdl.ports[p]
    mdl.rx.pop(p, None)
    mdl.tx.pop(p, None)
    self.take_async(W.PORT_STATUS)
    self.sim.probes["port_deleted_locally"] += 1
    if any(ip == p for _, ip in mdl.buffers.values()):
      self.sim.probes["port_deleted_with_its_packets_held"] += 1

  def op_set_config(self, st):
    self.roundtrip(W.enc_set_config(self.nx(), st["flags"], st["msl"]))
    self.model.flags = st["flags"]
    self.model.miss_send_len = st["msl"]

  def op_advance(self, st):
    self.sim.advance(st["dt"])
    self.sort_msgs()
    self.sim.probes["advance"] += 1

  def op_port_stats(self, st):
    mdl = self.model
    xid = self.nx()
    rs = self.roundtrip(W.enc_port_stats_request(xid, W.OFPP_NONE))
    rs = [d for d in rs if d["xid"] == xid]
    if len(rs) != 1 or rs[0]["type"] != W.STATS_REPLY or "malformed" in rs[0]:
      self.dev("C13", "probe/port-stats", "port stats probe got %r"
               % ([d["name"] for d in rs],))
      return
    got = {p["port_no"]: p for p in rs[0]["ports"]}
    for no in mdl.ports:
      g = got.get(no)
      if g is None:
        self.dev("C12", "counters/missing-port", "no port stats for port %d"
                 % no)
        continue
      have = (g["rx_packets"], g["rx_bytes"], g["tx_packets"], g["tx_bytes"])
      want = (mdl.rx[no][0], mdl.rx[no][1], mdl.tx[no][0], mdl.tx[no][1])
      if have != want:
        self.dev("C12", "counters", "port %d rx_pkts/rx_bytes/tx_pkts/"
                 "tx_bytes %r, frames actually received/transmitted %r"
                 % (no, have, want),
                 kf=("C12-table-reinject-counted-as-rx"
                     if have[2:] == want[2:] and self.table_reinjected
                     else None))
    self.sim.probes["port_stats_checked"] += 1

  table_reinjected = False

  # -- driver ------------------------------------------------------------
  def run(self):
    self.used_buffers = []
    res = {"verdict": "ok"}
    sim = self.sim
    try:
      self.boot()
      for idx, st in enumerate(self.plan["steps"]):
        sim.ch.reseed(mix(self.plan["seed"], "step", idx))
        getattr(self, "op_" + st["op"])(st)
        sim.ev("step", idx, st["op"], round(sim.now - S.T0, 6),
               len(self.model.flows), len(self.model.buffers))
      self.sync()
      self.op_port_stats({})
      if sim.task_deaths:
        raise Deviation("C10", "task-died", "%r" % (sim.task_deaths[:2],))
      if self.world.ctl.rx_eof or self.world.bad_stream:
        raise Deviation("C13", "connection-dropped", "control connection "
                        "closed or garbage")
    except F.Unspecified as u:
      sim.probes["unspecified_case"] += 1
    except Deviation as d:
      tags = d.tag if isinstance(d.tag, tuple) else (d.tag,)
      if self.scope in tags:
        res.update(verdict="violation", vclass=d.vclass, detail=d.detail)
      else:
        sim.probes["oos_%s_%s" % (tags[0], d.vclass)] += 1
        self.oos = (tags[0], d.vclass, d.detail)
    except S.SimAbort as a:
      if a.vclass == "harness":
        res.update(verdict="error", detail=a.detail)
      else:
        res.update(verdict="violation", vclass=a.vclass, detail=a.detail)
    res["digest"] = sim.digest()
    res["sim_time"] = sim.now - S.T0
    res["steps"] = len(self.plan["steps"])
    res["known"] = sorted(set(self.hit_known))
    res["stats"] = dict(sim.stats)
    res["probes"] = dict(sim.probes)
    for k, v in getattr(getattr(self, "model", None), "counts", {}).items():
      res["probes"][k] = res["probes"].get(k, 0) + v
    if self.oos:
      res["oos"] = list(self.oos)
    return res


def _norm(acts):
  out = []
  for a in acts:
    a = tuple(a)
    if a[0] == "output" and a[1] != W.OFPP_CONTROLLER:
      a = ("output", a[1], 0)
    out.append(a)
  return out


def _kbrief(key):
  return "{%s}" % ", ".join(
      "%s=%s" % (k, v.hex() if isinstance(v, bytes) else
                 (hex(v) if k in ("dl_type", "nw_src", "nw_dst")
                  and v is not None else v))
      for k, v in key.items() if k != "in_port")


def run(plan, scope):
  return Ref(plan, scope, load_known(scope)).run()
