"""
CTL world: the real controller stack (core, OpenFlowNexus, arbiter,
OpenFlow_01_Task, Connection, handshake/default handlers) on a simulated
listener, with scripted switch peers speaking raw bytes (models.of10wire).

Observation points (all installed in the forked child only):
  * every handler invocation on every Connection: (connection ID, type,
    xid, re-packed length)            -> world.delivered[con_id]
  * every event raised on core.openflow and on each Connection
                                      -> world.events
  * bytes written to each peer socket -> peer.rx (decoded)
"""

from simkit import sim as S
from models import of10wire as W


class Peer(object):
  """a scripted switch: one TCP connection to the controller"""

  def __init__(self, world, name):
    self.world = world
    self.sim = world.sim
    self.name = name
    self.sock = S.SimSocket(self.sim, "peer-" + name)
    self.sock.recv_all = True
    self.rxbuf = b""
    self.rx = []          # decoded frames from the controller, in order
    self.rx_raw = b""     # every byte the controller wrote
    self.con = None       # controller-side Connection object (once seen)
    self.con_id = None
    self.bad = False
    self.sent = []        # (type, xid, len) of complete messages sent
    self.closed = False

  def connect(self):
    r = self.sock.connect_ex(("127.0.0.1", 6633))
    if r != 0:
      raise S.SimAbort("harness", "peer could not connect")
    self.srv = self.sock.peer       # controller's end

  def send(self, data):
    """through the simulated network (sim.net_segment / net_delay)"""
    if not self.closed:
      self.sock.send(data)

  def send_segments(self, segs):
    """segs: [(delay_ticks_after_previous, bytes)] -- explicit schedule"""
    t = max(self.sim.now, self.srv._last_arrival)
    for dticks, data in segs:
      t = t + S.TICK * dticks
      self.srv._last_arrival = t
      if t <= self.sim.now:
        self.sim._arrive(self.srv, data)
      else:
        self.sim.at(t, lambda d=data: self.sim._arrive(self.srv, d))

  def pump(self):
    got = self.sock.take()
    if got:
      self.rx_raw += got
      self.rxbuf += got
      frames, rest, bad = W.split_stream(self.rxbuf)
      self.rxbuf = rest
      self.bad = self.bad or bad
      for f in frames:
        d = W.decode(f)
        d["raw"] = f
        self.rx.append(d)

  def take(self):
    self.pump()
    out = self.rx
    self.rx = []
    return out

  def close(self):
    """orderly close: the controller sees EOF after in-flight data"""
    self.closed = True
    self.sock.close()

  def reset(self):
    """abortive close: the controller's next recv raises ECONNRESET and
    its next send fails"""
    self.closed = True
    self.sock.closed = True
    srv = self.srv

    def f():
      srv.rx_reset = True
      srv.tx_fatal = 104
    t = max(self.sim.now, srv._last_arrival)
    if t <= self.sim.now:
      f()
    else:
      self.sim.at(t, f)

  @property
  def eof_from_controller(self):
    return self.sock.rx_eof or self.sock.rx_reset


class CTLWorld(object):

  def __init__(self, sim, cfg=None):
    self.sim = sim
    self.cfg = cfg or {}
    self.events = []        # (source 'nexus'|con_id, event name, con_id, info)
    self.nexus_events = []  # (1|2: which nexus, event name, con_id)
    self.delivered = {}     # con_id -> [(type, xid, packed_len)]
    self.cons = {}          # con_id -> Connection
    self.peers = []
    self.handler_errors = 0

  def boot(self, real_deferred_sender=False, sched=None, eng=None):
    import pox.core
    from pox.core import core
    import pox.openflow as OF
    import pox.openflow.of_01 as O1
    import pox.openflow.libopenflow_01 as of
    sim = self.sim
    self.eng = eng
    self.sched = sched if sched is not None else S.new_scheduler(sim)
    core.running = True
    core.starting_up = False
    for name in ("openflow", "OpenFlowConnectionArbiter", "of_01"):
      core.components.pop(name, None)
    OF._launch()
    self.nexus = core.openflow
    for k, v in (getattr(sim, "nexus_options", None) or {}).items():
      # documented knobs of the nexus (instance attributes, so that a forked
      # child's setting never outlives it)
      setattr(self.nexus, k, v)
      sim.probes["nexus_option_" + k] += 1
    self.core = core
    self.O1 = O1
    self.of = of
    if not real_deferred_sender:
      class _NoDeferred(object):
        sending = False
        used = 0

        def send(_s, con, data):
          _s.used += 1
          raise AssertionError("deferred sender used in a world without "
                               "back-pressure")

        def kill(_s, con):
          pass
      O1.deferredSender = _NoDeferred()
    else:
      # the real DeferredSender, its run() loop on an engine-controlled
      # thread; its lock, waker and select are simulator objects
      import threading as _T

      class _NS(object):
        Thread = _T.Thread

        @staticmethod
        def RLock():
          return eng.RLock()

        @staticmethod
        def Lock():
          return eng.Lock()

        def __getattr__(_s, n):
          return getattr(_T, n)
      O1.threading = _NS()
      O1.DeferredSender.start = lambda ds: eng.spawn(ds.run, "deferred")
      O1.deferredSender = O1.DeferredSender()
    self._wrap_connection_class()
    self._listen_nexus()
    self.task = O1.OpenFlow_01_Task(port=6633, address="0.0.0.0")
    self.task.start()
    if eng is None:
      sim.settle()
      if 6633 not in sim.listeners:
        raise S.SimAbort("harness", "controller did not listen")

  # -- observation -------------------------------------------------------
  def _wrap_connection_class(self):
    O1 = self.O1
    world = self
    if getattr(O1.Connection, "_verif_wrapped", False):
      return
    orig_init = O1.Connection.__init__

    def rec_wrap(h, typ):
      def rec(con, msg):
        try:
          n = len(msg.pack())
        except Exception:
          n = -1
        world.delivered.setdefault(con.ID, []).append(
            (typ, getattr(msg, "xid", None), n))
        world.sim.ev("deliver", con.ID, typ, getattr(msg, "xid", None), n)
        return h(con, msg)
      rec._verif = True
      return rec

    def wrap_list(lst):
      for i, h in enumerate(lst):
        if not getattr(h, "_verif", False):
          lst[i] = rec_wrap(h, i)

    wrap_list(O1._default_handlers.handlers)

    def init(con, sock):
      orig_init(con, sock)
      wrap_list(con.handlers)
      world.cons[con.ID] = con
      world.delivered.setdefault(con.ID, [])
      for p in world.peers:
        if p.srv is sock:
          p.con = con
          p.con_id = con.ID
      world._listen_con(con)
    O1.Connection.__init__ = init
    O1.Connection._verif_wrapped = True

  EVENTS = ("ConnectionUp", "ConnectionDown", "PortStatus", "PacketIn",
            "ErrorIn", "BarrierIn", "RawStatsReply", "SwitchDescReceived",
            "FlowStatsReceived", "AggregateFlowStatsReceived",
            "TableStatsReceived", "PortStatsReceived", "QueueStatsReceived",
            "FlowRemoved", "FeaturesReceived", "ConfigurationReceived")

  def _mk(self, src, name, which=1):
    world = self

    def h(event):
      con = getattr(event, "connection", None)
      cid = con.ID if con is not None else None
      info = world.info_of(name, event)
      world.events.append((src, name, cid, info))
      if src == "nexus":
        world.nexus_events.append((which, name, cid))
      world.sim.ev("event", src, name, cid)
    return h

  nexus2 = None
  routed = frozenset()

  def add_second_nexus(self, dpids):
    """a second OpenFlowNexus, and an arbiter listener that hands it the
    datapaths in `dpids` (pox's documented way of splitting switches among
    nexuses); its events are recorded like the first one's"""
    import pox.openflow as OF
    n2 = OF.OpenFlowNexus()
    self.nexus2 = n2
    self.routed = frozenset(dpids)
    for name in self.EVENTS + ("ConnectionHandshakeComplete",):
      cls = getattr(OF, name)
      if cls in n2._eventMixin_events:
        n2.addListener(cls, self._mk("nexus", name, which=2), priority=-1000)

    def route(event):
      if event.dpid in self.routed:
        event.nexus = n2
    self.core.OpenFlowConnectionArbiter.addListenerByName("ConnectionIn",
                                                          route)
    self.sim.probes["second_nexus"] += 1

  def nexus_for(self, dpid):
    return self.nexus2 if dpid in self.routed else self.nexus

  def registry(self):
    """dpid -> connection over both nexuses (a dpid held by the wrong one,
    or by both, is reported as a string)"""
    out = {}
    for which, nx in ((1, self.nexus), (2, self.nexus2)):
      if nx is None:
        continue
      for d in nx.connections.dpids:
        if d in out or (which == 2) != (d in self.routed):
          return "dpid %#x is held by nexus %d" % (d, which)
        out[d] = nx.connections[d]
    return out

  def info_of(self, name, event):
    if name == "PortStatus":
      return (event.ofp.reason, event.ofp.desc.port_no, event.ofp.xid)
    if name in ("ConnectionUp", "ConnectionDown"):
      return (event.dpid,)
    if name.endswith("StatsReceived") or name == "SwitchDescReceived":
      ofp = event.ofp
      parts = ofp if isinstance(ofp, list) else [ofp]
      return ([p.xid for p in parts], event.stats)
    if name == "RawStatsReply":
      return (event.ofp.xid, event.ofp.type, event.ofp.flags)
    if name in ("BarrierIn", "ErrorIn", "ConfigurationReceived"):
      return (event.ofp.xid,)
    if name == "PacketIn":
      return (event.ofp.xid, event.port)
    return None

  def _listen_nexus(self):
    import pox.openflow as OF
    for name in self.EVENTS + ("ConnectionHandshakeComplete",):
      cls = getattr(OF, name)
      if cls in self.nexus._eventMixin_events:
        self.nexus.addListener(cls, self._mk("nexus", name), priority=-1000)

  def _listen_con(self, con):
    import pox.openflow as OF
    for name in self.EVENTS:
      cls = getattr(OF, name)
      if cls in con._eventMixin_events:
        con.addListener(cls, self._mk(con.ID, name), priority=-1000)

  # -- peers -------------------------------------------------------------
  def new_peer(self, name=None):
    p = Peer(self, name or ("p%d" % len(self.peers)))
    self.peers.append(p)
    p.connect()
    return p

  def events_for(self, con_id, name, src=None):
    return [e for e in self.events
            if e[1] == name and e[2] == con_id
            and (src is None or e[0] == src)]


def handshake_script(peer, dpid, ports, n_buffers=0):
  """
  Generator-free helper: drives the standard handshake to completion
  synchronously (used by checks that are not about the handshake itself).
  Returns True when the controller sent its barrier and got the reply.
  """
  sim = peer.sim
  peer.send(W.enc_hello(0))
  sim.drain()
  fr = None
  for d in peer.take():
    if d["type"] == W.FEATURES_REQUEST:
      fr = d
  if fr is None:
    return False
  peer.send(W.enc_features_reply(fr["xid"], dpid, ports, n_buffers=n_buffers))
  sim.drain()
  br = None
  for d in peer.take():
    if d["type"] == W.BARRIER_REQUEST:
      br = d
  if br is None:
    return False
  peer.send(W.enc_barrier_reply(br["xid"]))
  sim.drain()
  peer.take()
  return True
