"""
SW world: one real SoftwareSwitch (+ExpireMixin) behind the real
OFConnection / OpenFlowWorker(BackoffWorker) / RecocoIOLoop, connected over
a simulated TCP connection to a scripted controller peer that speaks raw
bytes (models.of10wire), with data-plane frames injected by the harness and
every emitted frame recorded.
"""

from simkit import sim as S
from models import of10wire as W


class SWWorld(object):

  def __init__(self, sim, cfg):
    self.sim = sim
    self.cfg = cfg
    self.rxbuf = b""            # bytes the controller peer has received
    self.rx_frames = []         # decoded, not yet collected
    self.all_rx = []            # every decoded frame, in order
    self.out_frames = []        # (port_no, bytes) emitted on the data plane
    self.ctl = None
    self.accepts = []
    self.bad_stream = False
    self.on_switch = None       # harness hook: called with the new switch
    self.talk_first = b""       # bytes the peer writes the moment it accepts

  def boot(self):
    import pox.core
    from pox.core import core
    from pox.datapaths.switch import SoftwareSwitch, ExpireMixin, DpPacketOut
    from pox.datapaths import OpenFlowWorker
    import pox.lib.ioworker as IOW
    sim = self.sim
    cfg = self.cfg
    self.sched = S.new_scheduler(sim)
    core.running = True
    core.starting_up = False

    lst = S.SimSocket(sim, "ctl-listener")
    lst.bind(("0.0.0.0", 6633))
    lst.listen(16)
    lst.on_accept = self._on_accept
    self.listener = lst

    class ExpiringSwitch(ExpireMixin, SoftwareSwitch):
      pass

    kw = dict(dpid=cfg.get("dpid", 1), ports=cfg.get("nports", 4),
              miss_send_len=cfg.get("miss_send_len", 128),
              max_buffers=cfg.get("max_buffers", 100),
              max_entries=cfg.get("max_entries", 0x7fffffff),
              expire_period=cfg.get("expire_period", 2))
    if cfg.get("actions_off"):
      # a switch built without some of the actions pox implements (the
      # documented features= argument); everything else as the default
      from pox.datapaths.switch import SwitchFeatures
      ft = SwitchFeatures()
      ft.cap_flow_stats = ft.cap_table_stats = ft.cap_port_stats = True
      for a in ("output", "enqueue", "strip_vlan", "set_vlan_vid",
                "set_vlan_pcp", "set_dl_dst", "set_dl_src", "set_nw_dst",
                "set_nw_src", "set_nw_tos", "set_tp_dst", "set_tp_src"):
        setattr(ft, "act_" + a, a not in cfg["actions_off"])
      kw["features"] = ft
      sim.probes["switch_without_some_actions"] += 1
    self.switch = ExpiringSwitch(**kw)
    if cfg.get("local_port"):
      # the switch's own network stack as a port: OFPP_LOCAL, a legal
      # ingress port above OFPP_MAX
      self.switch.add_port(self.switch.generate_port(0xfffe, name="local"))
      sim.probes["switch_has_local_port"] += 1
    if self.on_switch is not None:
      self.on_switch(self.switch)
    for no in cfg.get("ports_admin_down", ()):
      # a port that is administratively down from the start (its link state
      # says nothing of the kind)
      if no in self.switch.ports:
        self.switch.ports[no].config |= 1        # OFPPC_PORT_DOWN
        sim.probes["port_admin_down_at_boot"] += 1
    self.switch.addListener(DpPacketOut, self._on_dp_out)
    self.loop = IOW.RecocoIOLoop()
    self.loop.start()
    self.worker = OpenFlowWorker.begin(loop=self.loop, addr="127.0.0.1",
                                       port=6633, switch=self.switch,
                                       max_retry_delay=16)
    sim.settle()
    if not self.accepts:
      raise S.SimAbort("harness", "switch did not connect")
    self.ctl = self.accepts[-1]

  def _on_accept(self, lst, srv):
    srv.recv_all = True
    srv.name = "ctl-peer%d" % len(self.accepts)
    self.accepts.append(srv)
    self.ctl = srv
    self.rxbuf = b""
    if self.talk_first:
      # (the connecting side has not even noticed that it is connected)
      first, self.talk_first = self.talk_first, b""
      srv.send(first)
      self.sim.probes["peer_talks_first"] += 1

  def _on_dp_out(self, event):
    try:
      raw = event.packet.pack()
    except Exception as e:
      raw = ("pack-failed:%s" % type(e).__name__).encode()
    self.out_frames.append((event.port.port_no, raw))

  # -- control channel ---------------------------------------------------
  def send(self, data):
    """controller peer -> switch, through the simulated network"""
    self.ctl.send(data)

  def pump(self):
    """Pull whatever the switch has written so far and frame it."""
    got = self.ctl.take()
    if got:
      self.rxbuf += got
      frames, rest, bad = W.split_stream(self.rxbuf)
      self.rxbuf = rest
      if bad:
        self.bad_stream = True
      for f in frames:
        d = W.decode(f)
        d["raw"] = f
        d["t"] = self.sim.now
        self.rx_frames.append(d)
        self.all_rx.append(d)

  def collect(self):
    self.pump()
    out = self.rx_frames
    self.rx_frames = []
    return out

  def take_out(self):
    out = self.out_frames
    self.out_frames = []
    return out

  def hello(self):
    self.send(W.enc_hello(0))
    self.sim.drain()
    return self.collect()

  # -- data plane --------------------------------------------------------
  def inject(self, port, raw, with_data=True):
    from pox.lib.packet.ethernet import ethernet
    pkt = ethernet(raw=raw)
    try:
      if with_data:
        self.switch.rx_packet(pkt, port, packet_data=raw)
      else:
        self.switch.rx_packet(pkt, port)
    except Exception as e:
      # nothing a frame, the table or the port flags hold entitles the data
      # path to fail on its caller (a pcap loop, a test bed's link)
      import traceback
      tb = traceback.extract_tb(e.__traceback__)
      at = ["%s:%d %s" % (f.filename.rsplit("/", 1)[-1], f.lineno, f.name)
            for f in tb[-3:]]
      raise S.SimAbort("datapath-raised/%s" % type(e).__name__,
                       "rx_packet(port %r, %d-byte frame %s...) raised %s: %s "
                       "at %s" % (port, len(raw), raw[:32].hex(),
                                  type(e).__name__, str(e)[:120], at))


class End(object):
  """the scripted controller's end of one switch's control connection"""

  def __init__(self, sock):
    self.sock = sock
    self.rxbuf = b""
    self.rx = []
    self.rx_raw = b""
    self.bad = False

  def send(self, data):
    self.sock.send(data)

  def pump(self):
    got = self.sock.take()
    if got:
      self.rx_raw += got
      self.rxbuf += got
      frames, rest, bad = W.split_stream(self.rxbuf)
      self.rxbuf = rest
      self.bad = self.bad or bad
      for f in frames:
        d = W.decode(f)
        d["raw"] = f
        self.rx.append(d)

  def take(self):
    self.pump()
    out = self.rx
    self.rx = []
    return out

  @property
  def eof(self):
    return self.sock.rx_eof or self.sock.rx_reset


class MultiSW(object):
  """N real switches sharing one RecocoIOLoop, each with its own scripted
  controller end (C10's switch side)."""

  def __init__(self, sim, n, cfg=None):
    self.sim = sim
    self.n = n
    self.cfg = cfg or {}
    self.ends = []
    self.switches = []
    self.workers = []

  def boot(self):
    from pox.core import core
    from pox.datapaths.switch import SoftwareSwitch, ExpireMixin
    from pox.datapaths import OpenFlowWorker
    import pox.lib.ioworker as IOW
    sim = self.sim
    self.sched = S.new_scheduler(sim)
    core.running = True
    core.starting_up = False
    lst = S.SimSocket(sim, "ctl-listener")
    lst.bind(("0.0.0.0", 6633))
    lst.listen(16)
    accepted = self.accepted = []

    def on_accept(l, srv):
      srv.recv_all = True
      accepted.append(srv)
    lst.on_accept = on_accept
    self.listener = lst

    class ExpiringSwitch(ExpireMixin, SoftwareSwitch):
      pass

    self.loop = IOW.RecocoIOLoop()
    self.loop.start()
    for i in range(self.n):
      sw = ExpiringSwitch(dpid=i + 1, ports=2, max_buffers=2,
                          expire_period=self.cfg.get("expire_period", 2))
      self.switches.append(sw)
      w = OpenFlowWorker.begin(loop=self.loop, addr="127.0.0.1", port=6633,
                               switch=sw, max_retry_delay=16)
      self.workers.append(w)
      if len(accepted) != i + 1:
        raise S.SimAbort("harness", "switch %d did not connect" % i)
      self.ends.append(End(accepted[i]))
    sim.settle()
