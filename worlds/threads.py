"""
THREADS world: the real Scheduler.run loop on a controlled thread, the real
select-hub thread when `threaded_selecthub`, and controlled foreign threads,
all stepped by simkit.cthreads.Engine with pre-emption at every traced line
of recoco.py (and optionally other files).
"""

from simkit import sim as S
from simkit import cthreads as C


class ThreadsWorld(object):

  def __init__(self, sim, cfg):
    self.sim = sim
    self.cfg = cfg
    self.seq = 0

  def next_seq(self):
    self.seq += 1
    return self.seq

  def boot(self, trace_files=("pox/lib/recoco/recoco.py",)):
    import pox.core
    from pox.core import core
    import pox.lib.recoco.recoco as R
    sim = self.sim
    cfg = self.cfg
    self.eng = C.Engine(sim, trace_files=trace_files,
                        policy=cfg.get("policy", "random"),
                        switch_p=cfg.get("switch_p", 0.2),
                        pct_depth=cfg.get("pct_depth", 3),
                        step_cap=cfg.get("step_cap", 60000))
    self.ns = C.install_threads(sim, self.eng)
    R.defaultScheduler = None
    self.sched = R.Scheduler(isDefaultScheduler=True, startInThread=False,
                             threaded_selecthub=cfg.get("threaded_hub",
                                                        False))
    self.sched._selectHub._select_func = self.eng.select
    core.scheduler = self.sched
    core.running = True
    core.starting_up = False
    self.core = core
    self.R = R
    return self.eng

  def start_scheduler(self):
    if self.cfg.get("app_loop"):
      # the application runs the loop on a thread of its own
      # (Scheduler(startInThread=False) + Thread(target=scheduler.run)):
      # the scheduler does not know which thread that is
      t = self.ns.Thread(target=self.sched.run)
      t.daemon = True
      t.start()
      self.sched_facade = t
      self.sim.probes["loop_on_application_thread"] += 1
      return
    self.sched.runThreaded()
    self.sched_facade = self.sched._thread

  def on_sched_thread(self):
    return self.ns.current_thread() is self.sched_facade

  extra_scheds = ()

  def stop_scheduler(self):
    """ask the scheduler loop (and hub thread) to end"""
    self.sched.quit()
    self.sched._selectHub.break_idle()
    for s in self.extra_scheds:
      s.quit()
      s._selectHub.break_idle()
