"""
NET world: the real controller (core, nexus, of_01 task, applications) and
1-12 real software switches (SoftwareSwitch+ExpireMixin, OFConnection,
OpenFlowWorker/BackoffWorker, one RecocoIOLoop) in one process, joined by
simulated TCP control channels; hosts and directed Ethernet links belong to
the harness.  One cooperative scheduler runs everything (cooperative code
has no true parallelism anyway); relative progress is varied through
readiness, segmentation and delays.
"""

from simkit import sim as S
from models import of10wire as W


class NetSwitch(object):
  def __init__(self, net, dpid, sw, worker):
    self.net = net
    self.dpid = dpid
    self.sw = sw
    self.worker = worker
    self.packet_ins = []      # (seq, in_port, raw frame, reason, buffer_id)
    self.silent = False

  @property
  def connected(self):
    c = self.sw._connection
    return c is not None and not self.worker_closed()

  def worker_closed(self):
    c = self.sw._connection
    return c is None or c.io_worker.closed

  def buffers_in_use(self):
    return sum(1 for b in self.sw._packet_buffer if b is not None)


class NetWorld(object):

  def __init__(self, sim, cfg=None):
    self.sim = sim
    self.cfg = cfg or {}
    self.switches = {}        # dpid -> NetSwitch
    self.links = {}           # (dpid, port) -> (dpid, port), directed
    self.link_up = {}         # (dpid, port) -> bool (transmit direction)
    self.hosts = {}           # (dpid, port) -> list of received (t, raw)
    self.egress = []          # (seq, t, dpid, port, raw)
    self.arrivals = []        # (seq, t, dpid, port, raw)
    self.seq = 0
    self.link_delay_ticks = 0
    self.loss = 0.0
    self.dup = 0.0
    self.corrupt = None       # callable(raw, chooser) -> raw (C15 in situ)
    self.events = []

  def nseq(self):
    self.seq += 1
    return self.seq

  def boot(self):
    import pox.core
    from pox.core import core
    import pox.openflow as OF
    import pox.openflow.of_01 as O1
    import pox.lib.ioworker as IOW
    sim = self.sim
    self.sched = S.new_scheduler(sim)
    core.running = True
    core.starting_up = False
    for name in list(core.components):
      if name != "core":
        del core.components[name]
    OF._launch()
    self.core = core
    self.nexus = core.openflow
    self.O1 = O1

    class _NoDeferred(object):
      sending = False

      def send(_s, con, data):
        raise AssertionError("deferred sender used without back-pressure")

      def kill(_s, con):
        pass
    O1.deferredSender = _NoDeferred()
    self.task = O1.OpenFlow_01_Task(port=6633, address="0.0.0.0")
    self.task.start()
    self.loop = IOW.RecocoIOLoop()
    self.loop.start()
    sim.settle()
    if 6633 not in sim.listeners:
      raise S.SimAbort("harness", "controller did not listen")

  # -- topology ----------------------------------------------------------
  def add_switch(self, dpid, nports, **kw):
    from pox.datapaths.switch import SoftwareSwitch, ExpireMixin, DpPacketOut
    from pox.datapaths import OpenFlowWorker

    class ExpiringSwitch(ExpireMixin, SoftwareSwitch):
      pass
    ports = kw.pop("ports", nports)
    numbers = None
    if not isinstance(ports, int):
      numbers, ports = list(ports), 0       # explicit port numbers
    sw = ExpiringSwitch(dpid=dpid, ports=ports,
                        miss_send_len=kw.pop("miss_send_len", 128),
                        max_buffers=kw.pop("max_buffers", 100),
                        expire_period=kw.pop("expire_period", 2), **kw)
    for no in numbers or ():
      sw.add_port(sw.generate_port(no, name="p%d" % no))
    ns = NetSwitch(self, dpid, sw, None)
    self.switches[dpid] = ns
    sw.addListener(DpPacketOut, lambda e, ns=ns: self._on_out(ns, e))
    orig_pi = sw.send_packet_in

    def send_packet_in(in_port, buffer_id=None, packet=b'', reason=None,
                       data_length=None):
      raw = packet.pack() if hasattr(packet, "pack") else packet
      ns.packet_ins.append((self.nseq(), in_port, raw, reason, buffer_id))
      return orig_pi(in_port, buffer_id, packet, reason, data_length)
    sw.send_packet_in = send_packet_in
    ns.worker = OpenFlowWorker.begin(loop=self.loop, addr="127.0.0.1",
                                     port=6633, switch=sw, max_retry_delay=4)
    return ns

  def link(self, a, pa, b, pb, both=True):
    self.links[(a, pa)] = (b, pb)
    self.link_up[(a, pa)] = True
    if both:
      self.links[(b, pb)] = (a, pa)
      self.link_up[(b, pb)] = True

  def add_host(self, dpid, port):
    self.hosts[(dpid, port)] = []

  # -- data plane --------------------------------------------------------
  def _on_out(self, ns, event):
    try:
      raw = event.packet.pack()
    except Exception as e:
      raw = b""
      self.sim.stats["egress_pack_failed"] += 1
    port = event.port.port_no
    self.egress.append((self.nseq(), self.sim.now, ns.dpid, port, raw))
    key = (ns.dpid, port)
    if key in self.hosts:
      self.hosts[key].append((self.sim.now, raw))
      return
    far = self.links.get(key)
    if far is None or not self.link_up.get(key, False) or ns.silent:
      return
    self.transmit(far, raw)
    hook = self.on_transmit
    if hook is not None and hook(ns.dpid, port, raw):
      self.on_transmit = None

  on_transmit = None      # harness hook: (dpid, port, frame) -> done?

  pad_min = 0       # pad shorter frames with zeros up to this (60: a NIC)

  def transmit(self, far, raw):
    sim = self.sim
    if self.pad_min and len(raw) < self.pad_min:
      raw = raw + b"\0" * (self.pad_min - len(raw))
      sim.stats["frame_padded_on_wire"] += 1
    if self.loss and sim.ch.chance("link_loss", self.loss):
      sim.stats["link_loss"] += 1
      return
    n = 1
    if self.dup and sim.ch.chance("link_dup", self.dup):
      sim.stats["link_dup"] += 1
      n = 2
    for _ in range(n):
      d = 0
      if self.link_delay_ticks:
        d = sim.ch.below("link_delay", self.link_delay_ticks + 1)
      data = raw
      if self.corrupt is not None:
        data = self.corrupt(raw)
      if d == 0 and not self.link_delay_ticks:
        # still asynchronous: deliver from the event queue, not re-entrantly
        sim.at(sim.now, lambda f=far, r=data: self.deliver(f, r))
      else:
        sim.at(sim.now + S.TICK * d, lambda f=far, r=data: self.deliver(f, r))

  def deliver(self, far, raw):
    from pox.lib.packet.ethernet import ethernet
    dpid, port = far
    ns = self.switches.get(dpid)
    if ns is None or ns.silent:
      return
    self.arrivals.append((self.nseq(), self.sim.now, dpid, port, raw))
    ns.sw.rx_packet(ethernet(raw=raw), port, packet_data=raw)

  def host_send(self, dpid, port, raw):
    self.deliver((dpid, port), raw)

  # -- control plane faults ------------------------------------------------
  def reset_control(self, dpid):
    """the switch's control connection is reset (switch keeps running and
    reconnects through its real back-off timer)"""
    ns = self.switches[dpid]
    c = ns.sw._connection
    if c is None:
      return False
    sock = c.io_worker.socket
    if sock.closed:
      return False
    sock.inject_reset()
    if sock.peer is not None:
      sock.peer.inject_reset()
    self.sim.stats["control_reset"] += 1
    return True
