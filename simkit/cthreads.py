"""
Controlled threads: real Python threads of which exactly one runs at a time.

Every controlled thread owns a private semaphore.  At each *yield point* --
a traced source line in the files under study, or an intercepted blocking
primitive (Lock/RLock/Event/Queue/select/sleep) -- the running thread asks
the engine who goes next and parks itself if it is not chosen.  A blocked
thread is not runnable until its predicate holds; when nothing is runnable,
virtual time jumps to the earliest timed wait (or simulator event), which is
what makes "woke because it was signalled" distinguishable from "woke because
a polling timeout expired".

The engine's choices come from the run's Chooser, so one seed is one
interleaving; the sequence of (thread, file:line) switch points is hashed
into the event log.
"""

import sys
import threading as _T

from .sim import SimAbort, WouldBlock

_RealThread = _T.Thread
_RealSemaphore = _T.Semaphore

RUNNABLE, BLOCKED, DONE, NEW = "R", "B", "D", "N"


class EngineStop(BaseException):
  """raised inside a controlled thread to unwind it at the end of a run"""


class CThread(object):
  def __init__(self, eng, target, name):
    self.eng = eng
    self.target = target
    self.name = name
    self.idx = len(eng.threads)
    self.sem = _RealSemaphore(0)
    self.state = NEW
    self.pred = None
    self.deadline = None
    self.woke_by = None       # "pred" | "timeout"
    self.prio = 0
    self.error = None
    self.real = None
    self.facade = None        # object returned by current_thread()
    self.steps = 0
    self.may_hang = False     # free to stay blocked for ever

  def __repr__(self):
    return "<CThread %d %s %s>" % (self.idx, self.name, self.state)


class Engine(object):

  def __init__(self, sim, trace_files=(), policy="random", switch_p=0.2,
               pct_depth=3, step_cap=60000):
    self.sim = sim
    self.ch = sim.ch
    self.threads = []
    self.current = None
    self.trace_files = tuple(trace_files)
    self.policy = policy
    self.switch_p = switch_p
    self.pct_depth = pct_depth
    self.pct_points = None
    self.step_cap = step_cap
    self.steps = 0
    self.switches = 0
    self.finished = None
    self.main_sem = _RealSemaphore(0)
    self.on_step = None          # invariant callback(thread, frame)
    self._match = {}
    self.ilv_hash = 0
    self.by_ident = {}
    self.stopping = False
    self.time_jumps = 0
    self._guard = 0
    sim.engine = self

  # -- thread creation ---------------------------------------------------
  def spawn(self, target, name=None, facade=None):
    t = CThread(self, target, name or "t%d" % len(self.threads))
    t.facade = facade if facade is not None else t
    self.threads.append(t)
    if self.policy == "pct":
      t.prio = self.pct_depth + 1 + self.ch.below("pct_prio", 1000)
    t.real = _RealThread(target=self._bootstrap, args=(t,))
    t.real.daemon = True
    t.state = RUNNABLE
    t.real.start()            # parks immediately on its semaphore
    return t

  def _bootstrap(self, t):
    t.sem.acquire()
    self.by_ident[_T.get_ident()] = t
    if self.stopping:
      return
    sys.settrace(self._global_trace)
    try:
      t.target()
    except SimAbort as a:
      sys.settrace(None)
      self._finish(("abort", a.vclass, a.detail))
      self._park_forever()
    except BaseException as e:
      import traceback
      t.error = (type(e).__name__, str(e)[:300],
                 traceback.format_exc()[-1500:])
    finally:
      sys.settrace(None)
    t.state = DONE
    if self.stopping:
      self._park_forever()
    self._handoff_from_dead(t)

  # -- tracing -----------------------------------------------------------
  def _interesting(self, fn):
    r = self._match.get(fn)
    if r is None:
      r = any(fn.endswith(f) for f in self.trace_files)
      self._match[fn] = r
    return r

  def _global_trace(self, frame, event, arg):
    if self._interesting(frame.f_code.co_filename):
      return self._local_trace
    return None

  def _local_trace(self, frame, event, arg):
    if event == "line":
      self.preempt(frame)
    return self._local_trace

  # -- scheduling core -----------------------------------------------------
  def me(self):
    return self.by_ident.get(_T.get_ident())

  def current_facade(self):
    t = self.me()
    return t.facade if t is not None else _ORIG_CURRENT_THREAD()

  def _finish(self, reason):
    if self.finished is None:
      self.finished = reason
    self.stopping = True
    self.main_sem.release()

  def fail(self, vclass, detail):
    """report a violation from inside a controlled thread and end the run
    (never returns)"""
    self._finish(("abort", vclass, detail))
    self._park_forever()

  def _park_forever(self):
    # The run is over.  Controlled threads are never unwound: raising through
    # pox code could be swallowed by a bare `except:` and leave a thread
    # running concurrently with the harness's oracle.  They stay parked until
    # the forked child _exit()s.
    _RealSemaphore(0).acquire()

  def _refresh(self):
    """wake blocked threads whose predicate holds / deadline passed"""
    now = self.sim.now
    for t in self.threads:
      if t.state == BLOCKED:
        try:
          hit = t.pred is not None and t.pred()
        except Exception:
          # the predicate itself fails (e.g. select() on a socket that was
          # closed meanwhile): wake the thread so that it meets the
          # exception in its own context
          t.state = RUNNABLE
          t.woke_by = "exc"
          continue
        if hit:
          t.state = RUNNABLE
          t.woke_by = "pred"
        elif t.deadline is not None and t.deadline <= now:
          t.state = RUNNABLE
          t.woke_by = "timeout"

  def _runnable(self):
    """the runnable set; advances virtual time when it would be empty.
    Predicates and simulator events may execute traced code (e.g.
    Connection.fileno): no pre-emption while the engine does its own
    bookkeeping."""
    self._guard += 1
    try:
      return self._runnable_inner()
    finally:
      self._guard -= 1

  def _runnable_inner(self):
    sim = self.sim
    while True:
      sim.run_due()
      self._refresh()
      r = [t for t in self.threads if t.state == RUNNABLE]
      if r:
        return r
      if all(t.state == DONE or (t.may_hang and t.state == BLOCKED
                                 and t.deadline is None)
             for t in self.threads):
        # (a thread the harness has declared free to wait for ever does
        # not make the run a deadlock)
        return []
      times = [t.deadline for t in self.threads
               if t.state == BLOCKED and t.deadline is not None]
      nxt = sim.next_event_time()
      if nxt is not None:
        times.append(nxt)
      if not times:
        return None       # deadlock: blocked threads, nothing will wake them
      tmin = min(times)
      if tmin > sim.now:
        sim.now = tmin
        self.time_jumps += 1

  def _choose(self, runnable, cur):
    if len(runnable) == 1:
      return runnable[0]
    if self.policy == "pct":
      return max(runnable, key=lambda t: (t.prio, -t.idx))
    # random: stay with cur unless the coin says switch
    if cur is not None and cur.state == RUNNABLE and cur in runnable:
      if not self.ch.chance("switch", self.switch_p):
        return cur
      others = [t for t in runnable if t is not cur]
      return others[self.ch.below("switch_to", len(others))]
    return runnable[self.ch.below("pick", len(runnable))]

  def _dispatch(self, cur):
    """pick the next thread and hand over; returns when cur runs again
    (cur must be RUNNABLE or BLOCKED; a DONE cur never returns here)"""
    while True:
      if self.stopping:
        self._park_forever()
      r = self._runnable()
      if r is None:
        self._finish(("deadlock", [(t.name, t.state, t.deadline)
                                   for t in self.threads]))
        self._park_forever()
      if not r:
        self._finish(("done",))
        self._park_forever()
      nxt = self._choose(r, cur)
      if nxt is cur:
        return
      self.switches += 1
      self.current = nxt
      nxt.sem.release()
      cur.sem.acquire()
      if self.stopping:
        self._park_forever()
      if cur.state == RUNNABLE:
        return
      # woken although not runnable: cannot happen (only _dispatch releases)

  def _handoff_from_dead(self, t):
    r = self._runnable()
    if r is None:
      self._finish(("deadlock", [(x.name, x.state) for x in self.threads]))
      return
    if not r:
      self._finish(("done",))
      return
    nxt = self._choose(r, None)
    self.current = nxt
    nxt.sem.release()

  def preempt(self, frame=None):
    """a yield point reached by the running thread"""
    t = self.me()
    if t is None or self._guard:
      return
    if self.stopping:
      self._park_forever()
    self.steps += 1
    t.steps += 1
    if self.on_step is not None:
      self.on_step(t, frame)
    if self.steps > self.step_cap:
      self._finish(("cap", self.steps))
      self._park_forever()
    if self.policy == "pct":
      if self.pct_points is None:
        self.pct_points = sorted(
            1 + self.ch.below("pct_point", max(2, self.step_cap // 20))
            for _ in range(self.pct_depth))
      while self.pct_points and self.steps >= self.pct_points[0]:
        self.pct_points.pop(0)
        t.prio = len(self.pct_points)      # below every initial priority
    before = self.switches
    self._dispatch(t)
    if self.switches != before and frame is not None:
      self.ilv_hash = (self.ilv_hash * 1000003 + t.idx * 7919
                       + frame.f_lineno) & 0xffffffffffff

  def block(self, pred, timeout=None):
    """
    Block the running thread until pred() holds or `timeout` virtual
    seconds pass.  Returns True if woken by the predicate.
    """
    t = self.me()
    if t is None:
      raise RuntimeError("block() outside a controlled thread")
    if pred is not None:
      self._guard += 1
      try:
        if pred():
          return True
      finally:
        self._guard -= 1
    t.pred = pred
    t.deadline = None if timeout is None else self.sim.now + max(0.0, timeout)
    t.state = BLOCKED
    t.woke_by = None
    self._dispatch(t)
    t.pred = None
    t.deadline = None
    return t.woke_by == "pred"

  # -- running -----------------------------------------------------------
  def run(self, wall_timeout=20.0):
    """called by the harness (uncontrolled main thread): start and wait"""
    r = self._runnable()
    if not r:
      return ("done",)
    first = self._choose(r, None)
    self.current = first
    first.sem.release()
    ok = self.main_sem.acquire(timeout=wall_timeout)
    self.stopping = True
    if not ok:
      self.finished = ("wall", self.steps)
    # controlled threads stay parked (see _park_forever); the child process
    # ends with os._exit
    return self.finished

  # -- simulated primitives ------------------------------------------------
  def Lock(self):
    return SimLock(self)

  def RLock(self):
    return SimRLock(self)

  def Event(self):
    return SimEvent(self)

  def Queue(self):
    return SimQueue(self)

  def Condition(self, lock=None):
    return SimCondition(self)

  def select(self, rl, wl, xl, timeout=None):
    """thread-world select: blocks the calling controlled thread"""
    sim = self.sim
    rl, wl, xl = list(rl), list(wl), list(xl)
    sim.stats["select"] += 1
    got = sim._ready(rl, wl, xl)
    if got is not None:
      return got
    box = []

    def pred():
      g = sim._ready(rl, wl, xl)
      if g is not None:
        box.append(g)
        return True
      return False
    if self.block(pred, timeout) and box:
      return box[-1]
    g = sim._ready(rl, wl, xl)
    if g is not None:
      return g
    sim.stats["select_timeout"] += 1
    return [], [], []

  def sleep(self, dt):
    self.block(None, dt)


class SimLock(object):
  def __init__(self, eng):
    self.eng = eng
    self.owner = None
    self.acquires = 0

  def acquire(self, blocking=True, timeout=-1):
    eng = self.eng
    me = eng.me()
    if me is None:          # uncontrolled (setup) context
      if self.owner is not None:
        raise RuntimeError("SimLock contended outside the engine")
      self.owner = "setup"
      return True
    eng.preempt()
    if self.owner is None:
      self.owner = me
      self.acquires += 1
      return True
    if not blocking:
      return False
    tmo = None if timeout is None or timeout < 0 else timeout
    end = None if tmo is None else eng.sim.now + tmo
    while self.owner is not None:
      left = None if end is None else max(0.0, end - eng.sim.now)
      eng.block(lambda: self.owner is None, left)
      if self.owner is not None and end is not None and eng.sim.now >= end:
        return False
    self.owner = me
    self.acquires += 1
    return True

  def release(self):
    if self.owner is None:
      raise RuntimeError("release unlocked lock")
    self.owner = None
    if self.eng.me() is not None:
      self.eng.preempt()

  def locked(self):
    return self.owner is not None

  __enter__ = acquire

  def __exit__(self, *a):
    self.release()


class SimRLock(object):
  def __init__(self, eng):
    self.eng = eng
    self.owner = None
    self.count = 0

  def acquire(self, blocking=True, timeout=-1):
    eng = self.eng
    me = eng.me() or "setup"
    if self.owner is me:
      self.count += 1
      return True
    if me != "setup":
      eng.preempt()
    if self.owner is None:
      self.owner = me
      self.count = 1
      return True
    if not blocking:
      return False
    if me == "setup":
      raise RuntimeError("SimRLock contended outside the engine")
    while self.owner is not None:
      eng.block(lambda: self.owner is None)
    self.owner = me
    self.count = 1
    return True

  def release(self):
    me = self.eng.me() or "setup"
    if self.owner is not me:
      raise RuntimeError("cannot release un-acquired lock")
    self.count -= 1
    if self.count == 0:
      self.owner = None
      if me != "setup":
        self.eng.preempt()

  __enter__ = acquire

  def __exit__(self, *a):
    self.release()


class SimEvent(object):
  def __init__(self, eng):
    self.eng = eng
    self.flag = False
    self.timeouts = 0

  def is_set(self):
    return self.flag

  isSet = is_set

  def set(self):
    self.flag = True
    if self.eng.me() is not None:
      self.eng.preempt()

  def clear(self):
    self.flag = False

  def wait(self, timeout=None):
    eng = self.eng
    if eng.me() is None:
      return self.flag
    eng.preempt()
    if self.flag:
      return True
    eng.block(lambda: self.flag, timeout)
    if not self.flag:
      self.timeouts += 1
    return self.flag


class SimCondition(object):
  def __init__(self, eng):
    self.eng = eng
    self.lock = SimRLock(eng)
    self.gen = 0

  def acquire(self, *a, **k):
    return self.lock.acquire(*a, **k)

  def release(self):
    return self.lock.release()

  __enter__ = acquire

  def __exit__(self, *a):
    self.release()

  def notify_all(self):
    self.gen += 1

  notifyAll = notify_all
  notify = notify_all

  def wait(self, timeout=None):
    g = self.gen
    self.lock.release()
    self.eng.block(lambda: self.gen != g, timeout)
    self.lock.acquire()
    return self.gen != g


class SimQueue(object):
  """queue.Queue stand-in (unbounded)"""

  def __init__(self, eng):
    self.eng = eng
    from collections import deque
    self.queue = deque()

  def put(self, item, block=True, timeout=None):
    self.queue.append(item)

  def empty(self):
    return not self.queue

  def qsize(self):
    return len(self.queue)

  def get(self, block=True, timeout=None):
    if not self.queue:
      if not block or self.eng.me() is None:
        import queue
        raise queue.Empty()
      self.eng.block(lambda: bool(self.queue), timeout)
      if not self.queue:
        import queue
        raise queue.Empty()
    return self.queue.popleft()

  def task_done(self):
    pass


class ThreadFacade(object):
  """what pox sees as a Thread object (recoco.Thread / threading.Thread)"""

  def __init__(self, eng, group=None, target=None, name=None, args=(),
               kwargs=None):
    self._eng = eng
    self._target = target
    self._args = args
    self._kwargs = kwargs or {}
    self.name = name or "thread"
    self.daemon = False
    self._ct = None

  def start(self):
    tgt = self._target if self._target is not None else self.run
    self._ct = self._eng.spawn(
        lambda: tgt(*self._args, **self._kwargs), self.name, facade=self)

  def run(self):
    pass

  def is_alive(self):
    return self._ct is not None and self._ct.state != DONE

  isAlive = is_alive

  def join(self, timeout=None):
    ct = self._ct
    if ct is not None and self._eng.me() is not None:
      self._eng.block(lambda: ct.state == DONE, timeout)


class ThreadingNS(object):
  """stands in for the `threading` module inside pox modules"""

  def __init__(self, eng):
    self._eng = eng
    eng_ = eng

    class Thread(ThreadFacade):
      def __init__(self, *a, **k):
        ThreadFacade.__init__(self, eng_, *a, **k)
    self.Thread = Thread

  def Lock(self):
    return SimLock(self._eng)

  def RLock(self):
    return SimRLock(self._eng)

  def Event(self):
    return SimEvent(self._eng)

  def Condition(self, lock=None):
    return SimCondition(self._eng)

  def current_thread(self):
    return self._eng.current_facade()

  currentThread = current_thread

  def local(self):
    return _T.local()

  def __getattr__(self, name):
    return getattr(_T, name)


_ORIG_CURRENT_THREAD = _T.current_thread


def install_threads(sim, eng):
  """Replace the threading seams of recoco / core in a forked child.  Must
  run after simkit.sim.install(sim)."""
  import pox.lib.recoco.recoco as R
  import pox.core
  ns = ThreadingNS(eng)
  R.threading = ns
  R.Thread = ns.Thread
  R.Queue = lambda *a, **k: SimQueue(eng)
  R._verif_allow_hub_thread = True
  sim.select_threaded = eng.select
  # time.sleep from controlled threads blocks them in virtual time
  sim.sleep = eng.sleep
  # code that asks the threading module itself (a function-local `import
  # threading` in pox.core, say) sees the same thread objects as recoco does
  _T.current_thread = eng.current_facade
  _T.currentThread = eng.current_facade
  return ns
