"""./check entry: dispatch to a property module (imported once, by name)."""
import importlib
import os
import sys

HERE = os.path.dirname(os.path.dirname(os.path.abspath(__file__)))
if HERE not in sys.path:
  sys.path.insert(0, HERE)

from simkit import boot  # noqa: E402


def main():
  if len(sys.argv) < 2:
    print("usage: check <property|selftest|mutants> [options]")
    return 2
  boot.reexec_if_needed()
  what = sys.argv[1]
  rest = sys.argv[2:]
  if what == "selftest":
    from simkit import selftest
    return selftest.main(rest)
  if what == "mutants":
    from simkit import mutants
    return mutants.main(rest)
  from simkit import check
  boot.import_pox()
  mod = importlib.import_module("checks." + what.lower())
  return check.main(mod, rest)


if __name__ == "__main__":
  try:
    rc = main()
  except SystemExit:
    raise
  except BaseException:
    import traceback
    traceback.print_exc()
    rc = 2
  sys.stdout.flush()
  sys.exit(rc)
