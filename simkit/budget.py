"""
Deterministic termination budget.

A step cap cannot bound an infinite loop inside the code under test, and a
wall-clock kill is not replayable.  `LineBudget` counts traced source lines
executed in selected pox files (via sys.settrace) and, once the budget is
exceeded, raises SimAbort from the trace function on *every* further line,
so the abort cannot be swallowed by the many bare `except:` clauses in pox.
The count at which it fires is a pure function of the code and the input.
"""

import sys

from .sim import SimAbort

DEFAULT_FILES = ("pox/openflow/of_01.py", "pox/datapaths/switch.py",
                 "pox/openflow/libopenflow_01.py",
                 "pox/lib/ioworker/__init__.py", "pox/lib/recoco/recoco.py",
                 "pox/lib/revent/revent.py")


class LineBudget(object):
  """
  Install once at the start of a run (before any task generator frame is
  created: frames that exist when sys.settrace is called are never traced),
  then open counting windows:

      budget = LineBudget(); budget.install()
      ...
      with budget.window(400000, "controller read"):
        sim.drain()

  Leaving a window in which the budget tripped raises SimAbort even if the
  code under test swallowed the in-flight exception.
  """

  def __init__(self, files=DEFAULT_FILES):
    self.files = tuple(files)
    self.limit = 0
    self.what = ""
    self.count = 0
    self.total = 0
    self.active = False
    self.tripped = False
    self.where = None
    self._match = {}

  def _interesting(self, filename):
    r = self._match.get(filename)
    if r is None:
      r = any(filename.endswith(f) for f in self.files)
      self._match[filename] = r
    return r

  def _abort(self):
    return SimAbort("nonterminating/" + self.what,
                    "more than %d traced lines; looping at %s"
                    % (self.limit, self.where))

  def _local(self, frame, event, arg):
    if event == "line" and self.active:
      self.count += 1
      if self.count > self.limit:
        if not self.tripped:
          self.tripped = True
          self.where = "%s:%d" % (frame.f_code.co_filename.split("/pox/")[-1],
                                  frame.f_lineno)
        raise self._abort()
    return self._local

  def _global(self, frame, event, arg):
    if self._interesting(frame.f_code.co_filename):
      if self.active and self.tripped:
        raise self._abort()
      return self._local
    return None

  def install(self):
    sys.settrace(self._global)

  def uninstall(self):
    sys.settrace(None)

  def window(self, limit, what):
    return _Window(self, limit, what)


class _Window(object):
  def __init__(self, b, limit, what):
    self.b = b
    self.limit = limit
    self.what = what

  def __enter__(self):
    b = self.b
    b.limit = self.limit
    b.what = self.what
    b.count = 0
    b.tripped = False
    b.active = True
    return b

  def __exit__(self, et, ev, tb):
    b = self.b
    b.active = False
    b.total += b.count
    if b.tripped and not (et is not None and issubclass(et, SimAbort)):
      raise b._abort()
    return False
