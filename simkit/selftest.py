"""
Determinism self-test: for every registered check, the same seeds are run
in two fresh interpreters under different PYTHONHASHSEEDs (and therefore
different memory layouts and str hash orders); the event-log digests must
agree line by line.  `--quick` uses a dozen seeds per check (setup_cmd);
the default uses 300.
"""

import json
import os
import subprocess
import sys

from . import boot


def _digests(prop, n, hashseed, tier):
  env = dict(os.environ)
  env["VERIF_HASHSEED"] = str(hashseed)
  env.pop("VERIF_BOOTED", None)
  env.pop("PYTHONHASHSEED", None)
  out = subprocess.run(
      [os.path.join(boot.VERIF, "check"), prop, "--digests", "--runs",
       str(n), "--tier", tier], env=env, stdout=subprocess.PIPE,
      stderr=subprocess.PIPE, timeout=1200)
  if out.returncode != 0:
    raise RuntimeError("%s --digests failed: %s" % (prop,
                                                    out.stderr.decode()[-800:]))
  return out.stdout.decode().strip().splitlines()


def main(argv):
  quick = "--quick" in argv
  with open(os.path.join(boot.VERIF, "MANIFEST.json")) as f:
    man = json.load(f)
  props = [c["property_id"] for c in man["checks"]]
  only = [a for a in argv if a.startswith("C")]
  if only:
    props = only
  n = 12 if quick else 300
  bad = 0
  import concurrent.futures as cf
  jobs = []
  with cf.ThreadPoolExecutor(max_workers=8) as ex:
    for p in props:
      for hs in (0, 1):
        jobs.append((p, hs, ex.submit(_digests, p, n, hs, "quick")))
    res = {}
    for p, hs, fut in jobs:
      try:
        res[(p, hs)] = fut.result()
      except Exception as e:
        print("selftest %s hashseed=%d: %s" % (p, hs, e))
        bad += 1
  for p in props:
    a, b = res.get((p, 0)), res.get((p, 1))
    if a is None or b is None:
      continue
    diff = [x for x, y in zip(a, b) if x != y]
    if len(a) != len(b) or diff:
      bad += 1
      print("selftest %s: NONDETERMINISTIC, e.g. %s" % (p, diff[:3]))
    else:
      print("selftest %s: %d seeds identical under two hash seeds"
            % (p, len(a)))
  return 2 if bad else 0
