"""
simkit -- deterministic simulation kit for noxrepo/pox.

Everything the checks need that is nondeterministic in a real deployment
(clock, select, sockets, wake-up pipes, threads, randomness) lives here and
is driven from one seed.  See /verif/DESIGN.md section 3.
"""
