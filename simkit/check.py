"""
Generic check driver: seeds -> plans -> forked simulated runs -> verdict,
minimised replay files, known findings, evidence JSON, exit code.

A property module provides:
  PROP, LEVEL, RULE, ASSUMPTIONS, REAL, STUBBED, BUDGET={'quick':n,'thorough':n}
  gen_plan(seed, tier) -> JSON-able dict with a 'steps' list
  run_plan(plan)       -> result dict (see simkit.pool.Agg.add)
Optional:
  minimise_hint(plan)  -> list of alternative simplified plans to try
  extra_evidence(agg)  -> dict merged into coverage
"""

import argparse
import copy
import json
import os
import sys
import time

from . import boot
from .rng import mix
from . import pool

VERIF = boot.VERIF
KF_PATH = os.path.join(VERIF, "known_findings.json")


def load_known(prop):
  """Open known findings for a property: id -> entry."""
  try:
    with open(KF_PATH) as f:
      data = json.load(f)
  except Exception:
    return {}
  out = {}
  for e in data.get("findings", []):
    if e.get("property") == prop and e.get("status") == "open":
      out[e["id"]] = e
  return out


def _mk_runner(mod, base_seed, tier):
  def fn(i):
    seed = mix(base_seed, mod.PROP, i)
    plan = mod.gen_plan(seed, tier)
    # (a run must never change its plan: what is recorded has to replay)
    res = mod.run_plan(copy.deepcopy(plan))
    if res.get("verdict") in ("violation",):
      res["plan"] = plan
    elif i < 2:
      res["sample"] = _shorten(plan)
    return res
  return fn


def _shorten(plan):
  p = copy.deepcopy(plan)
  steps = p.get("steps")
  if isinstance(steps, list) and len(steps) > 25:
    p["steps"] = steps[:25] + ["... %d more steps" % (len(steps) - 25)]
  s = json.dumps(p)
  if len(s) > 6000:
    return json.loads(json.dumps(p)[:0] or "null") or {"truncated": s[:6000]}
  return p


def _run_plan_child(mod, plan, timeout=30):
  return pool.run_in_child(lambda _: mod.run_plan(copy.deepcopy(plan)), None,
                           timeout)


def minimise(mod, plan, vclass, max_exec=250, max_wall=60.0):
  """ddmin over plan['steps'], then calm the online choices."""
  t0 = time.time()
  execs = [0]

  def fails(p):
    if execs[0] >= max_exec or time.time() - t0 > max_wall:
      return False
    execs[0] += 1
    r = _run_plan_child(mod, p)
    return r.get("verdict") == "violation" and r.get("vclass") == vclass

  best = copy.deepcopy(plan)
  steps = best.get("steps")
  if isinstance(steps, list) and len(steps) > 1:
    n = 2
    while len(best["steps"]) >= 2:
      steps = best["steps"]
      chunk = max(1, len(steps) // n)
      reduced = False
      for start in range(0, len(steps), chunk):
        cand = copy.deepcopy(best)
        cand["steps"] = steps[:start] + steps[start + chunk:]
        if not cand["steps"]:
          continue
        if fails(cand):
          best = cand
          n = max(n - 1, 2)
          reduced = True
          break
      if not reduced:
        if chunk == 1:
          break
        n = min(len(steps), n * 2)
      if execs[0] >= max_exec or time.time() - t0 > max_wall:
        break
  # property-specific simplifications
  hint = getattr(mod, "minimise_hint", None)
  if hint is not None:
    changed = True
    while changed and execs[0] < max_exec and time.time() - t0 < max_wall:
      changed = False
      for cand in hint(copy.deepcopy(best)):
        if fails(cand):
          best = cand
          changed = True
          break
  if not best.get("calm"):
    cand = copy.deepcopy(best)
    cand["calm"] = True
    if fails(cand):
      best = cand
  return best, execs[0]


def write_replay(mod, plan, res, seed_info):
  d = os.path.join(VERIF, "replays")
  os.makedirs(d, exist_ok=True)
  name = "%s-%s-%s.json" % (mod.PROP, res.get("vclass", "v").replace("/", "_")
                            [:60], seed_info)
  path = os.path.join(d, name)
  with open(path, "w") as f:
    json.dump({"property": mod.PROP, "vclass": res.get("vclass"),
               "detail": res.get("detail"), "digest": res.get("digest"),
               "seed": seed_info, "repo_head": boot.repo_head(),
               "plan": plan}, f, indent=1)
  return path


def do_replay(mod, path):
  with open(path) as f:
    doc = json.load(f)
  res = _run_plan_child(mod, doc["plan"], 60)
  if res.get("verdict") == "violation":
    print("replayed: %s  %s" % (res.get("vclass"), res.get("detail")))
    print("VIOLATION property=%s replay=%s" % (mod.PROP, path))
    same = (res.get("vclass") == doc.get("vclass")
            and res.get("digest") == doc.get("digest"))
    print("same violation class and event-log digest as recorded: %s" % same)
    return 1
  if res.get("verdict") in ("hang", "error"):
    print("replay did not complete: %s %s" % (res.get("verdict"),
                                              res.get("detail")))
    return 2
  for k in res.get("known", []):
    print("KNOWN-FINDING: property=%s %s" % (mod.PROP, k))
  print("replay passed (violation not reproduced on this tree)")
  return 0


def determinism_probe(mod, base_seed, tier, n):
  """Run the first n seeds a second time (fresh fork) and compare the
  event-log digests."""
  fn = _mk_runner(mod, base_seed, tier)
  bad = []
  a = {}
  for i in range(n):
    a[i] = pool.run_in_child(fn, i, 30).get("digest")
  for i in range(n):
    d = pool.run_in_child(fn, i, 30).get("digest")
    if d != a[i]:
      bad.append(i)
  return bad


def main(mod, argv=None):
  boot.reexec_if_needed()
  ap = argparse.ArgumentParser(prog="check " + mod.PROP)
  ap.add_argument("--tier", default=os.environ.get("VERIF_TIER", "quick"),
                  choices=["quick", "thorough"])
  ap.add_argument("--replay")
  ap.add_argument("--runs", type=int)
  ap.add_argument("--start", type=int, default=0)
  ap.add_argument("--budget", type=float,
                  default=float(os.environ.get("VERIF_BUDGET_S", "0")))
  ap.add_argument("--no-evidence", action="store_true")
  ap.add_argument("--digests", action="store_true",
                  help="print index:digest lines (determinism self-test)")
  ap.add_argument("--one", type=int, help="run one index in-process, verbose")
  args = ap.parse_args(argv)

  boot.import_pox()
  if hasattr(mod, "setup"):
    mod.setup()

  if args.replay:
    return do_replay(mod, args.replay)

  try:
    base_seed = int(os.environ.get("VERIF_SEED", "0"))
  except ValueError:
    base_seed = mix(os.environ.get("VERIF_SEED"))
  tier = args.tier

  if args.one is not None:
    fn = _mk_runner(mod, base_seed, tier)
    res = pool.run_in_child(fn, args.one, 120)
    print(json.dumps(res, indent=1)[:20000])
    return 0

  if args.digests:
    fn = _mk_runner(mod, base_seed, tier)
    n = args.runs or 64
    for i in range(args.start, args.start + n):
      r = pool.run_in_child(fn, i, 30)
      print("%d:%s:%s" % (i, r.get("verdict"), r.get("digest")))
    return 0

  nruns = args.runs or mod.BUDGET[tier]
  wall = args.budget or (110.0 if tier == "quick" else 3600.0)
  t0 = time.time()
  fn = _mk_runner(mod, base_seed, tier)
  agg = pool.run_many(fn, range(args.start, args.start + nruns),
                      timeout=getattr(mod, "RUN_TIMEOUT", 30),
                      wall_budget=wall, keep_going=(tier == "thorough"))
  t_runs = time.time() - t0

  # determinism probe (cheap, every invocation)
  nondet = determinism_probe(mod, base_seed, tier,
                             8 if tier == "quick" else 32)

  rc = 0
  violations = []
  seen_classes = set()
  for r in agg.fail:
    vc = r.get("vclass")
    if vc in seen_classes:
      continue
    seen_classes.add(vc)
    if len(seen_classes) > 6:
      break
    plan = r.get("plan")
    mplan, nexec = minimise(mod, plan, vc)
    rr = _run_plan_child(mod, mplan, 60)
    if rr.get("verdict") != "violation":
      # minimised plan does not reproduce in a fresh process: fall back
      mplan = plan
      rr = _run_plan_child(mod, mplan, 60)
    if rr.get("verdict") == "violation":
      path = write_replay(mod, mplan, rr, "s%d-i%d" % (base_seed, r["index"]))
      violations.append((rr, path, nexec))
    else:
      # failed once, not on re-execution: nondeterminism = harness error
      nondet.append(r["index"])

  known = load_known(mod.PROP)
  for k in sorted(set(known) | set(agg.known)):
    what = known.get(k, {}).get("what", k)
    n = agg.known.get(k, 0)
    where = ("hit in %d runs, e.g. index %d" % (n, agg.known_example.get(k, -1))
             if n else "listed; not reached by this run's seeds")
    print("KNOWN-FINDING: property=%s %s [%s; %s]"
          % (mod.PROP, what, k, where))

  for rr, path, nexec in violations:
    print("violation class=%s detail=%s (minimised with %d executions)"
          % (rr.get("vclass"), str(rr.get("detail"))[:500], nexec))
    print("VIOLATION property=%s replay=%s" % (mod.PROP, path))
    rc = 1

  harness_err = []
  if agg.hangs:
    harness_err.append("%d run(s) hit the wall timeout, e.g. index %d"
                       % (agg.verdicts.get("hang", 0), agg.hangs[0]["index"]))
  if agg.errors:
    harness_err.append("%d run(s) raised inside the harness, e.g. index %s: %s"
                       % (agg.verdicts.get("error", 0),
                          agg.errors[0].get("index"),
                          str(agg.errors[0].get("detail"))[-1500:]))
  if nondet:
    harness_err.append("nondeterministic digests at indices %s" % nondet[:10])

  wall_s = time.time() - t0
  cov = {
    "evaluations": agg.n,
    "distinct_nontrivial": len(agg.digests),
    "rule": mod.RULE,
    "samples": agg.samples or [{"note": "no sample recorded"}],
    "runs_requested": nruns,
    "runs_per_hour": int(agg.n / max(t_runs, 1e-6) * 3600),
    "sim_seconds_covered": round(agg.sim_time, 3),
    "steps_executed": agg.steps,
    "verdicts": agg.verdicts,
    "faults_fired": {k: v for k, v in sorted(agg.stats.items())},
    "reach_probes": {k: v for k, v in sorted(agg.probes.items())},
    "known_findings_hit": agg.known,
    "components_real": mod.REAL,
    "components_stubbed": mod.STUBBED,
    "determinism_probe": {"seeds_rerun": 8 if tier == "quick" else 32,
                          "mismatches": len(nondet)},
    "exhaustive": False,
    "repo_head": boot.repo_head(),
  }
  cov.update(agg.extra and {"extra": agg.extra} or {})
  if hasattr(mod, "extra_evidence"):
    cov.update(mod.extra_evidence(agg))
  zero = [k for k in getattr(mod, "EXPECT_PROBES", []) if not agg.probes.get(k)
          and not agg.stats.get(k)]
  if zero:
    cov["coverage_gaps"] = zero
  ev = {
    "property_id": mod.PROP,
    "tier": tier,
    "seed": base_seed,
    "level": mod.LEVEL,
    "coverage": cov,
    "assumptions": mod.ASSUMPTIONS,
    "wall_s": round(wall_s, 2),
    "violations": len(violations),
  }
  if not args.no_evidence:
    d = os.path.join(VERIF, "evidence")
    os.makedirs(d, exist_ok=True)
    with open(os.path.join(d, mod.PROP + ".json"), "w") as f:
      json.dump(ev, f, indent=1, sort_keys=True)

  print("%s %s: %d runs in %.1fs (%d/h), %d distinct nontrivial, "
        "verdicts=%s" % (mod.PROP, tier, agg.n, t_runs, cov["runs_per_hour"],
                         len(agg.digests), agg.verdicts))
  if harness_err:
    for h in harness_err:
      print("HARNESS-ERROR: " + h)
    if rc == 0:
      rc = 2
  return rc
