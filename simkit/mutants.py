"""
Sensitivity self-test.

/verif/mutants/mutants.json lists realistic single-edit breakages of
noxrepo/pox (file, old text, new text, the property they break).  For each,
a scratch copy of /repo is made OUTSIDE /repo and /verif, the edit applied,
optionally the repository's own test suite run (it must still pass its 46
baseline tests), and the property's check run against the copy with
VERIF_REPO; a mutant marked expect=caught must make the check exit 1, one
marked expect=silent (negative control: behaviour the property allows) must
leave it at 0.  The copy is removed afterwards.

  ./check mutants [--only C04] [--id name] [--runs N] [--tests] [-j N]
  ./check mutants --seeded      # same for /verif/seeded/<id>/patch.diff
"""

import json
import os
import shutil
import subprocess
import sys
import tempfile
import time

from . import boot

SCRATCH_ROOT = os.environ.get("VERIF_SCRATCH", "/var/tmp")


def _copy_repo(dst):
  src = "/repo"
  shutil.copytree(src, dst, symlinks=True,
                  ignore=shutil.ignore_patterns(".git", "__pycache__",
                                                "*.pyc", ".pytest_cache"))


def _apply(root, m):
  path = os.path.join(root, m["file"])
  with open(path) as f:
    s = f.read()
  n = s.count(m["old"])
  if n != 1:
    raise RuntimeError("mutant %s: 'old' text occurs %d times in %s"
                       % (m["id"], n, m["file"]))
  with open(path, "w") as f:
    f.write(s.replace(m["old"], m["new"]))


def _run_tests(root):
  p = subprocess.run(
      ["/venv/bin/python", "-m", "pytest", "-q", "-p", "no:cacheprovider",
       "--timeout=900", "--continue-on-collection-errors"], cwd=root,
      stdout=subprocess.PIPE, stderr=subprocess.STDOUT, timeout=900)
  out = p.stdout.decode()
  import re
  mo = re.search(r"(\d+) passed", out)
  return int(mo.group(1)) if mo else 0


def _run_check(root, prop, runs, tier="quick", budget=None):
  env = dict(os.environ)
  env["VERIF_REPO"] = root
  env.pop("VERIF_BOOTED", None)
  cmd = [os.path.join(boot.VERIF, "check"), prop, "--tier", tier,
         "--no-evidence"]
  if runs:
    cmd += ["--runs", str(runs)]
  if budget:
    cmd += ["--budget", str(budget)]
  t0 = time.time()
  p = subprocess.run(cmd, env=env, stdout=subprocess.PIPE,
                     stderr=subprocess.STDOUT, timeout=3600)
  out = p.stdout.decode()
  return p.returncode, out, time.time() - t0


def _one(m, runs, tests):
  root = tempfile.mkdtemp(prefix="poxmut-", dir=SCRATCH_ROOT)
  shutil.rmtree(root)
  res = {"id": m["id"], "property": m["property"],
         "expect": m.get("expect", "caught")}
  try:
    _copy_repo(root)
    if "patch" in m:
      p = subprocess.run(["patch", "-p1", "-s", "-i", m["patch"]], cwd=root,
                         stdout=subprocess.PIPE, stderr=subprocess.STDOUT)
      if p.returncode != 0:
        raise RuntimeError("patch failed: " + p.stdout.decode()[-300:])
    else:
      _apply(root, m)
    if tests:
      res["tests_passed"] = _run_tests(root)
    rc, out, dt = _run_check(root, m["property"], runs or m.get("runs"))
    res["rc"] = rc
    res["wall_s"] = round(dt, 1)
    vio = [l for l in out.splitlines() if l.startswith("violation class=")]
    res["classes"] = [l.split(" ", 2)[1] for l in vio][:4]
    res["tail"] = out.strip().splitlines()[-1:] if out.strip() else []
    # replay files written against the scratch copy are not kept
    for l in out.splitlines():
      if l.startswith("VIOLATION ") and "replay=" in l:
        path = l.split("replay=", 1)[1].strip()
        try:
          os.unlink(path)
        except OSError:
          pass
  except Exception as e:
    res["rc"] = -1
    res["error"] = str(e)[:300]
  finally:
    shutil.rmtree(root, ignore_errors=True)
  want = 1 if res["expect"] == "caught" else 0
  res["ok"] = (res.get("rc") == want)
  return res


def main(argv):
  import argparse
  ap = argparse.ArgumentParser(prog="check mutants")
  ap.add_argument("--only")
  ap.add_argument("--id")
  ap.add_argument("--runs", type=int)
  ap.add_argument("--tests", action="store_true")
  ap.add_argument("--seeded", action="store_true")
  ap.add_argument("-j", type=int, default=2)
  args = ap.parse_args(argv)
  muts = []
  if args.seeded:
    sd = os.path.join(boot.VERIF, "seeded")
    for name in sorted(os.listdir(sd)) if os.path.isdir(sd) else []:
      meta = os.path.join(sd, name, "meta.json")
      patch = os.path.join(sd, name, "patch.diff")
      if os.path.exists(meta) and os.path.exists(patch):
        with open(meta) as f:
          md = json.load(f)
        muts.append({"id": name, "property": md["property"], "patch": patch,
                     "expect": md.get("expect", "caught"),
                     "runs": md.get("runs")})
  else:
    with open(os.path.join(boot.VERIF, "mutants", "mutants.json")) as f:
      muts = json.load(f)["mutants"]
  if args.only:
    muts = [m for m in muts if m["property"] == args.only]
  if args.id:
    muts = [m for m in muts if m["id"] == args.id]
  import concurrent.futures as cf
  results = []
  with cf.ThreadPoolExecutor(max_workers=max(1, args.j)) as ex:
    futs = [ex.submit(_one, m, args.runs, args.tests) for m in muts]
    for fu in futs:
      r = fu.result()
      results.append(r)
      print("%-44s %s expect=%-6s rc=%s %5.1fs %s %s"
            % (r["id"], r["property"], r["expect"], r.get("rc"),
               r.get("wall_s", 0), "OK  " if r["ok"] else "MISS",
               (r.get("classes") or r.get("error") or r.get("tail") or "")))
      sys.stdout.flush()
  bad = [r for r in results if not r["ok"]]
  out = os.path.join(boot.VERIF, "mutants",
                     "seeded_results.json" if args.seeded else "results.json")
  # a partial run (--id / --only) updates the stored results entry by entry
  # instead of replacing the file
  merged = results
  if args.id or args.only:
    try:
      with open(out) as f:
        prev = json.load(f).get("results", [])
    except Exception:
      prev = []
    byid = {r["id"]: r for r in prev}
    for r in results:
      byid[r["id"]] = dict(r, repo_head=boot.repo_head())
    merged = [byid[k] for k in sorted(byid)]
  try:
    with open(out, "w") as f:
      json.dump({"results": merged, "repo_head": boot.repo_head()}, f,
                indent=1)
  except OSError:
    pass
  print("%d mutants, %d as expected, %d not" % (len(results),
                                                 len(results) - len(bad),
                                                 len(bad)))
  return 1 if bad else 0
