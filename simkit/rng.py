"""
Seeding and recorded choices.

One integer decides a run.  `mix(a, b, ...)` derives independent 64-bit
sub-seeds (splitmix64 finaliser), `Rng` is the PRNG used for plan
generation, and `Chooser` is the PRNG used for *online* choices made while
a plan executes (how many bytes a recv returns, which delay a segment gets,
which thread runs).  A Chooser can be put in "calm" mode, in which every
choice takes its default (first) alternative: the minimiser uses that to
remove scheduling noise from a failing run.
"""

import random

M64 = (1 << 64) - 1


def _sm64(x):
  x = (x + 0x9E3779B97F4A7C15) & M64
  z = x
  z = ((z ^ (z >> 30)) * 0xBF58476D1CE4E5B9) & M64
  z = ((z ^ (z >> 27)) * 0x94D049BB133111EB) & M64
  return z ^ (z >> 31)


def mix(*parts):
  """Derive a 64-bit seed from integers / strings."""
  h = 0x243F6A8885A308D3
  for p in parts:
    if isinstance(p, str):
      v = 0
      for ch in p.encode():
        v = (v * 131 + ch) & M64
      p = v
    h = _sm64(h ^ (int(p) & M64))
  return h


class Rng(random.Random):
  """Plan-generation PRNG (Mersenne twister seeded from a 64-bit int)."""

  def __init__(self, seed):
    super().__init__(int(seed) & M64)

  def chance(self, p):
    return self.random() < p

  def pick(self, seq):
    return seq[self.randrange(len(seq))]

  def wpick(self, pairs):
    """pairs: [(weight, value), ...]"""
    tot = sum(w for w, _ in pairs)
    x = self.random() * tot
    for w, v in pairs:
      x -= w
      if x < 0:
        return v
    return pairs[-1][1]


class Chooser(object):
  """
  Online choices.  Every call names its site so the counts of choices per
  site can be reported; `calm` makes every choice take its default.
  """

  def __init__(self, seed, calm=False):
    self._r = random.Random(int(seed) & M64)
    self.calm = calm
    self.n = 0
    self.sites = {}

  def reseed(self, seed, calm=None):
    self._r = random.Random(int(seed) & M64)
    if calm is not None:
      self.calm = calm

  def _note(self, site):
    self.n += 1
    self.sites[site] = self.sites.get(site, 0) + 1

  def below(self, site, n, default=0):
    """integer in [0, n); default when calm"""
    self._note(site)
    if n <= 1:
      return 0
    if self.calm:
      return min(default, n - 1)
    return self._r.randrange(n)

  def chance(self, site, p, default=False):
    self._note(site)
    if self.calm:
      return default
    return self._r.random() < p

  def pick(self, site, seq, default=0):
    return seq[self.below(site, len(seq), default)]

  def uniform(self, site, lo, hi, default=None):
    self._note(site)
    if self.calm:
      return lo if default is None else default
    return lo + (hi - lo) * self._r.random()

  def shuffle(self, site, lst):
    self._note(site)
    if self.calm:
      return lst
    self._r.shuffle(lst)
    return lst
