"""
The simulator core: virtual clock, discrete-event queue, simulated select,
wake-up pingers, simulated TCP sockets, and the driver loop that steps the
real recoco scheduler.  Single OS thread; the thread worlds build on this
in cthreads.py.
"""

import errno
import os
import hashlib
import heapq
import socket as _real_socket
import sys
import threading
import time as _real_time
from collections import deque

from .rng import Chooser, mix

T0 = 1048576.0          # virtual epoch: exactly representable, far from 0
TICK = 1.0 / 1024       # all simulator-made delays are multiples of this
EPS = 1e-6              # tolerance for float rounding inside pox arithmetic


class WouldBlock(BaseException):
  """Raised out of sim.select() when the driver's horizon is reached."""


class SimAbort(BaseException):
  """Raised to abandon a run from deep inside (deterministic budget hit)."""

  def __init__(self, vclass, detail):
    BaseException.__init__(self, vclass, detail)
    self.vclass = vclass
    self.detail = detail


class ClosedFdInSelect(ValueError):
  """what select.select() raises for a socket object that was closed"""


class FakeTime(object):
  """Stands in for the `time` module inside pox modules."""

  def __init__(self, sim):
    self._sim = sim

  def time(self):
    return self._sim.now

  def monotonic(self):
    return self._sim.now

  def sleep(self, dt):
    self._sim.sleep(dt)

  def __getattr__(self, name):
    return getattr(_real_time, name)


class SimPinger(object):
  """Level-triggered stand-in for pox.lib.util's pipe pinger."""

  def __init__(self, sim):
    self._sim = sim
    self.fd = sim._new_fd(self)
    self.n = 0

  def ping(self):
    self.n += 1
    self._sim.stats["ping"] += 1
    self._sim._poke()

  def pong(self):
    if self.n == 0:
      self._sim.stats["pong_on_empty"] += 1
    else:
      self.n -= 1

  def pong_all(self):
    if self.n == 0:
      self._sim.stats["pong_on_empty"] += 1
    self.n = max(0, self.n - 1024)

  pongAll = pong_all

  def fileno(self):
    return self.fd

  def readable(self):
    return self.n > 0

  def writable(self):
    return False

  def exceptional(self):
    return False

  def __repr__(self):
    return "<SimPinger %d>" % self.fd


class SimPipeEnd(object):
  """One end of a simulated os.pipe() (see SimOS): what the real
  pox.lib.util PipePinger reads from / writes to when the run keeps the real
  pinger code (install(..., real_pinger=True))."""

  def __init__(self, sim, pipe, kind):
    self.pipe = pipe
    self.kind = kind
    self.fd = sim._new_fd(self)

  def readable(self):
    return self.kind == "r" and self.pipe[0] > 0

  def writable(self):
    return self.kind == "w"

  def exceptional(self):
    return False

  def fileno(self):
    return self.fd


class SimOS(object):
  """Stands in for the `os` module inside pox.lib.util: pipe/read/write/close
  on simulated pipes, everything else from the real module."""

  name = "posix"

  def __init__(self, sim):
    self._sim = sim

  def pipe(self):
    sim = self._sim
    box = [0]
    r = SimPipeEnd(sim, box, "r")
    w = SimPipeEnd(sim, box, "w")
    return (r.fd, w.fd)

  def write(self, fd, data):
    sim = self._sim
    end = sim.fds.get(fd)
    if not isinstance(end, SimPipeEnd) or end.kind != "w":
      raise OSError(errno.EBADF, "Bad file descriptor")
    cap = getattr(sim, "pipe_capacity", 65536)
    if end.pipe[0] + len(data) > cap:
      # a blocking write to a full pipe: the caller sleeps until somebody
      # reads -- for ever, if the caller is the thread that would
      sim.stats["ping_on_full_pipe"] += 1
      eng = getattr(sim, "engine", None)
      box = end.pipe
      if eng is not None and eng.me() is not None:
        eng.block(lambda: box[0] + len(data) <= cap, None)
      else:
        raise SimAbort("pinger-write-blocks-forever",
                       "write() to a full pinger pipe (%d bytes pending): "
                       "the writing thread would block with nobody left to "
                       "read" % box[0])
    end.pipe[0] += len(data)
    sim.stats["ping"] += 1
    sim._poke()
    return len(data)

  def read(self, fd, n):
    sim = self._sim
    end = sim.fds.get(fd)
    if not isinstance(end, SimPipeEnd) or end.kind != "r":
      raise OSError(errno.EBADF, "Bad file descriptor")
    box = end.pipe
    if box[0] == 0:
      # a blocking pipe: the caller sleeps until somebody writes
      sim.stats["pong_on_empty"] += 1
      eng = getattr(sim, "engine", None)
      if eng is not None and eng.me() is not None:
        # (the engine reports a deadlock if nobody is left to write)
        eng.block(lambda: box[0] > 0, None)
      else:
        raise SimAbort("pinger-read-blocks-forever",
                       "read() on an empty pinger pipe: the reading thread "
                       "would block with nobody left to write")
    k = min(n, box[0])
    box[0] -= k
    return b" " * k

  def close(self, fd):
    pass

  def __getattr__(self, name):
    import os as _os
    return getattr(_os, name)


class SimEpoll(object):
  """
  Stands in for select.epoll() (level-triggered) inside
  pox.lib.epoll_select: an interest list over simulated fds.  Like the
  kernel's: error and hang-up conditions are reported whether asked for or
  not, an fd leaves the list when its socket is closed, register() of a
  listed fd is EEXIST, modify()/unregister() of an unlisted one ENOENT
  (unregister of a closed one is silently accepted, as CPython does).
  """

  def __init__(self, sim):
    self._sim = sim
    self._reg = {}            # fd -> (mask, object)
    self.closed = False
    sim.stats["epoll_create"] += 1

  def _prune(self):
    for fd in [fd for fd, (_, o) in self._reg.items()
               if getattr(o, "closed", False)]:
      del self._reg[fd]
      self._sim.stats["epoll_dropped_closed_fd"] += 1

  def _obj(self, fd):
    if not isinstance(fd, int):
      fd = fd.fileno()
    o = self._sim.fds.get(fd) if fd >= 0 else None
    if o is None or getattr(o, "closed", False):
      raise OSError(errno.EBADF, "Bad file descriptor")
    return fd, o

  def register(self, fd, eventmask=None):
    self._prune()
    fd, o = self._obj(fd)
    if fd in self._reg:
      raise FileExistsError(errno.EEXIST, "File exists")
    self._reg[fd] = (_EPOLL_DEFAULT if eventmask is None else eventmask, o)
    self._sim.stats["epoll_register"] += 1

  def modify(self, fd, eventmask):
    self._prune()
    fd, o = self._obj(fd)
    if fd not in self._reg:
      raise FileNotFoundError(errno.ENOENT, "No such file or directory")
    self._reg[fd] = (eventmask, o)
    self._sim.stats["epoll_modify"] += 1

  def unregister(self, fd):
    self._prune()
    try:
      fd, o = self._obj(fd)
    except OSError:
      return                  # (EBADF is swallowed by CPython's unregister)
    if fd not in self._reg:
      raise FileNotFoundError(errno.ENOENT, "No such file or directory")
    del self._reg[fd]
    self._sim.stats["epoll_unregister"] += 1

  def _events(self):
    self._prune()
    out = []
    for fd in sorted(self._reg):
      mask, o = self._reg[fd]
      ev = 0
      if (mask & _EP.EPOLLIN) and o.readable():
        ev |= _EP.EPOLLIN
      if (mask & _EP.EPOLLPRI) and o.exceptional():
        ev |= _EP.EPOLLPRI
      if (mask & _EP.EPOLLOUT) and o.writable():
        ev |= _EP.EPOLLOUT
      if getattr(o, "rx_reset", False) or getattr(o, "tx_dead", False) \
          or getattr(o, "tx_fatal", None) is not None:
        ev |= _EP.EPOLLERR | _EP.EPOLLHUP       # (not maskable)
        self._sim.stats["epoll_err_hup"] += 1
      if ev:
        out.append((fd, ev))
    return out

  def poll(self, timeout=None, maxevents=-1):
    sim = self._sim
    sim.stats["select"] += 1
    if timeout is not None and timeout < 0:
      timeout = None
    deadline = None if timeout is None else sim.now + timeout
    while True:
      sim.run_due()
      got = self._events()
      if got:
        if sim.shuffle_ready and len(got) > 1:
          sim.ch.shuffle("ready_ep", got)
        return got
      if deadline is not None and sim.now >= deadline:
        sim.stats["select_timeout"] += 1
        return []
      nxt = sim.next_event_time()
      target = deadline
      if nxt is not None and (target is None or nxt < target):
        target = nxt
      if sim.horizon is not None and (target is None
                                      or target > sim.horizon):
        if sim.now < sim.horizon:
          sim.now = sim.horizon
        raise WouldBlock()
      if target is None:
        raise WouldBlock()
      if target > sim.now:
        sim.now = target

  def close(self):
    self.closed = True
    self._reg.clear()

  def fileno(self):
    return -1


import select as _EP
_EPOLL_DEFAULT = _EP.EPOLLIN | _EP.EPOLLPRI | _EP.EPOLLOUT


class SimEpollModule(object):
  """the `select` module as pox.lib.epoll_select sees it"""

  def __init__(self, sim):
    self._sim = sim

  def epoll(self, *a, **k):
    return SimEpoll(self._sim)

  def __getattr__(self, name):
    return getattr(_EP, name)


def install_epoll(sim):
  """put pox.lib.epoll_select's `select` module behind the simulator (call
  before a Scheduler(use_epoll=True) / EpollSelect is constructed)"""
  import pox.lib.epoll_select as ES
  ES.select = SimEpollModule(sim)
  return ES


PROC_FD_BASE = 1000


class SimSocket(object):
  """
  One end of a simulated TCP connection (or a listener).

  Reliable and ordered; what varies is segmentation, delay, how much a
  recv returns, how much a send accepts (tx_credit), and injected errors.
  """

  def __init__(self, sim, name=None):
    self.sim = sim
    self.fd = sim._new_fd(self)
    self.name = name or ("s%d" % self.fd)
    self.peer = None
    self.rxbuf = bytearray()
    self.rx_eof = False
    self.rx_reset = False
    self.accept_script = []       # errnos the next accept() calls fail with
    self.connected = False
    self.closed = False
    self.shut_wr = False
    self.shut_rd = False
    self.listening = False
    self.accept_q = deque()
    self.on_accept = None         # harness callback(listener, server_sock)
    self.addr = None
    self.blocking = True
    # oracle / fault state
    self.accepted = bytearray()   # every byte accepted from the owner
    self.send_calls = 0
    self.sends_after_fatal = 0
    self.tx_credit = None         # None: unlimited; int: bytes acceptable
    self.tx_fatal = None          # errno to raise on next send
    self.tx_dead = False          # a fatal error has been delivered
    self.tx_script = None         # list of per-call outcomes (C20)
    self.recv_all = False         # harness ends read everything
    self._last_arrival = 0.0
    self.exc_flag = False
    self.refuse_recv = 0          # spurious EAGAIN count (not used by default)

  # -- socket API used by pox ------------------------------------------
  def fileno(self):
    # like a real socket object: -1 once closed (select() then raises)
    return -1 if self.closed else self.fd

  def setblocking(self, b):
    self.blocking = bool(b)

  def setsockopt(self, *a):
    pass

  def getsockopt(self, *a):
    return 0

  def settimeout(self, t):
    pass

  def bind(self, addr):
    self.addr = addr

  def getsockname(self):
    return self.addr or ("0.0.0.0", 0)

  def getpeername(self):
    if self.peer is None:
      raise OSError(errno.ENOTCONN, "Transport endpoint is not connected")
    return ("10.0.0.%d" % (self.peer.fd % 250), 30000 + self.peer.fd)

  def listen(self, n=5):
    self.listening = True
    port = self.addr[1] if self.addr else 0
    self.sim.listeners[port] = self

  def accept(self):
    if not self.accept_q:
      raise BlockingIOError(errno.EAGAIN, "Resource temporarily unavailable")
    sim = self.sim
    if self.accept_script:
      # a failing accept(): the connection stays queued (EMFILE: the
      # process is out of descriptors for the moment)
      e = self.accept_script.pop(0)
      sim.stats["accept_failed"] += 1
      raise OSError(e, os.strerror(e))
    s = self.accept_q.popleft()
    if sim.reuse_fds:
      # the accepting process gets the lowest descriptor it has free --
      # possibly the number of a connection it closed a moment ago
      if sim.fds.get(s.fd) is s:
        del sim.fds[s.fd]
      s.fd = sim._proc_fd(s)
    return s, s.getpeername()

  def connect_ex(self, addr):
    lst = self.sim.listeners.get(addr[1])
    if (lst is None or lst.closed or not lst.listening
        or self.sim.refuse_connect):
      self.sim.stats["connect_refused"] += 1
      return errno.ECONNREFUSED
    srv = SimSocket(self.sim)
    srv.addr = lst.addr
    srv.peer = self
    self.peer = srv
    srv.connected = self.connected = True
    self.sim.stats["connect"] += 1
    if lst.on_accept is not None:
      lst.on_accept(lst, srv)
    else:
      lst.accept_q.append(srv)
    self.sim._poke()
    return 0

  def connect(self, addr):
    r = self.connect_ex(addr)
    if r:
      raise ConnectionRefusedError(r, "Connection refused")

  def send(self, data, flags=0):
    self.send_calls += 1
    sim = self.sim
    if self.closed:
      raise OSError(errno.EBADF, "Bad file descriptor")
    if self.tx_dead:
      self.sends_after_fatal += 1
      raise BrokenPipeError(errno.EPIPE, "Broken pipe")
    if not self.connected:
      raise OSError(errno.ENOTCONN, "Transport endpoint is not connected")
    if self.shut_wr:
      raise BrokenPipeError(errno.EPIPE, "Broken pipe")
    n = len(data)
    if self.tx_script is not None and self.tx_script:
      out = self.tx_script.pop(0)
      sim.stats["tx_script_" + out[0]] += 1
      if out[0] == "eagain":
        raise BlockingIOError(errno.EAGAIN,
                              "Resource temporarily unavailable")
      if out[0] == "fatal":
        self.tx_dead = True
        if out[1] == errno.ECONNRESET:
          # a reset connection is dead in both directions: the reader sees
          # it too (and will close from its side)
          self.rx_reset = True
          sim._poke()
        # (OSError picks the subclass the errno calls for: ConnectionReset,
        # BrokenPipe, TimeoutError for ETIMEDOUT, ... as a real send() does)
        raise OSError(out[1], os.strerror(out[1]))
      if out[0] == "part":
        # accept between 1 and n-1 bytes (all if n == 1)
        k = max(1, min(n, (n * out[1]) // 256)) if n else 0
      else:
        k = n
    else:
      if self.tx_fatal is not None:
        e = self.tx_fatal
        self.tx_fatal = None
        self.tx_dead = True
        sim.stats["tx_fatal"] += 1
        raise OSError(e, os.strerror(e))
      if self.tx_credit is None:
        k = n
      elif self.tx_credit <= 0:
        sim.stats["tx_eagain"] += 1
        raise BlockingIOError(errno.EAGAIN,
                              "Resource temporarily unavailable")
      else:
        k = min(n, self.tx_credit)
        self.tx_credit -= k
        if k < n:
          sim.stats["tx_short"] += 1
    chunk = bytes(data[:k])
    self.accepted += chunk
    if k:
      sim._deliver(self, chunk)
    return k

  def sendall(self, data, flags=0):
    self.send(data, flags)

  def recv(self, n, flags=0):
    sim = self.sim
    if self.closed:
      raise OSError(errno.EBADF, "Bad file descriptor")
    if self.rxbuf:
      avail = min(n, len(self.rxbuf))
      if self.recv_all or flags & _real_socket.MSG_PEEK:
        k = avail
      else:
        k = sim.recv_amount(self, avail)
      out = bytes(self.rxbuf[:k])
      if not flags & _real_socket.MSG_PEEK:
        del self.rxbuf[:k]
      return out
    if self.rx_reset:
      raise ConnectionResetError(errno.ECONNRESET, "Connection reset by peer")
    if self.rx_eof or self.shut_rd:
      return b""
    raise BlockingIOError(errno.EAGAIN, "Resource temporarily unavailable")

  def shutdown(self, how):
    if self.closed:
      raise OSError(errno.EBADF, "Bad file descriptor")
    if not self.connected or self.rx_reset:
      # (a TCP socket whose peer has reset it is in state CLOSE: Linux
      # answers shutdown() with a plain OSError(ENOTCONN), which is not a
      # ConnectionError)
      self.sim.stats["shutdown_enotconn"] += 1
      raise OSError(errno.ENOTCONN, "Transport endpoint is not connected")
    if how in (_real_socket.SHUT_WR, _real_socket.SHUT_RDWR):
      if not self.shut_wr:
        self.shut_wr = True
        self.sim._deliver_eof(self)
    if how in (_real_socket.SHUT_RD, _real_socket.SHUT_RDWR):
      self.shut_rd = True
    self.sim._poke()

  def close(self):
    if self.closed:
      return
    self.closed = True
    if self.listening:
      port = self.addr[1] if self.addr else 0
      if self.sim.listeners.get(port) is self:
        del self.sim.listeners[port]
    if self.connected and not self.shut_wr:
      self.shut_wr = True
      self.sim._deliver_eof(self)
    if self.sim.reuse_fds and self.fd >= PROC_FD_BASE:
      if self.sim.fds.get(self.fd) is self:
        del self.sim.fds[self.fd]
      self.sim._proc_free.add(self.fd)
    self.sim._poke()

  # -- readiness --------------------------------------------------------
  def readable(self):
    if self.closed:
      return False
    if self.listening:
      return bool(self.accept_q)
    return bool(self.rxbuf) or self.rx_eof or self.rx_reset or self.shut_rd

  def writable(self):
    if self.closed or self.listening or not self.connected:
      return False
    if self.tx_script is not None and self.tx_script:
      return True
    if self.tx_dead or self.tx_fatal is not None:
      return True
    return self.tx_credit is None or self.tx_credit > 0

  def exceptional(self):
    return self.exc_flag and not self.closed

  # -- harness helpers --------------------------------------------------
  def take(self):
    """Drain everything that has arrived (harness ends only)."""
    out = bytes(self.rxbuf)
    del self.rxbuf[:]
    return out

  def inject(self, data):
    """Bytes arrive at this socket right now (bypasses the peer)."""
    self.rxbuf += data
    self.sim._poke()

  def inject_eof(self):
    self.rx_eof = True
    self.sim._poke()

  def inject_reset(self):
    self.rx_reset = True
    self.tx_fatal = errno.ECONNRESET
    self.sim._poke()

  def __repr__(self):
    return "<SimSocket %s>" % self.name


class SimSocketModule(object):
  """Stands in for the `socket` module inside pox modules."""

  def __init__(self, sim):
    self._sim = sim

  def socket(self, *a, **kw):
    return SimSocket(self._sim)

  def __getattr__(self, name):
    return getattr(_real_socket, name)


class SimSelectModule(object):
  """Stands in for the `select` module (of_01's DeferredSender)."""

  def __init__(self, sim):
    self._sim = sim

  def select(self, rl, wl, xl, timeout=None):
    return self._sim.select(rl, wl, xl, timeout)

  def __getattr__(self, name):
    import select as _s
    return getattr(_s, name)


class _Counter(dict):
  def __missing__(self, k):
    return 0


class Sim(object):

  def __init__(self, seed, calm=False):
    self.seed = seed
    self.now = T0
    self._seq = 0
    self.events = []
    self.ch = Chooser(mix(seed, "online"), calm)
    self.fds = {}
    self._next_fd = 10
    self.reuse_fds = False      # accepted sockets get the lowest free number
    self.epoll_hub = False      # attach(): the hub selects through EpollSelect
    self._proc_free = set()
    self._proc_next = PROC_FD_BASE
    self.listeners = {}
    self.log = []
    self.stats = _Counter()
    self.probes = _Counter()
    self.horizon = None
    self.refuse_connect = False
    self.sched = None
    self.timemod = FakeTime(self)
    self.socketmod = SimSocketModule(self)
    self.selectmod = SimSelectModule(self)
    # network knobs (set by worlds from the plan's cfg)
    self.net_delay = False        # segments get chooser-picked delays
    self.net_segment = False      # sends are cut into segments in flight
    self.recv_mode = "all"        # all | choose | dribble
    self.max_delay_ticks = 64
    self.shuffle_ready = False
    self.cycles = 0
    self.cycle_cap = 200000
    self.task_deaths = []         # (task repr-free name, exception type)
    self.log_records = []         # (level, logger, exc type or None)
    self.cpu_cost_ticks = 0       # virtual time consumed per scheduler cycle

  # -- bookkeeping ------------------------------------------------------
  def _new_fd(self, obj):
    fd = self._next_fd
    self._next_fd += 1
    self.fds[fd] = obj
    return fd

  def _proc_fd(self, obj):
    """lowest free descriptor of the process under test (reuse_fds)"""
    if self._proc_free:
      fd = min(self._proc_free)
      self._proc_free.discard(fd)
      self.stats["fd_reused"] += 1
    else:
      fd = self._proc_next
      self._proc_next += 1
    self.fds[fd] = obj
    return fd

  def _poke(self):
    pass

  def ev(self, *items):
    self.log.append(items)

  def digest(self):
    h = hashlib.sha256()
    for it in self.log:
      h.update(repr(it).encode())
      h.update(b"\n")
    return h.hexdigest()[:24]

  def at(self, t, fn):
    """Schedule fn() at absolute virtual time t."""
    self._seq += 1
    heapq.heappush(self.events, (t, self._seq, fn))

  def after(self, dt, fn):
    self.at(self.now + dt, fn)

  def run_due(self):
    ev = self.events
    while ev and ev[0][0] <= self.now:
      t, _, fn = heapq.heappop(ev)
      fn()

  def next_event_time(self):
    return self.events[0][0] if self.events else None

  def make_pinger(self):
    return SimPinger(self)

  def sleep(self, dt):
    # single-thread worlds: a sleep just moves the clock
    self.now += max(0.0, dt)
    self.run_due()

  # -- network ----------------------------------------------------------
  def socketpair(self, a_name=None, b_name=None):
    a = SimSocket(self, a_name)
    b = SimSocket(self, b_name)
    a.peer, b.peer = b, a
    a.connected = b.connected = True
    return a, b

  def recv_amount(self, sock, avail):
    if avail <= 1 or self.recv_mode == "all":
      return avail
    if self.recv_mode == "dribble":
      return 1
    # "choose": biased to whole buffer, one byte, header-ish sizes
    c = self.ch.below("recv_kind", 6)
    if c <= 1:
      return avail
    if c == 2:
      return 1
    if c == 3:
      return min(avail, self.ch.pick("recv_small", (3, 4, 7, 8, 9)))
    return 1 + self.ch.below("recv_k", avail)

  def _deliver(self, src, data):
    dst = src.peer
    if dst is None or dst.closed:
      self.stats["tx_to_closed"] += 1
      return
    if not self.net_delay and not self.net_segment:
      self._arrive(dst, data)
      return
    segs = [data]
    if self.net_segment and len(data) > 1:
      segs = self._cut(data)
    t = max(self.now, dst._last_arrival)
    for s in segs:
      if self.net_delay:
        t = t + TICK * self.ch.below("seg_delay", self.max_delay_ticks + 1)
      dst._last_arrival = t
      if t <= self.now:
        self._arrive(dst, s)
      else:
        self.stats["seg_delayed"] += 1
        self.at(t, lambda d=dst, s=s: self._arrive(d, s))

  def _cut(self, data):
    n = len(data)
    kind = self.ch.below("cut_kind", 5)
    if kind == 0:
      return [data]
    if kind == 1 and n <= 64:
      self.stats["cut_dribble"] += 1
      return [data[i:i + 1] for i in range(n)]
    ncuts = 1 + self.ch.below("cut_n", 3)
    pts = set()
    for _ in range(ncuts):
      if self.ch.chance("cut_hdr", 0.5):
        p = self.ch.pick("cut_hdr_off", (1, 2, 3, 4, 7, 8, 9))
      else:
        p = 1 + self.ch.below("cut_at", n - 1)
      if 0 < p < n:
        pts.add(p)
    out = []
    last = 0
    for p in sorted(pts):
      out.append(data[last:p])
      last = p
    out.append(data[last:])
    self.stats["cut"] += len(out) - 1
    return out

  def _arrive(self, dst, data):
    if dst.closed or dst.shut_rd:
      self.stats["rx_dropped_closed"] += 1
      return
    dst.rxbuf += data

  def _deliver_eof(self, src):
    dst = src.peer
    if dst is None:
      return
    t = max(self.now, dst._last_arrival)
    if t <= self.now:
      dst.rx_eof = True
    else:
      def f(d=dst):
        d.rx_eof = True
      self.at(t, f)

  # -- select -----------------------------------------------------------
  def _w(self, obj):
    if isinstance(obj, SimPinger):
      return obj
    fd = obj if isinstance(obj, int) else obj.fileno()
    if fd < 0:
      # what select.select() does for a closed socket object
      self.stats["select_on_closed"] += 1
      raise ClosedFdInSelect("file descriptor cannot be a negative integer "
                             "(-1)")
    return self.fds[fd]

  def _fdkey(self, obj):
    return obj.fd if isinstance(obj, (SimSocket, SimPinger)) else obj.fileno()

  def _ready(self, rl, wl, xl):
    r = [o for o in rl if self._w(o).readable()]
    w = [o for o in wl if self._w(o).writable()]
    x = [o for o in xl if self._w(o).exceptional()]
    if r or w or x:
      r.sort(key=self._fdkey)
      w.sort(key=self._fdkey)
      x.sort(key=self._fdkey)
      if self.shuffle_ready:
        if len(r) > 1:
          self.ch.shuffle("ready_r", r)
        if len(w) > 1:
          self.ch.shuffle("ready_w", w)
      return r, w, x
    return None

  def select(self, rl, wl, xl, timeout=None):
    rl = list(rl)
    wl = list(wl)
    xl = list(xl)
    self.stats["select"] += 1
    deadline = None if timeout is None else self.now + max(0.0, timeout)
    while True:
      self.run_due()
      got = self._ready(rl, wl, xl)
      if got is not None:
        return got
      if deadline is not None and self.now >= deadline:
        self.stats["select_timeout"] += 1
        return [], [], []
      nxt = self.next_event_time()
      target = deadline
      if nxt is not None and (target is None or nxt < target):
        target = nxt
      if self.horizon is not None and (target is None
                                       or target > self.horizon):
        if self.now < self.horizon:
          self.now = self.horizon
        raise WouldBlock()
      if target is None:
        # nothing can ever happen: treat as blocked for good
        raise WouldBlock()
      if target > self.now:
        self.now = target

  # -- driving the real scheduler --------------------------------------
  def attach(self, sched):
    self.sched = sched
    if self.epoll_hub:
      ES = install_epoll(self)
      sched._selectHub._select_func = ES.EpollSelect().select
      self.probes["hub_epoll"] += 1
    else:
      sched._selectHub._select_func = self.select
    sched._thread = threading.current_thread()

  def run_until(self, t):
    """Step the scheduler until virtual time t is reached and nothing is
    runnable at t."""
    sched = self.sched
    hub = sched._selectHub
    self.horizon = t
    try:
      while True:
        self.run_due()
        if sched._ready:
          self.cycles += 1
          if self.cycles > self.cycle_cap:
            raise SimAbort("livelock", "cycle cap %d exceeded"
                           % self.cycle_cap)
          sched.cycle()
          if self.cpu_cost_ticks:
            self.now += TICK * self.cpu_cost_ticks
        else:
          try:
            hub.idle()
          except WouldBlock:
            break
          except ClosedFdInSelect as e:
            # nothing in recoco contains this: Scheduler.run (or the select
            # thread) ends here and with it every task of the process
            raise SimAbort("scheduler-loop-died", "select() was handed a "
                           "closed socket (%s): the exception ends the "
                           "scheduler / select loop for every task" % e)
    finally:
      self.horizon = None
    if self.now < t:
      self.now = t

  def settle(self):
    self.run_until(self.now)

  def advance(self, dt):
    self.run_until(self.now + dt)

  def drain(self, limit=60.0):
    """Run until no simulator event (segment in flight etc.) is pending,
    at most `limit` virtual seconds."""
    end = self.now + limit
    self.settle()
    while self.events and self.events[0][0] <= end:
      self.run_until(self.events[0][0])
    self.settle()


# ---------------------------------------------------------------------------
# seam installation
# ---------------------------------------------------------------------------

def _capture_logging(sim):
  import logging

  class H(logging.Handler):
    def emit(self, rec):
      et = None
      if rec.exc_info and rec.exc_info[0] is not None:
        et = rec.exc_info[0].__name__
      sim.log_records.append((rec.levelno, rec.name, et))
      if et is not None:
        sim.stats["log_exception"] += 1
      if et is not None or rec.levelno >= logging.ERROR:
        try:
          m = rec.getMessage()
        except Exception:
          m = str(rec.msg)
        sim.stats["log_error"] += 1
        if len(sim.probes) < 10000:
          sim.last_error = (rec.name, et, m[:300])

  root = logging.getLogger()
  for h in list(root.handlers):
    root.removeHandler(h)
  root.addHandler(H())
  logging.disable(logging.NOTSET)
  root.setLevel(logging.WARNING)
  # pox loggers created before now inherit from root; make sure none has
  # its own handler / level that would print
  for name, lg in list(logging.Logger.manager.loggerDict.items()):
    if isinstance(lg, logging.Logger):
      lg.handlers = []
      lg.propagate = True
      lg.setLevel(logging.NOTSET)
  sim.last_error = None


def install(sim, capture_log=True, real_pinger=False):
  """
  Replace every nondeterminism seam in the loaded pox modules with the
  simulator's.  Called once in a freshly forked child.

  real_pinger: keep pox.lib.util's own PipePinger code and put the seam one
  level lower (util's `os`: pipe/read/write on a simulated pipe).
  """
  import gc
  gc.disable()
  import pox.lib.util as U
  import pox.lib.recoco.recoco as R
  if real_pinger:
    U.os = SimOS(sim)
    sim.real_pinger = True
  else:
    U.makePinger = sim.make_pinger
    U.make_pinger = sim.make_pinger
  for name, mod in list(sys.modules.items()):
    if not name.startswith("pox") or mod is None:
      continue
    d = getattr(mod, "__dict__", None)
    if d is None:
      continue
    if d.get("time") is _real_time:
      d["time"] = sim.timemod
    if d.get("socket") is _real_socket:
      d["socket"] = sim.socketmod
    if (d.get("makePinger") is not None and name != "pox.lib.util"
        and not real_pinger):
      d["makePinger"] = sim.make_pinger
    if name == "pox.openflow.of_01":
      import select as _sel
      if d.get("select") is _sel:
        d["select"] = sim.selectmod

  # recoco prints de-scheduled tasks' tracebacks; record instead
  class _TB(object):
    @staticmethod
    def print_exc(*a, **k):
      et = sys.exc_info()[0]
      ev = sys.exc_info()[1]
      sim.task_deaths.append((et.__name__ if et else None,
                              str(ev)[:200]))

    def __getattr__(self, n):
      import traceback
      return getattr(traceback, n)

  R.traceback = _TB()
  R.print = lambda *a, **k: None
  if capture_log:
    _capture_logging(sim)


def new_scheduler(sim, make_default=True):
  """A fresh real Scheduler (inline hub) wired to the simulator; also
  installed as core.scheduler so Timer/callDelayed use it."""
  import pox.lib.recoco.recoco as R
  import pox.core
  R.defaultScheduler = None
  s = R.Scheduler(isDefaultScheduler=make_default, startInThread=False,
                  threaded_selecthub=False)
  sim.attach(s)
  if pox.core.core is not None:
    pox.core.core.scheduler = s
  return s
