"""
Process bootstrap: interpreter, hash seed, import of pox from the *current
working tree* of the repository, and the one patch that must precede
`import pox.core` (the scheduler must not start a real thread).
"""

import os
import sys

REPO = os.environ.get("VERIF_REPO", "/repo")
PY = "/venv/bin/python"
VERIF = os.path.dirname(os.path.dirname(os.path.abspath(__file__)))


def reexec_if_needed():
  """Run under /venv/bin/python with PYTHONHASHSEED=0 (deterministic str
  hashing) and without writing .pyc files into /repo."""
  want = os.environ.get("VERIF_HASHSEED", "0")
  ok = (os.environ.get("PYTHONHASHSEED") == want
        and os.environ.get("VERIF_BOOTED") == "1")
  if ok:
    return
  env = dict(os.environ)
  env["PYTHONHASHSEED"] = want
  env["VERIF_BOOTED"] = "1"
  env["PYTHONDONTWRITEBYTECODE"] = "1"
  env.pop("PYTHONPATH", None)
  py = PY if os.path.exists(PY) else sys.executable
  os.execve(py, [py] + sys.argv, env)


_booted = False


def import_pox(threaded_selecthub=False):
  """
  Import pox from REPO with a core whose scheduler is not running.
  Returns the pox.core module.  Idempotent.
  """
  global _booted
  if _booted:
    import pox.core
    return pox.core
  sys.dont_write_bytecode = True
  if REPO not in sys.path:
    sys.path.insert(0, REPO)
  import logging
  logging.disable(logging.NOTSET)
  logging.getLogger().setLevel(logging.CRITICAL + 10)

  import pox.lib.recoco.recoco as R
  if not hasattr(R.Scheduler, "_verif_orig_init"):
    orig = R.Scheduler.__init__
    R.Scheduler._verif_orig_init = orig

    def _init(self, isDefaultScheduler=None, startInThread=True,
              daemon=False, use_epoll=False, threaded_selecthub=True):
      # never start the scheduler thread by itself, never epoll; the hub
      # thread is allowed only when a world asked for it explicitly
      orig(self, isDefaultScheduler, False, daemon, False,
           threaded_selecthub and R.__dict__.get("_verif_allow_hub_thread",
                                                 False))
    R.Scheduler.__init__ = _init

  import builtins
  import pox.core
  # keep the banner off stdout
  pox.core.print = lambda *a, **k: None
  if pox.core.core is None:
    pox.core.initialize(threaded_selecthub=False, handle_signals=False)
  # everything a world may need must be loaded *before* a child installs
  # the seams (install() sweeps the loaded modules)
  import pox.openflow
  import pox.openflow.libopenflow_01
  import pox.openflow.flow_table
  import pox.lib.ioworker
  import pox.lib.ioworker.workers
  import pox.datapaths
  import pox.datapaths.switch
  import pox.openflow.of_01
  import pox.openflow.discovery
  import pox.openflow.spanning_tree
  import pox.forwarding.l2_learning
  import pox.lib.packet
  _booted = True
  return pox.core


def repo_head():
  import subprocess
  try:
    return subprocess.check_output(
        ["git", "-C", REPO, "rev-parse", "HEAD"],
        stderr=subprocess.DEVNULL).decode().strip()
  except Exception:
    return "unknown"
