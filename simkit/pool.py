"""
Fork-per-run execution on all cores.

master --fork--> N workers --fork per run--> child
Every simulated run executes in its own freshly forked child of a parent
that has pox imported, so all of pox's module-level state is pristine, and
the child _exit()s.  A child that hangs (pox contains genuine infinite
loops) is killed by PID after a wall timeout and reported as 'hang' --
never as a pass.
"""

import faulthandler
import json
import os
import select
import signal
import sys
import time
import traceback


class Agg(object):
  """Mergeable aggregate of run results (kept small for million-run tiers)."""

  def __init__(self):
    self.n = 0
    self.verdicts = {}
    self.stats = {}
    self.probes = {}
    self.digests = set()          # digests of runs that were 'nontrivial'
    self.all_digests = 0
    self.fail = []                # failing results (capped)
    self.known = {}               # known-finding id -> count
    self.known_example = {}
    self.samples = []
    self.sim_time = 0.0
    self.steps = 0
    self.hangs = []
    self.errors = []
    self.extra = {}               # check-specific mergeable counters

  def add(self, i, r):
    self.n += 1
    v = r.get("verdict", "error")
    self.verdicts[v] = self.verdicts.get(v, 0) + 1
    for k, x in r.get("stats", {}).items():
      self.stats[k] = self.stats.get(k, 0) + x
    for k, x in r.get("probes", {}).items():
      self.probes[k] = self.probes.get(k, 0) + x
    for k, x in r.get("extra", {}).items():
      self.extra[k] = self.extra.get(k, 0) + x
    if r.get("nontrivial") and r.get("digest"):
      self.digests.add(r["digest"])
    self.sim_time += r.get("sim_time", 0.0)
    self.steps += r.get("steps", 0)
    for k in r.get("known", []):
      self.known[k] = self.known.get(k, 0) + 1
      if k not in self.known_example:
        self.known_example[k] = i
    if v == "violation":
      if len(self.fail) < 40:
        self.fail.append(dict(r, index=i))
    elif v == "hang":
      if len(self.hangs) < 10:
        self.hangs.append(dict(r, index=i))
    elif v == "error":
      if len(self.errors) < 10:
        self.errors.append(dict(r, index=i))
    if len(self.samples) < 2 and r.get("sample") is not None:
      self.samples.append({"index": i, "case": r["sample"]})

  def dump(self):
    d = dict(self.__dict__)
    d["digests"] = sorted(self.digests)
    return d

  @classmethod
  def load(cls, d):
    a = cls()
    a.__dict__.update(d)
    a.digests = set(d["digests"])
    return a

  def merge(self, o):
    self.n += o.n
    for name in ("verdicts", "stats", "probes", "known", "extra"):
      mine = getattr(self, name)
      for k, x in getattr(o, name).items():
        mine[k] = mine.get(k, 0) + x
    for k, x in o.known_example.items():
      if k not in self.known_example or x < self.known_example[k]:
        self.known_example[k] = x
    self.digests |= o.digests
    self.sim_time += o.sim_time
    self.steps += o.steps
    self.fail = sorted(self.fail + o.fail, key=lambda r: r["index"])[:40]
    self.hangs = (self.hangs + o.hangs)[:10]
    self.errors = (self.errors + o.errors)[:10]
    self.samples = sorted(self.samples + o.samples,
                          key=lambda s: s["index"])[:2]


def run_in_child(fn, arg, timeout):
  """Run fn(arg) in a forked child; returns its JSON-able result dict."""
  r, w = os.pipe()
  pid = os.fork()
  if pid == 0:
    code = 0
    try:
      os.close(r)
      signal.signal(signal.SIGALRM, signal.SIG_DFL)
      signal.alarm(int(timeout) + 5)
      if os.environ.get("VERIF_FAULTHANDLER"):
        faulthandler.dump_traceback_later(timeout, exit=True)
      try:
        res = fn(arg)
      except BaseException:
        res = {"verdict": "error",
               "detail": traceback.format_exc()[-3000:]}
      data = json.dumps(res).encode()
      off = 0
      while off < len(data):
        off += os.write(w, data[off:off + 65536])
    except BaseException:
      code = 3
    finally:
      os._exit(code)
  os.close(w)
  chunks = []
  deadline = time.time() + timeout
  hung = False
  while True:
    left = deadline - time.time()
    if left <= 0:
      hung = True
      break
    rl, _, _ = select.select([r], [], [], left)
    if not rl:
      hung = True
      break
    b = os.read(r, 1 << 20)
    if not b:
      break
    chunks.append(b)
  os.close(r)
  if hung:
    try:
      os.kill(pid, signal.SIGKILL)
    except OSError:
      pass
  try:
    os.waitpid(pid, 0)
  except OSError:
    pass
  if hung:
    return {"verdict": "hang", "detail": "wall timeout %ss" % timeout}
  try:
    return json.loads(b"".join(chunks).decode())
  except Exception:
    return {"verdict": "error", "detail": "child produced no result"}


def _worker(fn, indices, timeout, deadline, wfd, keep_going):
  agg = Agg()
  for i in indices:
    if deadline is not None and time.time() > deadline:
      break
    res = run_in_child(fn, i, timeout)
    agg.add(i, res)
    if not keep_going and len(agg.fail) >= 8:
      break
  data = json.dumps(agg.dump()).encode()
  off = 0
  while off < len(data):
    off += os.write(wfd, data[off:off + 65536])


def run_many(fn, indices, nproc=None, timeout=30, wall_budget=None,
             keep_going=False):
  """
  Execute fn(i) for every i in indices, each in its own forked child,
  spread over nproc worker processes.  Returns an Agg.
  """
  indices = list(indices)
  if nproc is None:
    nproc = int(os.environ.get("VERIF_NPROC", "0")) or (os.cpu_count() or 4)
  nproc = max(1, min(nproc, len(indices) or 1))
  deadline = None if wall_budget is None else time.time() + wall_budget
  if nproc == 1:
    agg = Agg()
    for i in indices:
      if deadline is not None and time.time() > deadline:
        break
      agg.add(i, run_in_child(fn, i, timeout))
    return agg
  workers = []
  sys.stdout.flush()
  sys.stderr.flush()
  for w in range(nproc):
    r, wfd = os.pipe()
    pid = os.fork()
    if pid == 0:
      code = 0
      try:
        os.close(r)
        _worker(fn, indices[w::nproc], timeout, deadline, wfd, keep_going)
      except BaseException:
        traceback.print_exc()
        code = 4
      finally:
        os._exit(code)
    os.close(wfd)
    workers.append((pid, r))
  total = Agg()
  bufs = {r: [] for _, r in workers}
  open_fds = set(bufs)
  while open_fds:
    rl, _, _ = select.select(list(open_fds), [], [], 5.0)
    for r in rl:
      b = os.read(r, 1 << 20)
      if b:
        bufs[r].append(b)
      else:
        open_fds.discard(r)
  for pid, r in workers:
    os.close(r)
    os.waitpid(pid, 0)
    raw = b"".join(bufs[r])
    if not raw:
      total.errors.append({"verdict": "error",
                           "detail": "worker %d died" % pid, "index": -1})
      total.verdicts["error"] = total.verdicts.get("error", 0) + 1
      continue
    total.merge(Agg.load(json.loads(raw.decode())))
  return total
