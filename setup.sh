#!/bin/sh
# Offline setup: nothing to build or download; sanity-check the interpreter,
# the repository import and the simulator's determinism on a few seeds.
set -e
cd "$(dirname "$0")"
test -x /venv/bin/python
mkdir -p evidence replays
exec timeout 300 ./check selftest --quick
