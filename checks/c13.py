"""
C13 -- every switch request is answered once, with its xid, in order.

World: SW (real SoftwareSwitch + OFConnection + IO worker/loop, scripted
controller peer over a simulated byte stream).
"""

import os
import struct

from simkit import sim as S
from simkit.rng import Rng, mix
from simkit.check import load_known
from worlds.sw import SWWorld
from models import of10wire as W
from models import rawframe as F

PROP = "C13"
LEVEL = "exploration"
BUDGET = {"quick": 6000, "thorough": 400000}
RULE = ("Each run: a seeded plan of 4-40 controller-to-switch messages (all "
        "13 message types, 7 stats types + unknown ones, arbitrary xids, "
        "valid and invalid ports/queues/commands/buffers) pushed through "
        "the simulated TCP stream (random segmentation, delay, partial "
        "recv) to the real switch stack; the decoded reply stream is paired "
        "with the requests by position and xid against a reference model. "
        "A run is non-trivial when >= 3 distinct request kinds were "
        "answered; distinct = distinct event-log digest.")
ASSUMPTIONS = [
  "reply decoding and request encoding use an independent OF1.0 codec "
  "(models/of10wire.py) written from the specification",
  "where OF1.0 names no error for an invalid request the oracle accepts "
  "any single reply-or-error with the request's xid",
  "segmentation/delay are sampled, not enumerated",
]
REAL = ["pox.datapaths.switch.SoftwareSwitch/ExpireMixin/OFConnection",
        "pox.datapaths.OpenFlowWorker (BackoffWorker/PersistentIOWorker)",
        "pox.lib.ioworker.RecocoIOLoop/RecocoIOWorker",
        "pox.lib.recoco Scheduler/SelectHub/Timer",
        "pox.openflow.libopenflow_01 codec", "pox.openflow.flow_table"]
STUBBED = ["socket/select/time/pinger (simkit)", "controller peer (scripted)"]
EXPECT_PROBES = ["kind_echo", "kind_stats_table", "kind_vendor",
                 "kind_unknown_type", "kind_port_mod_bad", "cut",
                 "seg_delayed"]

ASYNC = (W.PACKET_IN, W.FLOW_REMOVED, W.PORT_STATUS)


def _xid(r):
  return r.wpick([(1, 0), (1, 0xffffffff), (1, 0x80000000), (1, 1),
                  (6, r.randrange(1 << 32))])


def gen_plan(seed, tier):
  r = Rng(seed)
  nports = r.randint(1, 4)
  cfg = {
    "nports": nports,
    "dpid": r.pick([1, 2, 0xabcdef, (1 << 48) + 5, (1 << 63) + 7]),
    "miss_send_len": r.pick([0, 14, 128, 1500]),
    "max_buffers": r.pick([0, 1, 4, 100]),
    "max_entries": r.pick([2, 3, 100, 0x7fffffff]),
    "segment": r.chance(0.6), "delay": r.chance(0.5),
    "recv_mode": r.pick(["all", "choose", "choose", "dribble"]),
  }
  ra = Rng(mix(seed, "acts"))
  if ra.chance(0.2):
    # the switch is built without one or two of the rewrite actions
    cfg["actions_off"] = sorted(set(ra.pick(["set_nw_src", "set_nw_dst",
                                             "set_nw_tos", "enqueue"])
                                    for _ in range(ra.randint(1, 2))))
  n = r.randint(4, 40 if tier == "thorough" else 24)
  # (a hello may carry a body, which the receiver has to ignore)
  steps = [{"op": "hello", "flush": r.chance(0.5),
            "hbody": r.pick([0, 0, 0, 1, 8, 40])}]
  kinds = [(4, "echo"), (3, "features"), (3, "get_config"), (2, "set_config"),
           (4, "barrier"), (8, "stats"), (2, "queue_config"), (2, "vendor"),
           (4, "flow_mod"), (2, "packet_out"), (3, "port_mod"), (1, "hello"),
           (1, "echo_reply"), (2, "unknown_type"), (2, "frame"),
           (1, "advance"), (2, "badlen")]
  for _ in range(n):
    k = r.wpick(kinds)
    st = {"op": k, "xid": _xid(r), "flush": r.chance(0.45)}
    if k == "echo":
      st["body"] = r.randbytes(r.pick([0, 0, 1, 7, 64, 1400])).hex()
    elif k == "hello":
      st["hbody"] = r.pick([0, 0, 1, 8, 40])
    elif k == "set_config":
      st["flags"] = r.pick([0, 1, 2])
      st["msl"] = r.pick([0, 14, 128, 0xffff])
    elif k == "stats":
      st["stype"] = r.wpick([(2, "desc"), (3, "flow"), (3, "aggregate"),
                             (3, "table"), (3, "port"), (2, "queue"),
                             (2, "bad")])
      if st["stype"] == "port":
        st["port"] = r.wpick([(3, W.OFPP_NONE), (3, r.randint(1, nports)),
                              (2, nports + r.randint(1, 5)),
                              (1, W.OFPP_FLOOD)])
      elif st["stype"] == "queue":
        st["port"] = r.pick([W.OFPP_ALL, 1, nports + 3])
        st["queue"] = r.pick([0xffffffff, 0xffffffff, 0, 7])
      elif st["stype"] == "bad":
        st["code"] = r.pick([6, 7, 0x1234, 0xfffe, 0xffff])
      elif st["stype"] in ("flow", "aggregate"):
        st["table"] = r.pick([0xff, 0, 0, 1, 5])
        # filters: entries the request's match subsumes, that output to port
        st["sm"] = r.pick([0, 0, 0, 1, 2, 3, 4, 5, 6, 6])
        st["sout"] = r.wpick([(5, W.OFPP_NONE), (3, r.randint(1, nports)),
                              (1, W.OFPP_FLOOD), (1, W.OFPP_CONTROLLER),
                              (1, W.OFPP_ALL), (1, W.OFPP_IN_PORT),
                              (1, nports + 1)])
        if Rng(mix(seed, "sout0", len(steps))).chance(0.08):
          st["sout"] = 0      # (port 0: a filter, not "no filter")
      if Rng(mix(seed, "sflags", len(steps))).chance(0.2):
        st["sflags"] = r.pick([1, 1, 2, 0xffff])
    elif k == "queue_config":
      st["port"] = r.wpick([(3, r.randint(1, nports)), (1, nports + 2)])
    elif k == "vendor":
      st["vendor"] = r.pick([0x2320, 0, 0xffffffff])
      st["data"] = r.randbytes(r.pick([0, 4, 12])).hex()
    elif k == "flow_mod":
      st["cmd"] = r.wpick([(6, W.FC_ADD), (2, W.FC_DELETE), (2, 5), (1, 0xffff),
                           (1, 77)])
      st["m"] = r.randrange(6)
      st["prio"] = r.pick([0, 1, 0x8000, 0xffff])
      st["cookie"] = r.randrange(1 << 64)
      st["outp"] = r.wpick([(5, r.randint(1, nports)), (1, W.OFPP_FLOOD),
                            (1, W.OFPP_CONTROLLER), (1, W.OFPP_ALL)])
      if st["cmd"] == W.FC_ADD and r.chance(0.15):
        # names a buffer that certainly does not exist
        st["fbuf"] = r.pick([0x7fffffff, 4000])
      re_ = Rng(mix(seed, "emerg", len(steps)))
      if st["cmd"] == W.FC_ADD and re_.chance(0.08):
        # an emergency entry (which this switch does not keep): with a
        # timeout it is malformed, without one it is merely not possible
        st["emerg"] = {"rem": re_.chance(0.3),
                       "to": re_.pick([[0, 0], [5, 0], [0, 9], [3, 4],
                                       [5, 0], [0, 9]])}
      if r.chance(0.2):
        # an address rewrite before the output (any 32-bit address: what is
        # installed has to come back in flow statistics and in errors)
        st["rw"] = [r.pick(["set_nw_src", "set_nw_dst"]),
                    r.pick([0x0a000001, 0x7fffffff, 0x80000000, 0xc0a80101,
                            0xffffffff])]
      if st.get("fbuf") is not None:
        pass
      elif st["cmd"] == W.FC_ADD and r.chance(0.12):
        # an entry whose action list holds an action of a type the switch
        # cannot know: an invalid request, to be refused as a whole
        st["fbad"] = r.pick([12, 100, 0x7fff, 0xffff])
        st["fbadpos"] = r.pick([0, 1])
    elif k == "packet_out":
      st["outp"] = r.wpick([(3, r.randint(1, nports)), (1, W.OFPP_FLOOD),
                            (1, nports + 1)])
      st["inp"] = r.wpick([(3, W.OFPP_NONE), (1, r.randint(1, nports))])
      st["buffer"] = r.wpick([(5, None), (2, r.pick([1, 2, 99, 0x7fffffff])),
                              (2, "live")])
      if st["buffer"] is None and r.chance(0.15):
        # an action of a type the switch cannot know
        st["badact"] = r.pick([12, 100, 0x7fff, 0xffff])
      if st["buffer"] is None and r.chance(0.12):
        # data AND a buffer id (the data is then to be ignored, says the
        # specification; either way the request is answered like any other)
        st["both"] = r.pick([1, 0x55, 0x7ffffff1])
      if st["buffer"] == "live":
        # the id of a packet the switch is holding right now (from the most
        # recent packet_in not yet used); half of these carry an action the
        # switch cannot know, after one it can
        if r.chance(0.5):
          st["badact"] = r.pick([12, 100, 0x7fff, 0xffff])
          st["badpos"] = r.pick([0, 1])
      if st["buffer"] not in (None, "live") and r.chance(0.15):
        # request near the 16-bit length limit (a very long action list):
        # the error about it must still arrive
        st["nact"] = (r.pick([65535, 65524, 65523, 65000, 32768]) - 16) // 8
      if st["buffer"] is not None:
        # the model does not track buffers, so whether this one errors is
        # open; a unique xid keeps the optional error attributable
        st["xid"] = 0x51000000 + len(steps)
      rv = Rng(mix(seed, "vrw", len(steps)))
      if st["buffer"] is None and st.get("badact") is None \
          and st.get("both") is None and rv.chance(0.3):
        # a VLAN rewrite before the output, with arguments in and beyond the
        # field's width (the structs carry 16 / 8 bits): a valid request
        # that needs no answer -- and no internal failure either
        st["vrw"] = rv.pick([["set_vlan_vid", 5], ["set_vlan_vid", 0x1005],
                             ["set_vlan_vid", 0xffff], ["set_vlan_pcp", 3],
                             ["set_vlan_pcp", 8], ["set_vlan_pcp", 0xff],
                             ["strip_vlan"]])
    elif k == "port_mod":
      st["port"] = r.wpick([(5, r.randint(1, nports)), (2, nports + 1),
                            (1, W.OFPP_LOCAL)])
      st["hw_ok"] = r.chance(0.75)
      st["config"] = r.pick([0, W.PC_PORT_DOWN, W.PC_NO_FLOOD, W.PC_NO_FWD,
                             W.PC_NO_RECV, 0x7f])
      st["mask"] = r.pick([0, W.PC_PORT_DOWN, W.PC_NO_FLOOD, 0x7f,
                           0xffffffff])
    elif k == "unknown_type":
      st["type"] = r.pick([22, 23, 40, 128, 255])
      st["body"] = r.randbytes(r.pick([0, 4, 16])).hex()
    elif k == "badlen":
      st["which"] = r.pick(["barrier_long", "set_config_short",
                            "flow_stats_short", "features_long",
                            "port_mod_short", "get_config_long"])
    elif k == "frame":
      st["port"] = r.randint(1, nports)
      st["h"] = r.randrange(4)
    elif k == "advance":
      st["dt"] = r.pick([0.5, 1, 2.5])
    steps.append(st)
    rs = Rng(mix(seed, "stray", len(steps)))
    if rs.chance(0.05):
      # a well-formed message the switch has nothing to do with (an error
      # report from the controller, a reply type): no answer is due, and
      # the requests behind it in the same segment still are
      steps.append({"op": "stray", "xid": _xid(rs), "flush": rs.chance(0.3),
                    "what": rs.pick(["error", "error", "barrier_reply",
                                     "get_config_reply"])})
    rp = Rng(mix(seed, "portev", len(steps)))
    if rp.chance(0.06):
      # something local happens to the switch's ports (an interface is
      # unplugged, or plugged back in): not a message, but what later
      # requests that name the port are answered with depends on it
      steps.append({"op": rp.pick(["del_port", "del_port", "add_port"]),
                    "port": rp.randint(1, nports + 1),
                    "flush": rp.chance(0.5)})
  rb = Rng(mix(seed, "bulk"))
  if rb.chance(0.04):
    # a table whose flow statistics do not fit one message (a few entries
    # with long action lists here; several hundred ordinary entries in a
    # deployment): the reply has to come in parts (OFPSF_REPLY_MORE), and the
    # request is still answered once
    k, nact = rb.pick([(9, 1000), (17, 500), (30, 300), (12, 700)])
    for i in range(k):
      steps.append({"op": "flow_mod", "xid": _xid(rb), "flush": rb.chance(0.3),
                    "cmd": W.FC_ADD, "m": i % 6, "prio": 300 + i,
                    "cookie": rb.randrange(1 << 64),
                    "outp": rb.randint(1, nports), "nact": nact})
    for _ in range(rb.randint(1, 2)):
      steps.append({"op": "stats", "xid": _xid(rb), "flush": rb.chance(0.5),
                    "stype": rb.pick(["flow", "flow", "aggregate"]),
                    "table": rb.pick([0xff, 0]), "sm": rb.pick([0, 0, 1]),
                    "sout": W.OFPP_NONE})
  steps.append({"op": "barrier", "xid": _xid(r), "flush": True})
  return {"prop": PROP, "seed": seed, "cfg": cfg, "steps": steps}


def _match_alphabet(i, nports):
  ms = [
    {},
    {"in_port": 1},
    {"dl_type": 0x0800, "nw_src": F.ip(10, 0, 0, 0), "nw_src_bits": 8},
    {"dl_type": 0x0800, "nw_proto": 17, "tp_dst": 53},
    {"dl_dst": F.mac(2)},
    {"dl_type": 0x0806, "nw_proto": 1},
    # (only used as the match of a statistics request: the same /24 as #2,
    # written with other bits below the prefix)
    {"dl_type": 0x0800, "nw_src": F.ip(10, 0, 0, 77), "nw_src_bits": 8},
  ]
  return ms[i % len(ms)]


def _frame(h):
  src = F.mac(10 + h)
  dst = F.mac(20 + h)
  return F.eth(dst, src, F.ETH_IP,
               F.ipv4(F.ip(10, 0, 0, 1 + h), F.ip(10, 0, 1, 1), 17,
                      F.udp(F.ip(10, 0, 0, 1 + h), F.ip(10, 0, 1, 1),
                            1000 + h, 53, b"x" * (10 + 40 * h))))


class Violation(Exception):
  def __init__(self, vclass, detail):
    Exception.__init__(self, vclass, detail)
    self.vclass = vclass
    self.detail = detail


def _watch_internal_failures(sim):
  """Exceptions that the switch's message wrapper (or anything else) logs and
  whose traceback runs through one of the switch's own request handlers
  (_rx_<type>, _stats_<type>, an action or output routine): the request was
  decoded and recognised, and serving it failed internally.  A message for
  which the switch has no handler at all (a stray reply) raises in rx_message
  itself and is not counted here."""
  import logging
  found = []

  class H(logging.Handler):
    def emit(self, rec):
      ei = rec.exc_info
      if not ei or ei[0] is None:
        return
      tb = ei[2]
      func = line = None
      while tb is not None:
        co = tb.tb_frame.f_code
        if co.co_filename.endswith(os.path.join("datapaths", "switch.py")) \
            and co.co_name.startswith(("_rx_", "_stats_")) and func is None:
          func, line = co.co_name, tb.tb_lineno
        tb = tb.tb_next
      if func is not None:
        sim.stats["switch_handler_raised"] += 1
        found.append((func, ei[0].__name__, str(ei[1])[:120], line))
  logging.getLogger().addHandler(H())
  return found


def run_plan(plan):
  cfg = plan["cfg"]
  sim = S.Sim(mix(plan["seed"], "run"), calm=plan.get("calm", False))
  S.install(sim)
  sim.net_segment = cfg["segment"]
  sim.net_delay = cfg["delay"]
  sim.recv_mode = cfg["recv_mode"]
  known = load_known(PROP)
  hit_known = []
  world = SWWorld(sim, cfg)
  res = {"verdict": "ok", "stats": sim.stats, "probes": sim.probes}
  internal = _watch_internal_failures(sim)
  try:
    world.boot()
    _drive(sim, world, plan, known, hit_known)
    if internal:
      func, et, msg, line = internal[0]
      raise Violation("internal-failure/%s/%s" % (func, et),
                      "the switch's handler %s raised %s (%s) at switch.py:%d "
                      "while serving a controller-to-switch message: an "
                      "internal failure, whatever was or was not answered "
                      "(%d such exception(s) in this run)"
                      % (func, et, msg, line, len(internal)))
  except Violation as v:
    res.update(verdict="violation", vclass=v.vclass, detail=v.detail)
  except S.SimAbort as a:
    if a.vclass == "harness":
      res.update(verdict="error", detail=a.detail)
    else:
      res.update(verdict="violation", vclass=a.vclass, detail=a.detail)
  res["digest"] = sim.digest()
  res["sim_time"] = sim.now - S.T0
  res["steps"] = len(plan["steps"])
  res["known"] = sorted(set(hit_known))
  res["nontrivial"] = len([k for k in sim.probes if k.startswith("answered_")
                           ]) >= 3
  res["stats"] = dict(sim.stats)
  res["probes"] = dict(sim.probes)
  return res


def _drive(sim, world, plan, known, hit_known):
  cfg = plan["cfg"]
  nports = cfg["nports"]
  sw = world.switch
  # --- model -------------------------------------------------------------
  model = {
    "flags": 0, "msl": cfg["miss_send_len"],
    "ports": {p.port_no: {"hw": p.hw_addr.toRaw(), "config": p.config,
                          "state": p.state}
              for p in sw.ports.values()},
    "flows": {},      # (canon, prio) -> dict
    "rx": {p: [0, 0] for p in sw.ports},   # packets, bytes
    "lookups": 0, "hello_seen": False,
  }
  # ports are learned from the switch object at start (initial
  # configuration); everything afterwards is tracked from the requests.
  expect = []   # list of expectation dicts in request order

  cur = {"what": "?"}

  def E(kind, xid, **kw):
    d = {"kind": kind, "xid": xid & 0xffffffff, "what": cur["what"]}
    d.update(kw)
    expect.append(d)

  pending_flush = False
  used_buffers = set()
  for idx, st in enumerate(plan["steps"]):
    op = st["op"]
    sim.ch.reseed(mix(plan["seed"], "step", idx))
    sim.probes["kind_" + (op if op != "stats" else "stats_" + st["stype"])] += 1
    xid = st.get("xid", 0)
    cur["what"] = op if op != "stats" else "stats_" + st["stype"]
    if op == "hello":
      hb = st.get("hbody")
      if hb:
        sim.probes["hello_with_body"] += 1
      world.send(W.enc_hello(xid, b"\x5a" * (hb or 0)))
      if not model["hello_seen"]:
        model["hello_seen"] = True
        E("hello", xid, anyxid=True)
    elif op == "echo":
      body = bytes.fromhex(st["body"])
      world.send(W.enc_echo_request(xid, body))
      E("echo", xid, body=body)
    elif op == "echo_reply":
      world.send(W.enc_echo_reply(xid, b"zz"))
    elif op == "stray":
      sim.probes["stray_" + st["what"]] += 1
      if st["what"] == "error":
        world.send(W.enc_error(xid, 1, 1, b"\x01\x0a\x00\x08\0\0\0\x07"))
      elif st["what"] == "barrier_reply":
        world.send(W.enc_barrier_reply(xid))
      else:
        world.send(W.msg(W.GET_CONFIG_REPLY, xid, struct.pack("!HH", 0, 128)))
    elif op == "features":
      world.send(W.enc_features_request(xid))
      E("features", xid, ports={k: dict(v) for k, v in
                                model["ports"].items()})
    elif op == "get_config":
      world.send(W.enc_get_config_request(xid))
      E("get_config", xid, flags=model["flags"], msl=model["msl"])
    elif op == "set_config":
      world.send(W.enc_set_config(xid, st["flags"], st["msl"]))
      model["flags"], model["msl"] = st["flags"], st["msl"]
    elif op == "barrier":
      world.send(W.enc_barrier_request(xid))
      E("barrier", xid)
    elif op == "vendor":
      world.send(W.enc_vendor(xid, st["vendor"], bytes.fromhex(st["data"])))
      E("error", xid, etype=W.ET_BAD_REQUEST, code=W.BRC_BAD_VENDOR,
        req=W.enc_vendor(xid, st["vendor"], bytes.fromhex(st["data"])))
    elif op == "unknown_type":
      raw = W.msg(st["type"], xid, bytes.fromhex(st["body"]))
      world.send(raw)
      E("error", xid, etype=W.ET_BAD_REQUEST, code=W.BRC_BAD_TYPE, req=raw)
    elif op == "badlen":
      # a request of a known type whose declared length disagrees with its
      # fixed layout: BAD_REQUEST/BAD_LEN carrying this request's xid
      w = st["which"]
      if w == "barrier_long":
        raw = W.msg(W.BARRIER_REQUEST, xid, b"\0\0\0\0")
      elif w == "set_config_short":
        raw = W.msg(W.SET_CONFIG, xid, b"")
      elif w == "flow_stats_short":
        raw = W.enc_flow_stats_request(xid, {})[:-6]
        raw = raw[:2] + struct.pack("!H", len(raw)) + raw[4:]
      elif w == "features_long":
        raw = W.msg(W.FEATURES_REQUEST, xid, b"\x01\x02")
      elif w == "port_mod_short":
        raw = W.enc_port_mod(xid, 1, b"\x02\0\0\0\0\x01", 0, 0)[:-8]
        raw = raw[:2] + struct.pack("!H", len(raw)) + raw[4:]
      else:
        raw = W.msg(W.GET_CONFIG_REQUEST, xid, b"\0" * 8)
      world.send(raw)
      E("error", xid, etype=W.ET_BAD_REQUEST, code=W.BRC_BAD_LEN, req=raw)
    elif op == "queue_config":
      raw = W.enc_queue_get_config_request(xid, st["port"])
      world.send(raw)
      if st["port"] in model["ports"]:
        E("queue_config", xid, port=st["port"])
      else:
        E("any", xid, types=(W.QUEUE_GET_CONFIG_REPLY,), req=raw)
    elif op == "stats":
      _stats(world, model, st, xid, E, nports)
    elif op == "flow_mod":
      m = _match_alphabet(st["m"], nports)
      acts = [("output", st["outp"], 0xffff)] * st.get("nact", 1)
      if st.get("nact"):
        sim.probes["flow_mod_with_long_action_list"] += 1
      key = (W.canon_match(m), st["prio"])
      full = st["cmd"] == W.FC_ADD and key not in model["flows"] and \
          len(model["flows"]) >= cfg["max_entries"]
      rw = st.get("rw")
      # (an action this switch was built without: refused like an unknown
      # one; only generated where that is the one thing wrong)
      rw_off = bool(rw) and rw[0] in (cfg.get("actions_off") or ())
      if rw_off and (full or st["cmd"] != W.FC_ADD
                     or st.get("fbuf") is not None
                     or st.get("fbad") is not None):
        rw = None
        rw_off = False
      if rw:
        acts = [tuple(rw)] + acts
        sim.probes["flow_mod_with_address_rewrite"] += 1
      wire_acts = acts
      if st.get("fbad") is not None and not full:
        bad = ("raw", struct.pack("!HHL", st["fbad"], 8, 0x2320))
        wire_acts = acts + [bad] if st.get("fbadpos") else [bad] + acts
      em = st.get("emerg")
      if em and (full or rw_off or wire_acts is not acts
                 or st.get("fbuf") is not None):
        em = None                 # (one thing wrong per request)
      raw = W.enc_flow_mod(xid, m, st["cmd"], wire_acts, cookie=st["cookie"],
                           priority=st["prio"],
                           buffer_id=st.get("fbuf", W.NO_BUFFER),
                           idle=em["to"][0] if em else 0,
                           hard=em["to"][1] if em else 0,
                           flags=(W.FF_EMERG | (W.FF_SEND_FLOW_REM
                                                if em["rem"] else 0))
                           if em else 0)
      world.send(raw)
      if em:
        sim.probes["emergency_flow_mod"] += 1
        if em["to"][0] or em["to"][1]:
          E("error", xid, etype=W.ET_FLOW_MOD_FAILED,
            code=W.FMFC_BAD_EMERG_TIMEOUT, req=raw)
        else:
          E("error", xid, etype=W.ET_FLOW_MOD_FAILED,
            codes=(W.FMFC_ALL_TABLES_FULL, W.FMFC_EPERM), req=raw)
      elif rw_off:
        sim.probes["flow_mod_with_disabled_action"] += 1
        E("error", xid, etype=W.ET_BAD_ACTION,
          codes=(W.BAC_BAD_TYPE,), req=raw)
      elif wire_acts is not acts:
        sim.probes["flow_mod_with_unknown_action"] += 1
        E("error", xid, etype=W.ET_BAD_ACTION,
          codes=(W.BAC_BAD_TYPE, W.BAC_BAD_VENDOR, W.BAC_BAD_VENDOR_TYPE),
          req=raw)
      elif st["cmd"] == W.FC_ADD:
        if key not in model["flows"] and \
            len(model["flows"]) >= cfg["max_entries"]:
          # refused: one error, and that is the whole answer (nothing else
          # about the request is processed)
          E("error", xid, etype=W.ET_FLOW_MOD_FAILED,
            code=W.FMFC_ALL_TABLES_FULL, req=raw)
          if st.get("fbuf") is not None:
            sim.probes["refused_flow_mod_names_buffer"] += 1
        else:
          model["flows"][key] = {"cookie": st["cookie"], "actions": acts,
                                 "packets": 0, "bytes": 0}
          if st.get("fbuf") is not None:
            E("error", xid, etype=W.ET_BAD_REQUEST,
              codes=(W.BRC_BUFFER_UNKNOWN, W.BRC_BUFFER_EMPTY), req=raw)
      elif st["cmd"] == W.FC_DELETE:
        # DELETE with description m removes what m subsumes; the C13
        # alphabet keeps this simple: only identical or match-all
        cm = W.canon_match(m)
        for key in list(model["flows"]):
          if _subsumes(dict(cm), dict(key[0])):
            del model["flows"][key]
      else:
        E("error", xid, etype=W.ET_FLOW_MOD_FAILED, code=W.FMFC_BAD_COMMAND,
          req=raw, kf="C13-flowmod-badcmd-nameerror")
    elif op == "packet_out":
      live = False
      if st["buffer"] == "live":
        sim.drain()
        pending_flush = False
        world.pump()
        ids = [d["buffer_id"] for d in world.rx_frames
               if d["type"] == W.PACKET_IN and "malformed" not in d
               and d.get("buffer_id") not in (None, W.NO_BUFFER)
               and d["buffer_id"] not in used_buffers]
        if ids:
          st = dict(st, buffer=ids[-1])
          used_buffers.add(ids[-1])
          live = True
          sim.probes["packet_out_live_buffer"] += 1
        else:
          # (none held: an id that cannot exist, and no second thing wrong
          # with the request, so that the one error is predictable)
          st = dict(st, buffer=0x7ffffff0, badact=None)
      if st["buffer"] is not None:
        used_buffers.add(st["buffer"])   # (also ids named by chance)
      data = _frame(0) if st["buffer"] is None else b""
      if st.get("nact"):
        sim.probes["huge_refused_packet_out"] += 1
      bid = W.NO_BUFFER if st["buffer"] is None else st["buffer"]
      if st.get("both") is not None and st["buffer"] is None:
        bid = st["both"]
        used_buffers.add(bid)
        sim.probes["packet_out_data_and_buffer"] += 1
      acts = [("output", st["outp"], 0)] * st.get("nact", 1)
      if st.get("vrw"):
        acts = [tuple(st["vrw"])] + acts
        sim.probes["packet_out_with_vlan_rewrite"] += 1
      if st.get("badact") is not None:
        bad = ("raw", struct.pack("!HHL", st["badact"], 8, 0x2320))
        acts = acts + [bad] if st.get("badpos") else [bad] + acts
        if live:
          sim.probes["bad_action_on_live_buffer"] += 1
      raw = W.enc_packet_out(xid, bid, st["inp"], acts, data)
      world.send(raw)
      if st.get("both") is not None and st["buffer"] is None:
        if st.get("badact") is not None:
          # something is wrong with it whichever of the two is used: one
          # error (unknown action or unknown buffer), about this request
          E("any", xid, types=(), req=raw)
        else:
          E("maybe_error", xid, req=raw)
      elif st.get("badact") is not None:
        E("error", xid, etype=W.ET_BAD_ACTION,
          codes=(W.BAC_BAD_TYPE, W.BAC_BAD_VENDOR, W.BAC_BAD_VENDOR_TYPE),
          req=raw)
      if st["buffer"] is not None:
        # no buffer with that id can exist unless a frame step created it;
        # the C13 model does not track buffers, so only demand an error when
        # the id is certainly unknown (> max_buffers)
        if live:
          pass            # a held packet: nothing to complain about
        elif st["buffer"] > cfg["max_buffers"]:
          E("error", xid, etype=W.ET_BAD_REQUEST, codes=(W.BRC_BUFFER_UNKNOWN,
                                                         W.BRC_BUFFER_EMPTY),
            req=raw, kf="C13-unknown-buffer-silence")
        else:
          E("maybe_error", xid, req=raw)
    elif op == "port_mod":
      pno = st["port"]
      mp = model["ports"].get(pno)
      hw = (mp["hw"] if (mp and st["hw_ok"]) else b"\x02\xee\xee\xee\xee\xee")
      raw = W.enc_port_mod(xid, pno, hw, st["config"], st["mask"])
      world.send(raw)
      if mp is None:
        E("error", xid, etype=W.ET_PORT_MOD_FAILED, code=W.PMFC_BAD_PORT,
          req=raw)
      elif not st["hw_ok"]:
        E("error", xid, etype=W.ET_PORT_MOD_FAILED, code=W.PMFC_BAD_HW_ADDR,
          req=raw)
      else:
        handled = (W.PC_PORT_DOWN | W.PC_NO_RECV | W.PC_NO_RECV_STP |
                   W.PC_NO_FLOOD | W.PC_NO_FWD | W.PC_NO_PACKET_IN)
        msk = st["mask"] & handled
        mp["config"] = (mp["config"] & ~msk) | (st["config"] & msk)
        if mp["config"] & W.PC_PORT_DOWN:
          mp["state"] |= W.PS_LINK_DOWN
        else:
          mp["state"] &= ~W.PS_LINK_DOWN
    elif op == "frame":
      # a data-plane frame: produces only asynchronous messages
      if pending_flush:
        sim.drain()
        pending_flush = False
      raw = _frame(st["h"])
      mp = model["ports"].get(st["port"])
      if mp is None:
        continue          # (unplugged meanwhile)
      if mp["config"] & W.PC_PORT_DOWN:
        continue          # a frame cannot arrive on a port that is down
      world.inject(st["port"], raw)
      if not mp["config"] & W.PC_NO_RECV:
        model["rx"][st["port"]][0] += 1
        model["rx"][st["port"]][1] += len(raw)
        model["lookups"] += 1
    elif op in ("del_port", "add_port"):
      if pending_flush:
        sim.drain()
        pending_flush = False
      pno = st["port"]
      if op == "del_port" and pno in model["ports"]:
        sw.delete_port(pno)
        del model["ports"][pno]
        del model["rx"][pno]
        sim.probes["port_deleted_locally"] += 1
      elif op == "add_port" and pno not in model["ports"]:
        np_ = sw.generate_port(pno, name="p%d" % pno)
        sw.add_port(np_)
        model["ports"][pno] = {"hw": np_.hw_addr.toRaw(),
                               "config": np_.config, "state": np_.state}
        model["rx"][pno] = [0, 0]
        sim.probes["port_added_locally"] += 1
    elif op == "advance":
      sim.advance(st["dt"])
    if st.get("flush"):
      sim.drain()
      pending_flush = False
      world.pump()
    else:
      pending_flush = True
  sim.drain()
  sim.advance(0.25)
  sim.drain()
  replies = [d for d in world.collect() if d["type"] not in ASYNC]
  sim.ev("replies", [(d["type"], d["xid"], d["len"]) for d in replies])
  if world.ctl.rx_eof or world.ctl.rx_reset:
    raise Violation("connection-dropped", "switch closed the control "
                    "connection during a request sequence")
  if world.bad_stream:
    raise Violation("garbage-from-switch", "switch wrote an unframeable "
                    "stream")
  _pair(sim, expect, replies, known, hit_known)
  if sim.task_deaths:
    raise Violation("task-died", "a scheduler task was de-scheduled by an "
                    "exception: %r" % (sim.task_deaths[:2],))


def _subsumes(d, e):
  for f, v in d.items():
    if v is None:
      continue
    ev = e.get(f)
    if ev is None:
      return False
    if isinstance(v, tuple):
      if v[1] > ev[1]:
        return False
      mask = (0xffffffff << (32 - v[1])) & 0xffffffff
      if (ev[0] & mask) != (v[0] & mask):
        return False
    elif v != ev:
      return False
  return True


def _stats(world, model, st, xid, E, nports):
  t = st["stype"]
  sflags = st.get("sflags", 0)

  def send(raw):
    # (the request's flags field is reserved in 1.0: whatever stands there,
    # the reply is the reply)
    if sflags and len(raw) >= 12:
      raw = raw[:10] + struct.pack("!H", sflags) + raw[12:]
      world.sim.probes["stats_request_with_reserved_flags"] += 1
    world.send(raw)
  if t == "desc":
    send(W.enc_stats_request(xid, W.ST_DESC))
    E("stats", xid, stype=W.ST_DESC)
  elif t in ("flow", "aggregate"):
    sm = _match_alphabet(st.get("sm", 0), nports)
    so = st.get("sout", W.OFPP_NONE)
    raw = W.enc_flow_stats_request(xid, sm, st["table"], out_port=so,
                                   aggregate=(t == "aggregate"))
    send(raw)
    flows = dict(model["flows"]) if st["table"] in (0, 0xff) else {}
    csm = dict(W.canon_match(sm))
    flows = {k: v for k, v in flows.items()
             if _subsumes(csm, dict(k[0]))
             and (so == W.OFPP_NONE
                  or any(a[0] == "output" and a[1] == so
                         for a in v["actions"]))}
    if st["table"] in (0, 0xff):
      E("stats", xid, stype=W.ST_FLOW if t == "flow" else W.ST_AGGREGATE,
        flows={k: dict(v) for k, v in flows.items()})
    else:
      # a table the switch does not have: spec names no error; accept a
      # single reply (of that stats type) or error
      E("any", xid, types=(W.STATS_REPLY,), req=raw)
  elif t == "table":
    send(W.enc_stats_request(xid, W.ST_TABLE))
    E("stats", xid, stype=W.ST_TABLE, active=len(model["flows"]),
      lookups=model["lookups"], kf="C13-table-stats-unencodable")
  elif t == "port":
    raw = W.enc_port_stats_request(xid, st["port"])
    send(raw)
    if st["port"] == W.OFPP_NONE:
      E("stats", xid, stype=W.ST_PORT,
        rx={p: list(v) for p, v in model["rx"].items()})
    elif st["port"] in model["ports"]:
      E("stats", xid, stype=W.ST_PORT,
        rx={st["port"]: list(model["rx"][st["port"]])})
    else:
      E("any", xid, types=(W.STATS_REPLY,), req=raw,
        kf="C13-port-stats-unknown-port-silence")
  elif t == "queue":
    raw = W.enc_queue_stats_request(xid, st["port"], st["queue"])
    send(raw)
    E("any", xid, types=(W.STATS_REPLY,), req=raw, stype=W.ST_QUEUE)
  elif t == "bad":
    raw = W.enc_stats_request(xid, st["code"],
                              b"\0\0\x23\x20" if st["code"] == 0xffff
                              else b"")
    send(raw)
    if st["code"] == 0xffff:
      # vendor stats: BAD_VENDOR or BAD_STAT are both defensible
      E("error", xid, etype=W.ET_BAD_REQUEST,
        codes=(W.BRC_BAD_STAT, W.BRC_BAD_VENDOR), req=raw)
    else:
      E("error", xid, etype=W.ET_BAD_REQUEST, code=W.BRC_BAD_STAT, req=raw)


def _merge_multipart(sim, replies):
  """A statistics reply may come in parts: consecutive STATS_REPLY messages
  of one xid and type, all but the last flagged OFPSF_REPLY_MORE (1).  They
  are one reply; their entry lists are concatenated in order."""
  out = []
  for d in replies:
    p = out[-1] if out else None
    if (p is not None and d["type"] == W.STATS_REPLY
        and p["type"] == W.STATS_REPLY and p.get("flags") == 1
        and "malformed" not in d and "malformed" not in p
        and d["xid"] == p["xid"] and d.get("stype") == p.get("stype")
        and d.get("stype") in (W.ST_FLOW, W.ST_PORT, W.ST_TABLE, W.ST_QUEUE)):
      m = dict(p)
      for k in ("flows", "ports", "tables", "queues"):
        if k in p or k in d:
          m[k] = list(p.get(k, ())) + list(d.get(k, ()))
      m["flags"] = d.get("flags")
      m["len"] = p["len"] + d["len"]
      m["parts"] = p.get("parts", 1) + 1
      out[-1] = m
      sim.probes["stats_reply_part_merged"] += 1
    else:
      out.append(d)
  return out


def _pair(sim, expect, replies, known, hit_known):
  replies = _merge_multipart(sim, replies)
  ri = 0
  for e in expect:
    d = replies[ri] if ri < len(replies) else None
    ok, why = _satisfies(e, d)
    if ok is None:
      # optional expectation not met by this reply: skip expectation
      continue
    if not ok:
      kf = e.get("kf")
      if kf and kf in known and (d is None or not _claims(e, d)):
        # the listed finding: this request was met with silence
        hit_known.append(kf)
        sim.probes["known_" + kf] += 1
        continue
      raise Violation(e["what"] + "/" + e["kind"] + "/" + why[0],
                      "request #%d kind=%s xid=%#x: %s; got %s"
                      % (expect.index(e), e["kind"], e["xid"], why[1],
                         _brief(d)))
    sim.probes["answered_" + e["kind"]
               + ("_%d" % e["stype"] if "stype" in e else "")] += 1
    ri += 1
  if ri < len(replies):
    raise Violation("unsolicited-reply",
                    "switch sent %d message(s) no request accounts for, "
                    "first: %s" % (len(replies) - ri, _brief(replies[ri])))


def _norm_actions(acts):
  # max_len only has meaning for output:CONTROLLER
  out = []
  for a in acts:
    a = tuple(a)
    if a[0] == "output" and a[1] != W.OFPP_CONTROLLER:
      a = ("output", a[1], 0)
    out.append(a)
  return out


def _claims(e, d):
  """Does reply d look like it is addressed to expectation e (same xid and a
  plausible type)?  Used only to keep a known 'silence' finding from
  swallowing a wrong reply."""
  if d["xid"] != e["xid"]:
    return False
  if e["kind"] == "stats":
    return d["type"] in (W.STATS_REPLY, W.ERROR)
  if e["kind"] in ("error", "any"):
    return d["type"] == W.ERROR or d["type"] in e.get("types", ())
  return False


def _brief(d):
  if d is None:
    return "nothing (silence)"
  s = "%s xid=%#x len=%d" % (d["name"], d["xid"], d["len"])
  if d["type"] == W.ERROR:
    s += " etype=%d code=%d" % (d.get("etype", -1), d.get("code", -1))
  if d["type"] == W.STATS_REPLY:
    s += " stype=%d" % d.get("stype", -1)
  return s


def _err_data_ok(e, d):
  req = e.get("req")
  if req is None:
    return True
  # The specification asks for "at least 64 bytes of the failed request".
  # pox re-encodes the decoded request, which may legitimately normalise
  # ignored fields, so only the header (version, type, length, xid) is
  # compared byte for byte and the rest by length.
  data = d.get("data", b"")
  need = min(64, len(req))
  return len(data) >= need and data[:8] == req[:8]


def _satisfies(e, d):
  k = e["kind"]
  if k == "maybe_error":
    if (d is not None and d["type"] == W.ERROR and d["xid"] == e["xid"]
        and d.get("data", b"")[:8] == e["req"][:8]):
      return True, None
    return None, None
  if d is None:
    return False, ("silence", "no reply or error at all")
  if "malformed" in d:
    return False, ("malformed", "reply body malformed: %s" % d["malformed"])
  if k == "hello":
    if d["type"] != W.HELLO:
      return False, ("type", "expected HELLO")
    return True, None
  if d["xid"] != e["xid"]:
    return False, ("xid", "expected xid %#x" % e["xid"])
  if k == "error":
    if d["type"] != W.ERROR:
      return False, ("not-error", "expected an error etype=%d" % e["etype"])
    codes = e.get("codes", (e.get("code"),))
    if d["etype"] != e["etype"] or d["code"] not in codes:
      return False, ("code", "expected error %d/%s" % (e["etype"], codes))
    if not _err_data_ok(e, d):
      return False, ("data", "error data is not the offending request")
    return True, None
  if k == "any":
    if d["type"] == W.ERROR:
      if not _err_data_ok(e, d):
        return False, ("data", "error data is not the offending request")
      return True, None
    if d["type"] in e["types"]:
      if "stype" in e and d.get("stype") != e["stype"]:
        return False, ("stype", "stats reply of wrong type")
      return True, None
    return False, ("type", "expected one of %s or an error" % (e["types"],))
  if k == "echo":
    if d["type"] != W.ECHO_REPLY:
      return False, ("type", "expected ECHO_REPLY")
    if d["body"] != e["body"]:
      return False, ("body", "echo body differs")
    return True, None
  if k == "barrier":
    if d["type"] != W.BARRIER_REPLY:
      return False, ("type", "expected BARRIER_REPLY")
    return True, None
  if k == "get_config":
    if d["type"] != W.GET_CONFIG_REPLY:
      return False, ("type", "expected GET_CONFIG_REPLY")
    if (d["flags"], d["miss_send_len"]) != (e["flags"], e["msl"]):
      return False, ("content", "expected flags=%d msl=%d got %d/%d"
                     % (e["flags"], e["msl"], d["flags"],
                        d["miss_send_len"]))
    return True, None
  if k == "features":
    if d["type"] != W.FEATURES_REPLY:
      return False, ("type", "expected FEATURES_REPLY")
    got = {p["port_no"]: p for p in d["ports"]}
    if set(got) != set(e["ports"]):
      return False, ("ports", "port set differs")
    for no, mp in e["ports"].items():
      g = got[no]
      if (g["hw_addr"], g["config"]) != (mp["hw"], mp["config"]):
        return False, ("ports", "port %d: expected config=%#x got %#x"
                       % (no, mp["config"], g["config"]))
    if d["n_tables"] < 1:
      return False, ("content", "n_tables < 1")
    return True, None
  if k == "queue_config":
    if d["type"] != W.QUEUE_GET_CONFIG_REPLY:
      return False, ("type", "expected QUEUE_GET_CONFIG_REPLY")
    if d["port"] != e["port"]:
      return False, ("content", "reply names port %d" % d["port"])
    return True, None
  if k == "stats":
    if d["type"] != W.STATS_REPLY:
      return False, ("type", "expected STATS_REPLY")
    if d["stype"] != e["stype"]:
      return False, ("stype", "expected stats type %d got %d"
                     % (e["stype"], d["stype"]))
    if d.get("flags"):
      return False, ("flags", "the reply (all there is of it) carries flags "
                     "%#x: more parts announced / undefined bits"
                     % d["flags"])
    st = e["stype"]
    if st == W.ST_FLOW:
      got = {}
      for f in d["flows"]:
        got[(W.canon_match(f["match"]), f["priority"])] = f
      want = e["flows"]
      if set(got) != set(want) or len(d["flows"]) != len(want):
        return False, ("content", "flow stats list %d entries, model has %d"
                       % (len(d["flows"]), len(want)))
      for key, mf in want.items():
        f = got[key]
        if f["cookie"] != mf["cookie"] or \
            _norm_actions(f["actions"]) != _norm_actions(mf["actions"]):
          return False, ("content", "flow entry cookie/actions differ")
    elif st == W.ST_AGGREGATE:
      if d["flow_count"] != len(e["flows"]):
        return False, ("content", "aggregate flow_count %d, model %d"
                       % (d["flow_count"], len(e["flows"])))
    elif st == W.ST_TABLE:
      if not d["tables"]:
        return False, ("content", "no table in table stats")
      t0 = d["tables"][0]
      if t0["active_count"] != e["active"]:
        return False, ("content", "active_count %d, model %d"
                       % (t0["active_count"], e["active"]))
      if t0["lookup_count"] != e["lookups"]:
        return False, ("content", "lookup_count %d, model %d"
                       % (t0["lookup_count"], e["lookups"]))
    elif st == W.ST_PORT:
      got = {p["port_no"]: p for p in d["ports"]}
      if set(got) != set(e["rx"]) or len(d["ports"]) != len(e["rx"]):
        return False, ("content", "port stats for ports %s, expected %s"
                       % (sorted(got), sorted(e["rx"])))
      for p, (pk, by) in e["rx"].items():
        if (got[p]["rx_packets"], got[p]["rx_bytes"]) != (pk, by):
          return False, ("content", "port %d rx %d/%d, model %d/%d"
                         % (p, got[p]["rx_packets"], got[p]["rx_bytes"],
                            pk, by))
    return True, None
  return False, ("harness", "unknown expectation kind " + k)
