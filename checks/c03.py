"""
C03 -- flow match and lookup semantics agree with OpenFlow 1.0.

World: SW, refinement via worlds.swref.  The model's matcher
(models.rawframe.lookup_key / key_matches) extracts fields from raw bytes
and shares no code with ofp_match.
"""

from simkit.rng import Rng, mix
from worlds import swref
from checks import swgen as G
from models import of10wire as W

PROP = "C03"
LEVEL = "exploration"
BUDGET = {"quick": 4000, "thorough": 300000}
RULE = ("Each run: 3-8 concrete frames (untagged/VLAN, IPv4 TCP/UDP/ICMP "
        "incl. fragments, options and ToS, ARP, LLC, SNAP, other ethertypes) "
        "are generated; a table of 1-12 entries is installed through the "
        "byte-level control connection whose matches are derived from those "
        "frames' lookup keys by wildcarding random field subsets, choosing "
        "IP prefix lengths biased to 0/1/8/16/24/31/32, perturbing one field "
        "(near misses), with arbitrary priorities incl. ties and exact-match "
        "entries; then the frames are injected on ports and the entry whose "
        "counters advanced is compared with the model's acceptable set (all "
        "matching entries of maximal effective priority; miss iff none).  "
        "Non-trivial = at least one hit and one miss and >= 3 installed "
        "entries; distinct = distinct event-log digest.")
ASSUMPTIONS = [
  "the per (match, frame) predicate is input-quantified; simulation samples "
  "it inside table histories and does not enumerate 2^10 x 33 x 33",
  "only canonical matches are generated (DESIGN.md 5a); ECN bits zero; "
  "exact-match entries only for IPv4 TCP/UDP/ICMP",
  "a datagram cut off inside its TCP/UDP/ICMP header has no tp_src/tp_dst "
  "and an ARP packet whose opcode exceeds 255 has no nw_proto/nw_src/"
  "nw_dst: such a frame matches an entry only if the entry wildcards those "
  "fields (also when the required value is 0)",
  "among equal-priority overlapping entries OF1.0 leaves the winner open: "
  "the model accepts any of them and follows the implementation's choice",
]
REAL = ["pox.openflow.libopenflow_01.ofp_match (from_packet, "
        "matches_with_wildcards, wire (un)normalisation)",
        "pox.openflow.flow_table.FlowTable (entry_for_packet, add_entry)",
        "pox.datapaths.switch.SoftwareSwitch.rx_packet", "pox.lib.packet",
        "OFConnection / IO worker / recoco scheduler"]
STUBBED = ["socket/select/time/pinger (simkit)", "controller peer (scripted)",
           "hosts (frames injected)"]
EXPECT_PROBES = ["frame_kind_ip6", "lookup_hit", "lookup_miss", "lookup_tie", "lookup_exact",
                 "frame_lacks_a_field"]


def gen_plan(seed, tier):
  r = Rng(seed)
  cfg = G.sw_cfg(r, max_entries=0x7fffffff, expire_period=2,
                 max_buffers=r.pick([0, 100]),
                 miss_send_len=r.pick([128, 1500]))
  nports = cfg["nports"]
  frames = []
  for _ in range(r.randint(3, 8)):
    frames.append((G.gen_frame(r, rich=True, nhosts=r.pick([2, 4]),
                               trunc=True),
                   r.randint(1, nports)))
  r8 = Rng(mix(seed, "ip6"))
  if r8.chance(0.12):
    # IPv6 traffic: to an OpenFlow 1.0 table a dl_type like any other non-IP
    # one (no nw_* / tp_* field has its prerequisite met, whatever an entry's
    # wire form says about them)
    for i in range(len(frames)):
      if r8.chance(0.5):
        old, port = frames[i]
        frames[i] = ({"kind": "ip6", "src": old["src"], "dst": old["dst"],
                      "vlan": old.get("vlan"), "paylen": r8.pick([0, 8, 40]),
                      "pseed": r8.randrange(256), "nh": r8.pick([59, 253]),
                      "tc": r8.pick([0, 0, 0xb8]), "fl": r8.pick([0, 0x12345]),
                      "h6": r8.randint(1, 9)}, port)
  rl = Rng(mix(seed, "local"))
  if rl.chance(0.15):
    # some of the traffic comes from the switch's local port
    cfg["local_port"] = True
    frames = [(fs, 0xfffe if rl.chance(0.4) else p) for fs, p in frames]
  r4 = Rng(mix(seed, "dst"))
  for fs, _ in frames:
    # destination addresses the datapath gives special meaning elsewhere
    # (spanning tree group and its neighbours, broadcast): to the table they
    # are addresses like any other
    if r4.chance(0.12):
      fs["dst"] = r4.pick(["0180c2000000", "0180c2000000", "0180c2000001",
                           "0180c200000e", "ffffffffffff", "01005e000001"])
  steps = []
  nent = r.randint(1, 12)
  for i in range(nent):
    fs, port = r.pick(frames)
    key = G.frame_key(fs, port)
    exact = r.chance(0.12) and key["dl_type"] == 0x0800 and \
        key["nw_proto"] in (1, 6, 17)
    m = G.match_from_key(key, r, keep=r.pick([0.15, 0.4, 0.7, 0.9]),
                         exact=exact)
    if not exact and r.chance(0.25):
      m = G.perturb(m, r)
    steps.append({"op": "flow_mod", "m": m, "cmd": W.FC_ADD,
                  "prio": 0x8000 if exact else r.pick([0, 1, 7, 7, 100,
                                                       0x8000, 0xffff]),
                  "acts": [["output", r.randint(1, nports), 0]],
                  "cookie": i, "idle": 0, "hard": 0, "flags": 0})
  nfr = r.randint(4, 30 if tier == "thorough" else 16)
  for _ in range(nfr):
    fs, port = r.pick(frames)
    if r.chance(0.25):
      port = r.randint(1, nports)
    if r.chance(0.1):
      fs = G.gen_frame(r, rich=True)
    steps.append({"op": "frame", "port": port, "f": fs,
                  "with_data": r.chance(0.7)})
    if r.chance(0.08):
      fs2, port2 = r.pick(frames)
      key = G.frame_key(fs2, port2)
      steps.append({"op": "flow_mod", "m": G.match_from_key(key, r),
                    "cmd": r.pick([W.FC_ADD, W.FC_DELETE]),
                    "prio": r.pick([1, 7, 100]),
                    "acts": [["output", r.randint(1, nports), 0]],
                    "cookie": 99, "idle": 0, "hard": 0, "flags": 0})
  r.shuffle(steps) if r.chance(0.3) else None
  rfd = Rng(mix(seed, "fragdrop"))
  if rfd.chance(0.15):
    # the controller has asked for fragments to be dropped: that concerns
    # fragments; a whole datagram (DF or not) is looked up as ever
    steps.insert(rfd.randint(0, len(steps) // 2),
                 {"op": "set_config", "flags": 1, "msl": cfg["miss_send_len"]})
  return {"prop": PROP, "seed": seed, "cfg": cfg, "steps": steps}


def run_plan(plan):
  res = swref.run(plan, PROP)
  p = res["probes"]
  res["nontrivial"] = bool(p.get("lookup_hit") and p.get("lookup_miss")
                           and p.get("fm_cmd_0_ok", 0) >= 3)
  return res
