"""
C17 -- the controller's picture of switch ports and multipart statistics
is exact.

World: CTL (real Connection / PortCollection / handlers / stats
reassembly), one or two scripted switch peers.
"""

import struct

from simkit import sim as S
from simkit.rng import Rng, mix
from simkit.check import load_known
from worlds.ctl import CTLWorld, handshake_script
from models import of10wire as W
from models import rawframe as F

PROP = "C17"
LEVEL = "exploration"
BUDGET = {"quick": 6000, "thorough": 600000}
RULE = ("Each run: a features reply with 0-4 ports, then a seeded history of "
        "up to 12 port_status messages over 4 port numbers (add, modify incl. "
        "rename and hw-address change, delete, re-add of a deleted port, "
        "delete of an unknown port) and statistics replies of every "
        "multipart-capable type split into 1-6 parts (MORE flag), "
        "interleaved with other message types, with a second request's reply "
        "(sequential, after an abandoned partial reply, or part-by-part "
        "interleaved) and with connection loss mid-reply, all over a "
        "segmented byte stream; after every message the mapping API of "
        "con.ports (len, iteration, keys/values/items, in, indexing by "
        "number, name and EthAddr, get) is compared with a model dict and "
        "con.original_ports with the features reply; aggregated stats events "
        "must fire exactly once per completed reply with exactly its parts' "
        "entries in order.  Non-trivial = a port was renamed/re-addressed or "
        "re-added and a reply of >= 2 parts completed; distinct = distinct "
        "event-log digest.")
ASSUMPTIONS = [
  "port names and hardware addresses are unique among the current ports "
  "(lookups by a shared name would be ambiguous)",
  "entries are identified by a unique tag field per stats type (flow: "
  "cookie, table: active_count, port: rx_packets, queue: tx_bytes)",
]
REAL = ["pox.openflow.of_01 PortCollection, Connection._incoming_stats_reply, "
        "handle_OFPST_*, DefaultOpenFlowHandlers", "OpenFlow_01_Task",
        "nexus events", "libopenflow_01 codec", "recoco scheduler"]
STUBBED = ["socket/select/time/pinger (simkit)", "switch peer (scripted)"]
EXPECT_PROBES = ["ps_add", "ps_modify", "ps_delete", "ps_readd", "ps_rename",
                 "ps_rehw", "ps_delete_unknown", "stats_multipart_done",
                 "stats_abandoned", "stats_interleaved", "stats_single",
                 "glued_to_handshake_end", "stats_part_64k",
                 "second_features_reply_in_handshake",
                 "port_view_read_inside_handler"]

MULTI = {W.ST_FLOW: "FlowStatsReceived", W.ST_TABLE: "TableStatsReceived",
         W.ST_PORT: "PortStatsReceived", W.ST_QUEUE: "QueueStatsReceived"}
SINGLE = {W.ST_DESC: "SwitchDescReceived",
          W.ST_AGGREGATE: "AggregateFlowStatsReceived"}


_NAMES = ["eth"]       # this run's interface naming scheme (set by run_plan)


def _name(no, name_v):
  if _NAMES[0] == "digits":
    # interfaces named by bare numbers -- and not their own: the name of
    # one port reads like the number of another (or of none)
    return str(5 - no) if not name_v else str(10 + no)
  return ("eth%d" if not name_v else "ren%d") % no


def _port(no, name_v=0, hw_v=0, config=0):
  return {"port_no": no, "hw_addr": F.mac((0x100 if not hw_v else 0x200) + no),
          "name": _name(no, name_v),
          "config": config, "state": 0}


def gen_plan(seed, tier):
  r = Rng(seed)
  cfg = {"segment": r.chance(0.5), "delay": r.chance(0.2),
         "recv_mode": r.pick(["all", "choose", "dribble"]),
         "ports0": sorted(r.sample([1, 2, 3, 4], r.randint(0, 4))),
         # some component listens to the raw per-part event on the nexus and
         # halts it (for all parts / for a seeded half of them)
         "halt_raw": r.pick(["", "", "", "all", "some"]),
         # a second switch is connected at the same time, with port numbers
         # in common, and gets port-status messages of its own
         "neighbour": r.chance(0.5)}
  # the first k messages of the history follow the handshake-ending barrier
  # reply in the same write (one recv() may hold all of them)
  cfg["glue"] = Rng(mix(seed, "glue")).pick([0, 0, 0, 1, 2, 4])
  # port-status messages that arrive while the handshake is still waiting
  # for its barrier reply (buffered, applied once the connection is up)
  cfg["early_ps"] = [
    {"reason": r.wpick([(3, 0), (4, 2), (3, 1)]), "port": r.randint(1, 2),
     "name_v": r.pick([0, 1]), "hw_v": r.pick([0, 0, 1]), "config": 0}
    for _ in range(r.wpick([(5, 0), (2, 2), (2, 3)]))]
  rf = Rng(mix(seed, "again"))
  if cfg["early_ps"] and rf.chance(0.3):
    # the features reply arrives a second time during the handshake (with
    # another port list), before / between / after the early port-status
    cfg["features_again"] = {
      "at": rf.randint(0, len(cfg["early_ps"])),
      "ports": sorted(rf.sample([1, 2, 3, 4], rf.randint(0, 4))),
      "name_v": rf.pick([0, 1])}
  steps = []
  n = r.randint(4, 30 if tier == "thorough" else 18)
  tag = [1000]
  reqs = []       # open multipart replies: dict(xid, stype, left)
  completed = []  # (xid, stype) of replies that have completed
  xid = [0x9000]
  for _ in range(n):
    k = r.wpick([(8, "ps"), (8, "stats"), (2, "noise"), (1, "settle")])
    if k == "ps":
      steps.append({"op": "ps", "reason": r.wpick([(3, 0), (4, 2), (3, 1)]),
                    "port": r.randint(1, 4), "name_v": r.pick([0, 0, 1]),
                    "hw_v": r.pick([0, 0, 1]),
                    "config": r.pick([0, 1, 0x40]),
                    "who": 1 if (cfg["neighbour"] and r.chance(0.4)) else 0})
    elif k == "stats":
      if reqs and r.chance(0.7):
        q = reqs[-1] if r.chance(0.7) else r.pick(reqs)   # continue one
      else:
        xid[0] += 1
        st = r.wpick([(4, W.ST_FLOW), (2, W.ST_TABLE), (3, W.ST_PORT),
                      (2, W.ST_QUEUE), (1, W.ST_DESC), (1, W.ST_AGGREGATE)])
        x = xid[0]
        if completed and r.chance(0.2):
          # a later request may legitimately reuse the xid (and type) of a
          # request whose reply has completed
          x, st = r.pick(completed)
        q = {"xid": x, "stype": st,
             "left": 1 if st in SINGLE else r.randint(1, 6)}
        reqs.append(q)
      q["left"] -= 1
      more = q["left"] > 0
      ne = r.randint(0, 3)
      tags = list(range(tag[0], tag[0] + ne))
      tag[0] += ne
      steps.append({"op": "stats", "xid": q["xid"], "stype": q["stype"],
                    "more": more, "tags": tags})
      if not more:
        reqs.remove(q)
        if not any(o["xid"] == q["xid"] for o in reqs):
          completed.append((q["xid"], q["stype"]))
      elif r.chance(0.15):
        reqs.remove(q)        # abandoned: its remaining parts never come
    elif k == "noise":
      steps.append({"op": r.pick(["echo", "packet_in", "barrier"])})
    else:
      steps.append({"op": "settle"})
    if r.chance(0.03):
      steps.append({"op": "lose"})
  rn = Rng(mix(seed, "noise2"))
  for st in steps:
    # further things a switch says between the parts of a reply: errors about
    # other requests (any type / code / xid, the pending reply's included in
    # the xid only), flow-removed notices, a get-config reply
    if st["op"] in ("echo", "packet_in", "barrier") and rn.chance(0.5):
      st["op"] = rn.pick(["error", "error", "flow_removed", "config_reply"])
      if st["op"] == "error":
        st["etype"], st["code"] = rn.pick([[1, 8], [1, 7], [1, 0], [1, 2],
                                           [3, 0], [2, 4], [4, 0]])
        st["same_xid"] = rn.chance(0.25)
  r7 = Rng(mix(seed, "big"))
  if r7.chance(0.03):
    # a table dump: one flow-stats reply of 17-20 nearly full (64 KB) parts,
    # well over a megabyte before its last part arrives
    nparts = r7.randint(17, 20)
    per = r7.pick([650, 680])
    big = [{"op": "stats", "xid": 0xb16, "stype": W.ST_FLOW,
            "more": k < nparts - 1, "tagrange": [100000 + k * per, per]}
           for k in range(nparts)]
    at = r7.randint(0, len(steps))
    # (not inside another reply's parts: that is the listed finding)
    while at < len(steps) and steps[at].get("op") == "stats":
      at += 1
    steps[at:at] = big
    cfg["big_reply"] = True
    if cfg["recv_mode"] == "dribble":
      cfg["recv_mode"] = "choose"
  cfg["names"] = "digits" if Rng(mix(seed, "names")).chance(0.25) else "eth"
  cfg["no_barrier"] = Rng(mix(seed, "nobarrier")).chance(0.25)
  return {"prop": PROP, "seed": seed, "cfg": cfg, "steps": steps}


class Violation(Exception):
  def __init__(self, vclass, detail):
    Exception.__init__(self, vclass, detail)
    self.vclass = vclass
    self.detail = detail


def run_plan(plan):
  cfg = plan["cfg"]
  sim = S.Sim(mix(plan["seed"], "run"), calm=plan.get("calm", False))
  S.install(sim)
  sim.net_segment = cfg.get("segment", False)
  sim.net_delay = cfg.get("delay", False)
  sim.recv_mode = cfg.get("recv_mode", "all")
  known = load_known(PROP)
  hit = []
  res = {"verdict": "ok"}
  _NAMES[0] = cfg.get("names", "eth")
  sim.probes["port_names_" + _NAMES[0]] += 1
  try:
    _drive(sim, plan, known, hit)
  except Violation as v:
    res.update(verdict="violation", vclass=v.vclass, detail=v.detail)
  except S.SimAbort as a:
    if a.vclass == "harness":
      res.update(verdict="error", detail=a.detail)
    else:
      res.update(verdict="violation", vclass=a.vclass, detail=a.detail)
  res["digest"] = sim.digest()
  res["sim_time"] = sim.now - S.T0
  res["steps"] = len(plan["steps"])
  res["known"] = sorted(set(hit))
  res["stats"] = dict(sim.stats)
  res["probes"] = dict(sim.probes)
  p = sim.probes
  res["nontrivial"] = bool((p.get("ps_rename") or p.get("ps_rehw")
                            or p.get("ps_readd"))
                           and p.get("stats_multipart_done"))
  return res


def _stats_body(stype, tags):
  if stype == W.ST_FLOW:
    return b"".join(W.enc_flow_stats_entry({"in_port": 1}, [("output", 1, 0)],
                                           cookie=t) for t in tags)
  if stype == W.ST_TABLE:
    return b"".join(W.enc_table_stats_entry(table_id=i, active=t)
                    for i, t in enumerate(tags))
  if stype == W.ST_PORT:
    return b"".join(W.enc_port_stats_entry(1 + i, [t] + [0] * 11)
                    for i, t in enumerate(tags))
  if stype == W.ST_QUEUE:
    return b"".join(W.enc_queue_stats_entry(1, i, tx_bytes=t)
                    for i, t in enumerate(tags))
  if stype == W.ST_DESC:
    return W.enc_desc_stats()
  return struct.pack("!QQLxxxx", 1, 2, 3)


def _tags_of(stype, stats):
  if stype == W.ST_FLOW:
    return [e.cookie for e in stats]
  if stype == W.ST_TABLE:
    return [e.active_count for e in stats]
  if stype == W.ST_PORT:
    return [e.rx_packets for e in stats]
  if stype == W.ST_QUEUE:
    return [e.tx_bytes for e in stats]
  return None


def _features_again(sim, peer, xid, again):
  """the switch answers the features request once more, still during the
  handshake; the controller then waits for a new barrier"""
  sim.drain()
  peer.take()
  peer.send(W.enc_features_reply(xid, 0x99, [_port(no, again["name_v"])
                                             for no in again["ports"]]))
  sim.drain()
  br = [d for d in peer.take() if d["type"] == W.BARRIER_REQUEST]
  sim.probes["second_features_reply_in_handshake"] += 1
  return br[-1:] or None


def _drive(sim, plan, known, hit):
  from pox.lib.addresses import EthAddr
  cfg = plan["cfg"]
  world = CTLWorld(sim)
  world.boot()
  peer = world.new_peer()
  sim.settle()
  ports0 = [_port(no) for no in cfg["ports0"]]
  early = cfg.get("early_ps") or []
  glue = cfg.get("glue", 0)
  cork = [None]
  if not early and not glue:
    if not handshake_script(peer, 0x99, ports0):
      raise S.SimAbort("harness", "handshake did not complete")
  else:
    peer.send(W.enc_hello(0))
    sim.drain()
    fr = [d for d in peer.take() if d["type"] == W.FEATURES_REQUEST]
    if not fr:
      raise S.SimAbort("harness", "no features request")
    peer.send(W.enc_features_reply(fr[0]["xid"], 0x99, ports0))
    sim.drain()
    br = [d for d in peer.take() if d["type"] == W.BARRIER_REQUEST]
    if not br:
      raise S.SimAbort("harness", "no barrier request")
    again = cfg.get("features_again")
    for k, e in enumerate(early):
      if again and again["at"] == k:
        br = _features_again(sim, peer, fr[0]["xid"], again) or br
      peer.send(W.enc_port_status(0x7000 + k, e["reason"],
                                  _port(e["port"], e["name_v"], e["hw_v"],
                                        e["config"])))
      sim.probes["ps_during_handshake"] += 1
      if sim.ch.chance("early_ps_settle", 0.5):
        sim.drain()
    if again and again["at"] >= len(early):
      br = _features_again(sim, peer, fr[0]["xid"], again) or br
    if again:
      # a features reply describes the switch as of then: what was
      # notified before it is superseded, what comes after it applies
      ports0 = [_port(no, again["name_v"]) for no in again["ports"]]
      early = early[min(again["at"], len(early)):]
    end = W.enc_barrier_reply(br[0]["xid"])
    if cfg.get("no_barrier"):
      # a switch without barriers: it answers the request with
      # BAD_REQUEST / BAD_TYPE, which ends the handshake just the same
      end = W.enc_error(br[0]["xid"], W.ET_BAD_REQUEST, W.BRC_BAD_TYPE,
                        W.enc_barrier_request(br[0]["xid"]))
      sim.probes["handshake_ended_by_error"] += 1
    if glue:
      cork[0] = [end]
      sim.probes["glued_to_handshake_end"] += 1
    else:
      peer.send(end)
      sim.drain()
      peer.take()

  def emit(data):
    if cork[0] is not None:
      cork[0].append(data)
    else:
      peer.send(data)

  def uncork():
    if cork[0] is not None:
      data, cork[0] = b"".join(cork[0]), None
      peer.send(data)
      sim.drain()
      peer.take()
  con = peer.con
  if cfg.get("halt_raw"):
    from pox.lib.revent import EventHalt

    def halter(event):
      if cfg["halt_raw"] == "all" or sim.ch.chance("halt_raw_part", 0.5):
        sim.probes["raw_stats_event_halted"] += 1
        return EventHalt
    world.nexus.addListenerByName("RawStatsReply", halter, priority=50)
  model = {p["port_no"]: dict(p) for p in ports0}
  orig = {p["port_no"]: dict(p) for p in ports0}
  ever_deleted = set()
  for e in early:
    if e["reason"] == W.PR_DELETE:
      if e["port"] in model:
        ever_deleted.add(e["port"])
      model.pop(e["port"], None)
    else:
      model[e["port"]] = dict(_port(e["port"], e["name_v"], e["hw_v"],
                                    e["config"]))
  con2 = peer2 = None
  model2 = orig2 = None
  if cfg.get("neighbour"):
    peer2 = world.new_peer()
    sim.settle()
    ports2 = [_port(no, 1, 1) for no in (1, 2, 3)]
    if not handshake_script(peer2, 0x9a, ports2):
      raise S.SimAbort("harness", "neighbour handshake did not complete")
    con2 = peer2.con
    model2 = {p["port_no"]: dict(p) for p in ports2}
    orig2 = {p["port_no"]: dict(p) for p in ports2}
    sim.probes["neighbour_switch"] += 1
  parts = {}          # xid -> list of (tags) for the open reply
  order = []          # xids with open partial replies, in first-part order
  expected_events = []  # (name, xid, tags)
  ev_base = len(world.events)
  lost = False
  xc = [0x100]
  contig = {}
  last_stats = [None]

  def nx():
    xc[0] += 1
    return xc[0]

  def check_ports(ctx):
    pc = con.ports
    _cmp_collection(pc, model, ctx, EthAddr, known, hit, sim)
    _cmp_collection(con.original_ports, orig, ctx + " (original_ports)",
                    EthAddr, known, hit, sim, original=True)
    if con2 is not None:
      _cmp_collection(con2.ports, model2, ctx + " (neighbour switch)",
                      EthAddr, known, hit, sim)
      _cmp_collection(con2.original_ports, orig2,
                      ctx + " (neighbour switch, original_ports)",
                      EthAddr, known, hit, sim, original=True)

  # the view as a PortStatus listener sees it while the event for a
  # notification is being delivered: that notification is already in it
  watch = [None]
  inside = []

  def ps_listener(event):
    w = watch[0]
    if w is None or event.connection is not con or inside:
      return
    try:
      _cmp_collection(event.connection.ports, w, "inside a PortStatus "
                      "handler (port %d, reason %d)"
                      % (event.ofp.desc.port_no, event.ofp.reason),
                      EthAddr, known, hit, sim)
      sim.probes["port_view_read_inside_handler"] += 1
    except Violation as v:
      inside.append(v)
  world.nexus.addListenerByName("PortStatus", ps_listener, priority=-1100)
  con.addListenerByName("PortStatus", ps_listener, priority=-1100)

  def check_stats(ctx):
    got = []
    for e in world.events[ev_base:]:
      if e[0] != "nexus":
        continue
      name = e[1]
      if name in MULTI.values() or name in SINGLE.values():
        xids, stats = e[3]
        got.append((name, xids, stats))
    con_side = [e for e in world.events[ev_base:] if e[0] == con.ID and
                (e[1] in MULTI.values() or e[1] in SINGLE.values())]
    if len(con_side) != len(got):
      raise Violation("stats/nexus-vs-connection", "%s: nexus saw %d "
                      "aggregated events, the connection %d"
                      % (ctx, len(got), len(con_side)))
    if len(got) > len(expected_events):
      name, xids, stats = got[len(expected_events)]
      raise Violation("stats/unexpected-event", "%s: %s fired for xid(s) %r "
                      "although no reply completed"
                      % (ctx, name, [hex(x) for x in xids]))
    for i, (name, xids, stats) in enumerate(got):
      wname, wxid, wtags, kf = expected_events[i]
      if name != wname or set(xids) != {wxid}:
        raise Violation("stats/wrong-event", "%s: event #%d is %s for xids "
                        "%r, expected %s for %#x"
                        % (ctx, i, name, [hex(x) for x in xids], wname, wxid))
      if wtags is not None:
        st = [k for k, v in MULTI.items() if v == name][0]
        have = _tags_of(st, stats)
        if have != wtags:
          if kf and kf in known:
            hit.append(kf)
            sim.probes["known_" + kf] += 1
            continue
          raise Violation("stats/entries", "%s: %s for xid %#x carries "
                          "entries %r, the reply's parts carried %r"
                          % (ctx, name, wxid, have, wtags))
    if len(got) < len(expected_events):
      wname, wxid, wtags, kf = expected_events[len(got)]
      if kf and kf in known:
        hit.append(kf)
        sim.probes["known_" + kf] += 1
        # resync: drop the expectation
        del expected_events[len(got)]
        return check_stats(ctx)
      raise Violation("stats/missing-event", "%s: the reply for xid %#x "
                      "completed but %s did not fire" % (ctx, wxid, wname))

  if cork[0] is None:
    check_ports("after handshake")
  for i, st in enumerate(plan["steps"]):
    sim.ch.reseed(mix(plan["seed"], "step", i))
    op = st["op"]
    if "tagrange" in st:
      st = dict(st, tags=list(range(st["tagrange"][0],
                                    st["tagrange"][0] + st["tagrange"][1])))
      sim.probes["stats_part_64k"] += 1
    if lost:
      break
    if cork[0] is not None and (i >= glue or op in ("lose", "settle")
                                or (op == "ps" and st.get("who"))):
      uncork()
      check_ports("after the handshake and %d glued message(s)" % i)
      check_stats("after the handshake and %d glued message(s)" % i)
    if op == "ps" and st.get("who") and peer2 is not None:
      # the neighbour's own port-status: only its view may change
      no = st["port"]
      pd = _port(no, st["name_v"], st["hw_v"], st["config"])
      peer2.send(W.enc_port_status(nx(), st["reason"], pd))
      sim.probes["ps_on_neighbour"] += 1
      if st["reason"] == W.PR_DELETE:
        model2.pop(no, None)
      else:
        model2[no] = dict(pd)
    elif op == "ps":
      no = st["port"]
      pd = _port(no, st["name_v"], st["hw_v"], st["config"])
      reason = st["reason"]
      emit(W.enc_port_status(nx(), reason, pd))
      if reason == W.PR_DELETE:
        if no in model:
          sim.probes["ps_delete"] += 1
          ever_deleted.add(no)
        else:
          sim.probes["ps_delete_unknown"] += 1
        model.pop(no, None)
      else:
        old = model.get(no)
        if old is None:
          sim.probes["ps_readd" if no in ever_deleted else "ps_add"] += 1
        else:
          sim.probes["ps_modify"] += 1
          if old["name"] != pd["name"]:
            sim.probes["ps_rename"] += 1
          if old["hw_addr"] != pd["hw_addr"]:
            sim.probes["ps_rehw"] += 1
        model[no] = dict(pd)
      if cork[0] is None:
        watch[0] = {k: dict(v) for k, v in model.items()}
    elif op == "stats":
      xid, stype = st["xid"], st["stype"]
      flags = W.SF_REPLY_MORE if st["more"] else 0
      emit(W.enc_stats_reply(xid, stype, _stats_body(stype, st["tags"]),
                                  flags))
      interleaved = xid in parts and last_stats[0] != xid
      started_over_open = bool(order) and xid not in parts
      if xid not in parts:
        parts[xid] = []
        order.append(xid)
        contig[xid] = True
      if interleaved:
        contig[xid] = False
        sim.probes["stats_interleaved"] += 1
      last_stats[0] = xid
      parts[xid].append(list(st["tags"]))
      if started_over_open:
        sim.probes["stats_abandoned"] += 1
      if not st["more"]:
        tags = [t for p in parts[xid] for t in p]
        name = MULTI.get(stype) or SINGLE.get(stype)
        # a reply whose parts were interleaved part-by-part with another
        # reply's parts: listed finding (reassembly keeps one partial reply)
        kf = None if contig[xid] else "C17-interleaved-multipart-replies"
        expected_events.append((name, xid, tags if stype in MULTI else None,
                                kf))
        if len(parts[xid]) > 1:
          sim.probes["stats_multipart_done"] += 1
        else:
          sim.probes["stats_single"] += 1
        del parts[xid]
        order.remove(xid)
    elif op == "echo":
      emit(W.enc_echo_request(nx(), b"x"))
    elif op == "packet_in":
      data = F.eth(F.mac(1), F.mac(2), 0x88b5, b"y" * 30)
      emit(W.enc_packet_in(nx(), W.NO_BUFFER, len(data), 1, 0, data))
    elif op == "barrier":
      emit(W.enc_barrier_reply(nx()))
    elif op == "error":
      # (about some other request of the controller's -- a packet_out with a
      # stale buffer, a refused flow_mod --, quoting its first bytes)
      x = order[-1] if (st.get("same_xid") and order) else nx()
      emit(W.enc_error(x, st["etype"], st["code"],
                       W.msg(13, x, b"\0" * 8)[:16]))
      sim.probes["noise_error_between_messages"] += 1
      if order:
        sim.probes["noise_error_inside_pending_reply"] += 1
    elif op == "flow_removed":
      emit(W.enc_flow_removed(nx(), {}))
    elif op == "config_reply":
      emit(W.msg(8, nx(), struct.pack("!HH", 0, 128)))
    elif op == "lose":
      sim.drain()
      peer.close()
      lost = True
    if cork[0] is not None:
      continue          # (still part of the write that ends the handshake)
    sim.drain()
    watch[0] = None
    if inside:
      raise inside[0]
    peer.take()
    if not lost:
      if peer.eof_from_controller:
        raise Violation("connection-dropped", "controller closed the "
                        "connection after step %d (%s)" % (i, op))
      check_ports("after step %d (%s)" % (i, op))
    check_stats("after step %d (%s)" % (i, op))
  if cork[0] is not None:
    uncork()
    if not lost:
      check_ports("after the handshake and the glued messages")
  sim.drain()
  check_stats("at the end")
  if sim.task_deaths:
    raise Violation("task-died", "%r" % (sim.task_deaths[:2],))


def _cmp_collection(pc, model, ctx, EthAddr, known, hit, sim, original=False):
  def fail(what, detail, kf=None):
    if kf and kf in known:
      hit.append(kf)
      sim.probes["known_" + kf] += 1
      return
    raise Violation(("original-ports/" if original else "ports/") + what,
                    "%s: %s" % (ctx, detail))

  want_keys = sorted(model)
  try:
    keys = sorted(pc.keys())
    it = sorted(iter(pc))
    n = len(pc)
    vals = sorted(p.port_no for p in pc.values())
    items = sorted((k, p.port_no) for k, p in pc.items())
  except Exception as e:
    return fail("api-raised", "%s: %s" % (type(e).__name__, e))
  if keys != want_keys or it != want_keys or n != len(want_keys) or \
      vals != want_keys or items != [(k, k) for k in want_keys]:
    return fail("keys", "keys=%r iter=%r len=%d values=%r, model ports %r"
                % (keys, it, n, vals, want_keys))
  for no in range(0, 6):
    m = model.get(no)
    present = no in pc
    if present != (m is not None):
      return fail("contains-number", "%d in ports -> %r, model %r"
                  % (no, present, m is not None))
    g = pc.get(no)
    if (g is None) != (m is None):
      return fail("get-number", "ports.get(%d) -> %r" % (no, g))
    if m is not None:
      p = pc[no]
      if (p.port_no, p.name, p.hw_addr.toRaw(), p.config) != \
          (no, m["name"], m["hw_addr"], m["config"]):
        return fail("stale-port", "ports[%d] is (%r, %s, config=%#x), "
                    "model (%r, %s, config=%#x)"
                    % (no, p.name, p.hw_addr, p.config, m["name"],
                       EthAddr(m["hw_addr"]), m["config"]))
    else:
      try:
        pc[no]
        return fail("index-number", "ports[%d] did not raise" % no)
      except (IndexError, KeyError):
        pass
  # by name and by hardware address: every variant either port could have
  for no in range(1, 5):
    for nv in (0, 1):
      name = _name(no, nv)
      owner = [k for k, m in model.items() if m["name"] == name]
      present = name in pc
      if present != bool(owner):
        return fail("contains-name", "%r in ports -> %r, model %r"
                    % (name, present, bool(owner)),
                    kf="C17-stale-name-or-hwaddr-via-original")
      if owner and pc[name].port_no != owner[0]:
        return fail("index-name", "ports[%r] is port %d, model %d"
                    % (name, pc[name].port_no, owner[0]))
    for hv in (0, 1):
      hw = F.mac((0x100 if not hv else 0x200) + no)
      owner = [k for k, m in model.items() if m["hw_addr"] == hw]
      present = EthAddr(hw) in pc
      if present != bool(owner):
        return fail("contains-hwaddr", "%s in ports -> %r, model %r"
                    % (EthAddr(hw), present, bool(owner)),
                    kf="C17-stale-name-or-hwaddr-via-original")
      if owner and pc[EthAddr(hw)].port_no != owner[0]:
        return fail("index-hwaddr", "ports[%s] is port %d, model %d"
                    % (EthAddr(hw), pc[EthAddr(hw)].port_no, owner[0]))
