"""
C11 -- the learning-switch control loop forwards like an ideal learning
bridge, and every buffered packet handed to the controller is released.

World: NET.  Real controller + forwarding.l2_learning, 1-3 real switches in
a loop-free topology, 2-5 hosts, the real codec on simulated TCP.
"""

import struct

from simkit import sim as S
from simkit.rng import Rng, mix
from simkit.check import load_known
from worlds.net import NetWorld
from models import rawframe as F

PROP = "C11"
LEVEL = "exploration"
BUDGET = {"quick": 1500, "thorough": 200000}
RUN_TIMEOUT = 60
RULE = ("Each run: a loop-free topology of 1-3 real switches with 2-5 hosts, "
        "switch buffer pools of 0/1/4/100, controller miss_send_len "
        "14/128/1500; a seeded sequence of 5-80 host frames (unicast to known "
        "and unknown addresses, broadcast, multicast, LLDP ethertype, "
        "01:80:c2:00:00:0x destinations, src == dst, host moves) with "
        "virtual-time gaps that cross the 10 s idle / 30 s hard flow "
        "timeouts; control-channel segmentation and delay (packet-ins in "
        "flight while the next frame arrives), and in the fault configuration "
        "control-connection resets with reconnect through the real back-off "
        "timers.  Every frame carries a unique tag; per switch and per "
        "arriving frame the multiset of egress ports is compared with the "
        "learning-bridge model evaluated in packet-in order; switch buffers "
        "must all be free at quiescence.  Non-trivial = at least one frame "
        "was forwarded by a cached flow and one unicast frame was flooded; "
        "distinct = distinct event-log digest.")
ASSUMPTIONS = [
  "a frame that hits a cached flow must go to at most one port on which its "
  "destination was learned at some time (the statement allows the stale "
  "port while the older flow is installed)",
  "in runs with control-connection resets, frames whose packet-in or reply "
  "was in flight at the reset, and the buffer-leak check, are excluded",
  "port configuration is static in this check (C12 covers port flags)",
]
REAL = ["pox.forwarding.l2_learning", "pox.openflow.of_01 (task, Connection, "
        "handshake)", "pox.openflow nexus/events", "pox.datapaths.switch "
        "SoftwareSwitch/ExpireMixin/OFConnection", "OpenFlowWorker/"
        "BackoffWorker reconnect", "RecocoIOLoop", "libopenflow_01 codec "
        "(flow_mod/packet_out 'data' magic)", "flow_table", "pox.lib.packet",
        "recoco scheduler and timers"]
STUBBED = ["socket/select/time/pinger (simkit)", "hosts and links (harness)",
           "DeferredSender (no back-pressure in this world)"]
EXPECT_PROBES = ["flooded_unknown", "flooded_multicast", "unicast_known",
                 "flow_hit", "filtered", "same_port_drop", "host_moved",
                 "timeout_gap", "no_buffer_path", "multi_switch",
                 "port_number_zero", "frame_with_ecn_bits",
                 "frame_is_ip_fragment"]


def gen_plan(seed, tier):
  r = Rng(seed)
  nsw = r.wpick([(3, 1), (3, 2), (2, 3)])
  # tree: switch i>1 hangs off a random earlier switch
  cfg = {"nsw": nsw, "max_buffers": r.pick([0, 1, 4, 100]),
         "msl": r.pick([14, 128, 128, 1500]),
         # the component's own option: forward link-local frames like any other
         "transparent": r.chance(0.2),
         # --hold-down: no flooding during the first N seconds of a connection
         "hold_down": r.pick([0, 0, 0, 0, 2, 4]),
         "segment": r.chance(0.5), "delay": r.chance(0.5),
         "recv_mode": r.pick(["all", "all", "choose"]),
         "faults": r.chance(0.25), "link_delay": r.pick([0, 0, 3])}
  hports = {}
  uplinks = []
  nextport = {i: 1 for i in range(1, nsw + 1)}
  for i in range(2, nsw + 1):
    parent = r.randint(1, i - 1)
    pa, pb = nextport[parent], nextport[i]
    nextport[parent] += 1
    nextport[i] += 1
    uplinks.append([parent, pa, i, pb])
  nhosts = r.randint(2, 5)
  hosts = []
  for h in range(nhosts):
    sw = r.randint(1, nsw)
    hosts.append([sw, nextport[sw]])
    nextport[sw] += 1
  # a spare edge port per switch for host moves
  spare = {}
  for i in range(1, nsw + 1):
    spare[i] = nextport[i]
    nextport[i] += 1
  # port numbering per switch: 1..N, 0..N-1 (0 is a legal port number) or
  # sparse and unordered
  r3 = Rng(mix(seed, "portnum"))
  num = {}
  for i in range(1, nsw + 1):
    n = nextport[i] - 1
    k = r3.pick(["one", "one", "zero", "sparse"])
    if k == "one":
      num[i] = list(range(1, n + 1))
    elif k == "zero":
      num[i] = list(range(0, n))
    else:
      num[i] = ([7, 0, 300, 2, 0xfeff, 12] + list(range(40, 60)))[:n]
      if r3.chance(0.5):
        num[i].remove(0) if 0 in num[i] else None
        num[i] = (num[i] + [61])[:n]
  uplinks = [[a, num[a][pa - 1], b, num[b][pb - 1]] for a, pa, b, pb in uplinks]
  hosts = [[sw, num[sw][p - 1]] for sw, p in hosts]
  cfg["uplinks"] = uplinks
  cfg["hosts"] = hosts
  cfg["nports"] = {str(i): nextport[i] - 1 for i in nextport}
  cfg["ports"] = {str(i): num[i] for i in num}
  cfg["spare"] = {str(i): num[i][spare[i] - 1] for i in spare}
  steps = []
  n = r.randint(5, 80 if tier == "thorough" else 40)
  for _ in range(n):
    k = r.wpick([(16, "frame"), (3, "gap"), (1, "move"),
                 (2 if cfg["faults"] else 0, "reset")])
    if k == "frame":
      s = r.randrange(nhosts)
      kind = r.wpick([(10, "unicast"), (2, "bcast"), (1, "mcast"),
                      (1, "lldp"), (1, "stp"), (1, "self"), (1, "unknown"),
                      (0.5, "groupsrc")])
      d = r.randrange(nhosts)
      steps.append({"op": "frame", "src": s, "dst": d, "kind": kind,
                    "l3": r.pick(["udp", "udp", "other", "arp"]),
                    "flow": r.randrange(2), "settle": r.chance(0.7)})
    elif k == "gap":
      steps.append({"op": "gap", "dt": r.pick([0.5, 3, 9.5, 10.5, 12, 31,
                                                40])})
    elif k == "move":
      steps.append({"op": "move", "host": r.randrange(nhosts)})
    else:
      steps.append({"op": "reset", "sw": r.randint(1, nsw)})
  r9 = Rng(mix(seed, "lldpdst"))
  for st in steps:
    if st["op"] == "frame" and st["kind"] == "lldp" and r9.chance(0.5):
      st["lldp_dst"] = r9.pick(["host", "host", "bcast"])
  r8 = Rng(mix(seed, "tos"))
  for st in steps:
    # the IP type-of-service byte of the hosts' datagrams: DSCP values and
    # the two ECN bits (a flow installed for a frame has to match that frame)
    if st["op"] == "frame" and st["l3"] == "udp" and r8.chance(0.3):
      st["tos"] = r8.pick([0xb8, 0x02, 0x01, 0x03, 0xff, 0x28])
    if st["op"] == "frame" and st["l3"] == "udp" and r8.chance(0.1):
      # a fragment of a larger datagram (first: MF set, the UDP header is
      # there; later: an offset, no transport header at all)
      st["frag"] = r8.pick(["first", "later", "last"])
  return {"prop": PROP, "seed": seed, "cfg": cfg, "steps": steps}


class Violation(Exception):
  def __init__(self, vclass, detail):
    Exception.__init__(self, vclass, detail)
    self.vclass = vclass
    self.detail = detail


def run_plan(plan):
  cfg = plan["cfg"]
  sim = S.Sim(mix(plan["seed"], "run"), calm=plan.get("calm", False))
  S.install(sim)
  sim.net_segment = cfg.get("segment", False)
  sim.net_delay = cfg.get("delay", False)
  sim.recv_mode = cfg.get("recv_mode", "all")
  sim.max_delay_ticks = 8
  res = {"verdict": "ok"}
  known = load_known(PROP)
  hit = []
  try:
    _drive(sim, plan, known, hit)
  except Violation as v:
    res.update(verdict="violation", vclass=v.vclass, detail=v.detail)
  except S.SimAbort as a:
    if a.vclass == "harness":
      res.update(verdict="error", detail=a.detail)
    else:
      res.update(verdict="violation", vclass=a.vclass, detail=a.detail)
  res["digest"] = sim.digest()
  res["sim_time"] = sim.now - S.T0
  res["steps"] = len(plan["steps"])
  res["known"] = sorted(set(hit))
  res["stats"] = dict(sim.stats)
  res["probes"] = dict(sim.probes)
  p = sim.probes
  res["nontrivial"] = bool(p.get("flow_hit") and p.get("flooded_unknown"))
  return res


def _frame(src_mac, dst_mac, tag, l3, flow, ethertype=None, tos=0, frag=None):
  body = struct.pack("!L", tag) + b"tagged-payload"
  if ethertype is not None:
    return F.eth(dst_mac, src_mac, ethertype, body + b"\0" * 30)
  if l3 == "udp":
    sip = F.ip(10, 0, 0, src_mac[5])
    dip = F.ip(10, 0, 0, dst_mac[5] or 250)
    return F.eth(dst_mac, src_mac, F.ETH_IP,
                 F.ipv4(sip, dip, 17, F.udp(sip, dip, 1000 + flow, 2000,
                                            body), tos=tos,
                        flags={"first": 1, "later": 1}.get(frag, 0),
                        frag={"later": 5, "last": 9}.get(frag, 0)))
  if l3 == "arp":
    return F.eth(dst_mac, src_mac, F.ETH_ARP,
                 F.arp(1, src_mac, F.ip(10, 0, 0, src_mac[5]), b"\0" * 6,
                       F.ip(10, 0, 0, 99)) + body)
  return F.eth(dst_mac, src_mac, 0x88b5, body + b"\0" * 30)


def _tag_of(raw):
  i = raw.find(b"tagged-payload")
  if i < 4:
    return None
  return struct.unpack_from("!L", raw, i - 4)[0]


def _drive(sim, plan, known, hit):
  import pox.forwarding.l2_learning as L2
  cfg = plan["cfg"]
  net = NetWorld(sim, cfg)
  net.boot()
  net.nexus.miss_send_len = cfg["msl"]
  net.link_delay_ticks = cfg.get("link_delay", 0)
  L2._flood_delay = 0
  L2.launch(transparent=bool(cfg.get("transparent")),
            hold_down=int(cfg.get("hold_down", 0)))
  if cfg.get("hold_down"):
    sim.probes["hold_down_mode"] += 1
  if cfg.get("transparent"):
    sim.probes["transparent_mode"] += 1
  nsw = cfg["nsw"]
  for i in range(1, nsw + 1):
    plist = (cfg.get("ports") or {}).get(str(i))
    if plist is not None and 0 in plist:
      sim.probes["port_number_zero"] += 1
    net.add_switch(i, plist if plist is not None else cfg["nports"][str(i)],
                   max_buffers=cfg["max_buffers"])
  for a, pa, b, pb in cfg["uplinks"]:
    net.link(a, pa, b, pb)
  if nsw > 1:
    sim.probes["multi_switch"] += 1
  if cfg["max_buffers"] == 0:
    sim.probes["no_buffer_path"] += 1
  hostpos = [tuple(h) for h in cfg["hosts"]]
  for sw, port in hostpos:
    net.add_host(sw, port)
  spare_of = dict(cfg["spare"])     # (changes with host moves; never the plan)
  for i in range(1, nsw + 1):
    net.add_host(i, spare_of[str(i)])
  sim.drain()
  sim.advance(1.0)
  sim.drain()
  ups = set(net.nexus.connections.dpids)
  if ups != set(range(1, nsw + 1)):
    raise S.SimAbort("harness", "switches did not come up: %r" % (ups,))
  faults = cfg.get("faults", False)
  tag = [0]
  macs = [F.mac(0x10 + h) for h in range(len(hostpos))]
  unknown_mac = F.mac(0xee)
  # per switch model: learned port per mac, and every port it ever had
  learned = {i: {} for i in range(1, nsw + 1)}
  ever = {i: {} for i in range(1, nsw + 1)}
  done_pi = {i: 0 for i in range(1, nsw + 1)}
  expected = {}     # (sw, tag) -> ("exact", set) | ("subset", set)
  tainted = set()   # tags whose processing overlapped a control reset
  stale = []        # (sw, tag, dst, port used, most recent port, why)
  last_quiet = [0]
  checked = [0]
  all_ports = {i: set((cfg.get("ports") or {}).get(str(i))
                      or range(1, cfg["nports"][str(i)] + 1))
               for i in range(1, nsw + 1)}

  def sightings():
    """per switch and source address: (seq, port) of every arrival that was
    seen by the controller (packet-in) or forwarded by a cached flow --
    frames silently dropped by a flow are not counted"""
    pi_tags = {}
    for i, ns in net.switches.items():
      pi_tags[i] = set(_tag_of(r) for _, _, r, _, _ in ns.packet_ins)
    fwd = set((d, _tag_of(r)) for _, _, d, _, r in net.egress)
    out = {}
    for seq, t, dpid, port, raw in net.arrivals:
      tg = _tag_of(raw)
      if tg in pi_tags.get(dpid, ()) or (dpid, tg) in fwd:
        out.setdefault((dpid, raw[6:12]), []).append((seq, port))
    return out

  def process_packet_ins():
    """advance the per-switch model over packet-ins sent so far"""
    sight = None
    arr_time = {}
    if cfg.get("hold_down"):
      for _seq, _t, _dpid, _port, _raw in net.arrivals:
        arr_time[(_dpid, _tag_of(_raw))] = _t
    for i, ns in net.switches.items():
      pis = ns.packet_ins
      while done_pi[i] < len(pis):
        seq, in_port, raw, reason, bid = pis[done_pi[i]]
        done_pi[i] += 1
        t = _tag_of(raw)
        if t is None:
          continue
        src, dst = raw[6:12], raw[0:6]
        et = (raw[12] << 8) | raw[13]
        learned[i][src] = in_port
        ever[i].setdefault(src, set()).add(in_port)
        filtered = et == 0x88cc or (dst[:5] == b"\x01\x80\xc2\x00\x00"
                                    and dst[5] <= 0x0f)
        if filtered and not cfg.get("transparent"):
          sim.probes["filtered"] += 1
          exp = set()
        elif dst[0] & 1:
          sim.probes["flooded_multicast"] += 1
          exp = all_ports[i] - {in_port}
        elif dst not in learned[i]:
          sim.probes["flooded_unknown"] += 1
          exp = all_ports[i] - {in_port}
        else:
          p = learned[i][dst]
          if p == in_port:
            sim.probes["same_port_drop"] += 1
            exp = set()
          else:
            sim.probes["unicast_known"] += 1
            exp = {p}
          # "...to exactly the most recent such port whenever no older
          # cached flow for that traffic is still installed": this frame has
          # no cached flow (it caused a packet-in), so p must be where dst
          # was most recently seen as a source
          if sight is None:
            sight = sightings()
          prior = [pp for sq, pp in sight.get((i, dst), ()) if sq < seq]
          if prior and prior[-1] != p and t not in tainted:
            if prior[-1] in ever[i].get(dst, ()):
              kf = "C11-stale-port-after-host-returns"
              if kf in known:
                hit.append(kf)
                sim.probes["known_" + kf] += 1
              else:
                stale.append((i, t, dst, p, prior[-1], "returned"))
            else:
              stale.append((i, t, dst, p, prior[-1], "never-learned"))
        hd = cfg.get("hold_down", 0)
        if hd and exp and (dst[0] & 1 or dst not in learned[i]):
          # a flood: suppressed while the connection is younger than the
          # hold-down (the buffer must be released all the same)
          con = net.nexus.connections.get(i)
          t_arr = arr_time.get((i, t))
          age = None if (con is None or t_arr is None or
                         con.connect_time is None) \
              else t_arr - con.connect_time
          if age is None or abs(age - hd) < 0.3:
            expected[(i, t)] = ("any", [set(), exp], in_port)
            continue
          if age < hd:
            sim.probes["flood_held_down"] += 1
            exp = set()
        expected[(i, t)] = ("exact", exp, in_port)

  def check_all(ctx):
    process_packet_ins()
    for i, t, dst, p, recent, why in stale:
      if t in tainted:
        continue
      raise Violation("stale-port/" + why, "%s: switch %d sent frame tag %d "
                      "(no cached flow: it caused a packet-in) for %s to port "
                      "%d, but that address was most recently seen as a "
                      "source on port %d%s"
                      % (ctx, i, t, dst.hex(), p, recent,
                         "" if why == "returned" else
                         " -- a port the controller never learned it on, so "
                         "a cached flow forwarded its frames from there"))
    # group emissions and arrivals by (switch, tag)
    em = {}
    for seq, t, dpid, port, raw in net.egress:
      tg = _tag_of(raw)
      em.setdefault((dpid, tg), []).append(port)
    arr = {}
    for seq, t, dpid, port, raw in net.arrivals:
      tg = _tag_of(raw)
      arr.setdefault((dpid, tg), []).append((port, raw))
    for key, lst in arr.items():
      sw, tg = key
      if tg is None or tg in tainted:
        continue
      if len(lst) > 1:
        raise Violation("delivered-twice", "%s: frame tag %d arrived %d times "
                        "at switch %d (loop-free topology: some switch "
                        "emitted it twice or back toward its source)"
                        % (ctx, tg, len(lst), sw))
      in_port, raw = lst[0]
      out = em.get(key, [])
      dst = raw[0:6]
      if in_port in out:
        raise Violation("sent-back-to-ingress", "%s: switch %d sent frame "
                        "tag %d back out its ingress port %d"
                        % (ctx, sw, tg, in_port))
      if len(set(out)) != len(out):
        raise Violation("port-twice", "%s: switch %d emitted frame tag %d "
                        "on ports %r" % (ctx, sw, tg, sorted(out)))
      e = expected.get(key)
      if e is not None and e[0] == "any":
        if not any(set(out) == x for x in e[1]):
          raise Violation("wrong-ports", "%s: switch %d, frame tag %d: egress "
                          "ports %r, acceptable %r"
                          % (ctx, sw, tg, sorted(out),
                             [sorted(x) for x in e[1]]))
      elif e is not None:
        if set(out) != e[1]:
          raise Violation("wrong-ports", "%s: switch %d, frame tag %d (dst "
                          "%s) from port %d caused a packet-in; egress ports "
                          "%r, learning-bridge model %r"
                          % (ctx, sw, tg, dst.hex(), in_port, sorted(out),
                             sorted(e[1])))
      else:
        sim.probes["flow_hit"] += 1 if out else 0
        allowed = ever[sw].get(dst, set())
        if len(out) > 1 or not set(out) <= allowed:
          raise Violation("cached-flow-wrong-port", "%s: switch %d forwarded "
                          "frame tag %d (dst %s) through a cached flow to "
                          "ports %r; that address was only ever learned on %r"
                          % (ctx, sw, tg, dst.hex(), sorted(out),
                             sorted(allowed)))
      checked[0] += 1
    # emissions of frames that never arrived there
    for key, ports in em.items():
      if key[1] is not None and key not in arr:
        raise Violation("phantom-emission", "%s: switch %d emitted frame tag "
                        "%r it never received" % (ctx, key[0], key[1]))

  def quiesce():
    sim.drain()
    sim.advance(0.05)
    sim.drain()

  for idx, st in enumerate(plan["steps"]):
    sim.ch.reseed(mix(plan["seed"], "step", idx))
    op = st["op"]
    if op == "frame":
      tag[0] += 1
      s, d = st["src"] % len(macs), st["dst"] % len(macs)
      kind = st["kind"]
      dst = macs[d]
      et = None
      if kind == "bcast":
        dst = b"\xff" * 6
      elif kind == "mcast":
        dst = b"\x01\x00\x5e\x00\x00\x05"
      elif kind == "lldp":
        et = 0x88cc
        dst = b"\x01\x80\xc2\x00\x00\x0e"
        # (the ethertype is what makes a frame LLDP, not where it is sent:
        # some senders address it to a station, or to everybody)
        if st.get("lldp_dst") == "host":
          dst = macs[d]
        elif st.get("lldp_dst") == "bcast":
          dst = b"\xff" * 6
        if st.get("lldp_dst"):
          sim.probes["lldp_to_ordinary_address"] += 1
      elif kind == "stp":
        dst = b"\x01\x80\xc2\x00\x00" + bytes([tag[0] % 16])
      elif kind == "self":
        dst = macs[s]
      elif kind == "unknown":
        dst = unknown_mac
      srcmac = macs[s]
      if kind == "groupsrc":
        # not something a station may send, but something a wire may carry:
        # the group address the mcast frames go to, as a *source*
        srcmac = b"\x01\x00\x5e\x00\x00\x05"
        sim.probes["group_address_as_source"] += 1
      raw = _frame(srcmac, dst, tag[0], st["l3"], st["flow"], et,
                   tos=st.get("tos", 0), frag=st.get("frag"))
      if st.get("frag"):
        sim.probes["frame_is_ip_fragment"] += 1
      if st.get("tos", 0) & 3:
        sim.probes["frame_with_ecn_bits"] += 1
      sw, port = hostpos[s]
      sim.ev("frame", tag[0], s, kind)
      net.host_send(sw, port, raw)
      if st.get("settle", True):
        quiesce()
        check_all("after frame %d" % tag[0])
        last_quiet[0] = tag[0]
    elif op == "gap":
      quiesce()
      sim.advance(st["dt"])
      sim.probes["timeout_gap"] += 1
    elif op == "move":
      quiesce()
      h = st["host"] % len(hostpos)
      sw, port = hostpos[h]
      spare = spare_of[str(sw)]
      hostpos[h] = (sw, spare)
      spare_of[str(sw)] = port
      sim.probes["host_moved"] += 1
    elif op == "reset":
      if faults:
        # a reset in the middle of whatever is in flight: every frame sent
        # since the last quiescent point is in doubt (its packet-in or the
        # controller's answer may be lost with the connection)
        process_packet_ins()
        tainted.update(range(last_quiet[0] + 1, tag[0] + 1))
        net.reset_control(st["sw"])
        sim.drain()
        sim.advance(6.0)
        sim.drain()
        # the application starts a fresh learning table on ConnectionUp and
        # only sees packet-ins sent on the new connection
        ns = net.switches[st["sw"]]
        done_pi[st["sw"]] = len(ns.packet_ins)
        learned[st["sw"]] = {}
        for k in [k for k in expected if k[0] == st["sw"]
                  and k[1] in tainted]:
          del expected[k]
        last_quiet[0] = tag[0]
        if st["sw"] not in set(net.nexus.connections.dpids):
          raise Violation("no-reconnect", "switch %d did not reconnect and "
                          "complete its handshake within 6 virtual seconds "
                          "of a control-connection reset" % st["sw"])
  quiesce()
  sim.advance(0.5)
  quiesce()
  check_all("at the end")
  if sim.task_deaths:
    raise Violation("task-died", "%r" % (sim.task_deaths[:2],))
  if sim.stats.get("log_exception") and not faults:
    le = getattr(sim, "last_error", None)
    raise Violation("handler-exception", "an exception or error was logged "
                    "while handling traffic: %r" % (le,))
  if not faults:
    for i, ns in net.switches.items():
      n = ns.buffers_in_use()
      if n:
        raise Violation("buffer-leak", "switch %d still holds %d buffered "
                        "packet(s) at quiescence" % (i, n))
  sim.probes["arrivals_checked"] += checked[0]
