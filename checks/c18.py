"""
C18 -- packet buffers are unique, released exactly once, and bounded.

World: SW, refinement via worlds.swref (buffer bookkeeping in
Ref.expect_packet_in / after_buffer_use).
"""

from simkit.rng import Rng, mix
from worlds import swref
from checks import swgen as G
from models import of10wire as W
from models import rawframe as F

PROP = "C18"
LEVEL = "exploration"
BUDGET = {"quick": 4000, "thorough": 300000}
RULE = ("Each run: a history (8-60 steps) over {frame arrival causing a "
        "table miss, frame hitting an output-to-CONTROLLER action with "
        "max_len, packet_out(buffer), flow_mod(buffer), packet_out with a "
        "stale / already used / bogus id, set_config(miss_send_len incl. 0)} "
        "against buffer pools of size 0-4; the model tracks outstanding ids "
        "as opaque tokens and checks uniqueness, the pool bound, the "
        "full-pool fallback, data length vs. the configured limit, total_len, "
        "emit-exactly-that-frame-then-free, and nothing-for-unknown-ids.  "
        "Non-trivial = a buffer was used and a bogus/used id was tried; "
        "distinct = distinct event-log digest.")
ASSUMPTIONS = [
  "buffer ids are opaque: the model never predicts which id is handed out",
  "what happens to the buffered packet of a flow_mod that deletes is "
  "unspecified (the model follows the implementation there); a flow_mod "
  "that is refused with an error has told the controller that nothing "
  "happened, so the packet it named stays held",
]
REAL = ["pox.datapaths.switch.SoftwareSwitch (_buffer_packet, "
        "_process_actions_for_packet_from_buffer, send_packet_in, "
        "_rx_packet_out, _rx_flow_mod)", "ofp_packet_in / ofp_packet_out "
        "codec", "flow table, OFConnection, IO worker, recoco scheduler"]
STUBBED = ["socket/select/time/pinger (simkit)", "controller peer (scripted)",
           "hosts (frames injected)"]
EXPECT_PROBES = ["pi_buffered", "pi_unbuffered", "pi_truncated",
                 "buffer_used", "buffer_bogus", "buffer_use_refused",
                 "refused_flow_mod_names_held_buffer",
                 "deleting_flow_mod_used_buffer"]


def _after_controller(r, nports):
  """what an action list may go on to do after its output:CONTROLLER: the
  packet the buffer id stands for is the one that existed at that point"""
  if r.chance(0.5):
    return []
  tail = []
  for _ in range(r.randint(1, 3)):
    k = r.pick(["set_nw_dst", "set_nw_src", "set_tp_dst", "set_tp_src",
                "set_nw_tos", "set_vlan_vid", "set_vlan_pcp", "set_dl_dst",
                "strip_vlan"])
    if k in ("set_nw_dst", "set_nw_src"):
      tail.append([k, F.ip(172, 16, 0, r.randint(1, 9))])
    elif k in ("set_tp_dst", "set_tp_src"):
      tail.append([k, r.pick([53, 2007, 65535])])
    elif k == "set_nw_tos":
      tail.append([k, r.pick([0x10, 0xb8])])
    elif k == "set_vlan_vid":
      tail.append([k, r.pick([7, 100])])
    elif k == "set_vlan_pcp":
      tail.append([k, r.pick([1, 7])])
    elif k == "set_dl_dst":
      tail.append([k, G.mac_hex(55)])
    else:
      tail.append([k])
  if r.chance(0.5):
    tail.append(["output", r.randint(1, nports), 0])
  return tail


def gen_plan(seed, tier):
  r = Rng(seed)
  cfg = G.sw_cfg(r, max_buffers=r.pick([0, 1, 2, 3, 4]),
                 max_entries=r.pick([0x7fffffff, 0x7fffffff, 1, 2]),
                 miss_send_len=r.pick([0, 14, 64, 128, 1500]))
  nports = cfg["nports"]
  frames = [(G.gen_frame(r, rich=r.chance(0.5)), r.randint(1, nports))
            for _ in range(r.randint(2, 4))]
  frames = [(fs, p) for fs, p in frames if fs["kind"] not in ("snap", "llc")] \
      or [(G.gen_frame(r), 1)]
  for fs, _ in frames:
    # Ethernet padding after the IP datagram: the packet_in shows the frame
    # as received, what is buffered / forwarded is the frame less its padding
    if fs["kind"] in ("udp", "tcp") and not fs.get("vlan") \
        and not fs.get("frag") and r.chance(0.3):
      fs["pad"] = r.pick([4, 6, 18])
  steps = []
  # optionally a flow that sends to the controller
  if r.chance(0.6):
    fs, port = frames[0]
    key = G.frame_key(fs, port)
    steps.append({"op": "flow_mod", "m": G.match_from_key(key, r, keep=0.3),
                  "cmd": W.FC_ADD, "prio": 10,
                  "acts": [["output", W.OFPP_CONTROLLER,
                            r.pick([0, 10, 60, 0xffff])]]
                  + _after_controller(r, nports),
                  "cookie": 1, "idle": 0, "hard": 0, "flags": 0})
  n = r.randint(8, 60 if tier == "thorough" else 30)
  for i in range(n):
    k = r.wpick([(8, "frame"), (6, "po_buf"), (3, "fm_buf"), (1, "set_config"),
                 (2, "po_data"), (1, "port_mod")])
    if k == "frame":
      fs, port = r.pick(frames)
      steps.append({"op": "frame", "port": port, "f": fs,
                    "with_data": r.chance(0.7)})
    elif k == "po_buf":
      steps.append({"op": "packet_out", "in_port": W.OFPP_NONE,
                    "acts": G.gen_actions(r, nports),
                    "buffer": r.wpick([(5, "last"), (3, "first"), (3, "used"),
                                       (1, 0), (1, 99), (1, 0x7fffffff),
                                       (1, r.randint(1, 5))])})
      if r.chance(0.12):
        # an action list the switch refuses part-way: an action of a type
        # it does not implement after (or before) plain outputs
        steps[-1].update(acts=[["output", r.randint(1, nports), 0]
                               for _ in range(r.randint(1, 2))],
                         badact=r.pick([0xffff, 12, 100]),
                         badpos=r.pick([1, 1, 0]))
    elif k == "fm_buf":
      fs, port = r.pick(frames)
      key = G.frame_key(fs, port)
      steps.append({"op": "flow_mod",
                    "m": G.match_from_key(key, r, keep=0.5),
                    "cmd": r.pick([W.FC_ADD, W.FC_ADD, W.FC_MODIFY,
                                   W.FC_MODIFY_STRICT]),
                    "prio": r.pick([20, 30]),
                    "acts": G.gen_actions(r, nports), "cookie": i,
                    # (overlap check / emergency flag: ways for the switch
                    # to refuse the entry; the packet then stays held)
                    "idle": 0, "hard": 0,
                    "flags": r.pick([0, 0, 0, W.FF_CHECK_OVERLAP,
                                     W.FF_CHECK_OVERLAP, W.FF_EMERG]),
                    "buffer": r.wpick([(5, "last"), (2, "first"),
                                       (2, "used"), (1, 77)])})
      if Rng(mix(seed, "fmdel", i)).chance(0.12):
        # a delete that names a buffer (the specification calls the field
        # not meaningful there): used or left alone, never half of each
        steps[-1].update(cmd=Rng(mix(seed, "fmdel2", i)).pick(
            [W.FC_DELETE, W.FC_DELETE_STRICT]), flags=0)
    elif k == "port_mod":
      # a port that must not cause packet-ins (or is switched back): its
      # misses must not touch the pool either
      steps.append({"op": "port_mod", "port": r.randint(1, nports),
                    "hw_ok": True,
                    "config": r.pick([W.PC_NO_PACKET_IN, W.PC_NO_PACKET_IN, 0,
                                      W.PC_NO_RECV]),
                    "mask": r.pick([W.PC_NO_PACKET_IN, W.PC_NO_PACKET_IN,
                                    W.PC_NO_PACKET_IN | W.PC_NO_RECV])})
    elif k == "set_config":
      steps.append({"op": "set_config", "flags": 0,
                    "msl": r.pick([0, 14, 64, 128, 1500, 0xffff])})
    else:
      fs, port = r.pick(frames)
      steps.append({"op": "packet_out", "in_port": W.OFPP_NONE,
                    "acts": [["output", W.OFPP_CONTROLLER,
                              r.pick([0, 16, 0xffff])]]
                    + _after_controller(r, nports), "f": fs})
      if Rng(mix(seed, "potable", i)).chance(0.4):
        # the controller's own packet sent through the table: a miss there
        # is a miss like any other (buffered if a slot is free)
        steps[-1].update(acts=[["output", W.OFPP_TABLE, 0]],
                         in_port=r.pick([W.OFPP_NONE, W.OFPP_NONE, port]))
  rdd = Rng(mix(seed, "decoy"))
  for st in steps:
    if st["op"] == "packet_out" and "buffer" in st \
        and st.get("badact") is None and rdd.chance(0.15):
      # the message names a buffer AND carries data (another frame): the
      # data is "only meaningful if buffer_id == -1", so this is a use of
      # the buffer like any other -- that packet goes out and is freed, or
      # the id is unknown and nothing goes out
      st["decoy"] = rdd.pick(frames)[0]
  rdp = Rng(mix(seed, "delport"))
  if rdp.chance(0.25) and nports > 1:
    # somewhere in the history a port is unplugged, possibly while packets
    # that arrived on it (or on others) are held
    steps.insert(rdp.randint(min(3, len(steps)), len(steps)),
                 {"op": "del_port", "port": rdp.randint(1, nports)})
  return {"prop": PROP, "seed": seed, "cfg": cfg, "steps": steps}


def run_plan(plan):
  res = swref.run(plan, PROP)
  p = res["probes"]
  res["nontrivial"] = bool(p.get("buffer_used") and p.get("buffer_bogus"))
  return res
