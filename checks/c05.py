"""
C05 -- event delivery order, halting, one-shot/removal, re-entrancy,
error suppression, undeclared types, weak handlers (pox.lib.revent.revent).

World: EVT (no simulator needed): fresh EventMixin sources and sink objects
in a freshly forked child, single thread, no clock.  The oracle is a
reference model of the subscription lists that is driven by the very same
operations and by the handler invocations observed through handler wrappers.
"""

import gc
import hashlib
import json
import sys

from simkit.rng import Rng, mix
from simkit.check import load_known

PROP = "C05"
LEVEL = "exploration"
BUDGET = {"quick": 20000, "thorough": 2000000}
RULE = ("Each run: a seeded history of 6-40 top-level operations on 1-2 "
        "fresh EventMixin sources (declaring EvA, EvB; EvC undeclared) and "
        "1-3 sink objects: subscribe (addListener / addListenerByName / "
        "byName=True / add_listener by type, by name and inferred; priority "
        "from {-1,0,0,1,5} or omitted; once; weak for sink methods), "
        "autoBindEvents / addListeners / listenTo with and without prefix, "
        "unsubscribe (handler, handler+type, eid, (type,eid), eid+type, "
        "removeListeners), raise (instance / class+args / class+kwargs; "
        "raiseEvent and raiseEventNoErrors), undeclared subscribe/raise, "
        "death of a sink (del + gc.collect()).  Every handler has a script "
        "consumed one entry per invocation (optionally sticky = last entry "
        "repeats): return None/True/False/EventHalt/EventRemove/"
        "EventHaltAndRemove/()/EventContinue or raise, optionally after a "
        "re-entrant subscribe / unsubscribe / raise (nesting <= maxdepth). "
        "30% of the runs use no priorities at all (lists never re-sorted). "
        "A run is non-trivial when it had >= 2 deliveries and >= 3 handler "
        "invocations; distinct = distinct digest of the operation/"
        "invocation log.")
ASSUMPTIONS = [
  "one live subscription per (handler, source, event type) at a time (a "
  "subscribe that would create a second one is skipped), so that every "
  "invocation is attributable to exactly one subscription; 8 % of the runs "
  "are of a second, simpler kind instead (passive handlers, no "
  "re-entrancy, a plain list model) in which the same handler is "
  "subscribed to one type any number of times",
  "where the statement is silent both behaviours are accepted: handlers "
  "subscribed during a delivery (0 or 1 invocation in it), handlers "
  "unsubscribed by another handler or fired-once in a nested delivery "
  "before their turn (0 or 1), a one-shot handler re-entered from its own "
  "invocation, the one-shot removal of a handler that raised in plain "
  "raiseEvent, the return value of a class-form raise without listeners, "
  "class-form raise of an undeclared type without listeners (None or "
  "ReventError), handlers after one that raised under raiseEventNoErrors",
  "handlers never raise ReventError themselves; a handler that sets "
  "event.halt itself also returns a value (False / EventRemove / "
  "EventContinue) -- setting the flag and returning None is left out "
  "(revent does not look at the flag then, and the statement does not say "
  "it should)",
  "unsubscribe operations only name subscriptions that exist or existed on "
  "that source (removing from a type that never had a listener is not "
  "exercised); clearHandlers is not exercised",
  "non-termination is decided deterministically per delivery: more than "
  "4*(handlers at raise + handlers subscribed during this delivery) + 8 "
  "invocations (hard cap 2000), or a handler whose sticky script "
  "subscribes a fresh listener on every invocation being re-invoked 8 "
  "times in a row directly after doing so (the loop feeds itself and the "
  "script never changes, so it cannot end); a double invocation that "
  "precedes it is reported as its own class when the delivery does end",
  "to tell which of two accepted states the implementation is in after a "
  "handler exception in plain raiseEvent, the harness reads "
  "_eventMixin_handlers (read-only)",
]
REAL = ["pox.lib.revent.revent EventMixin (raiseEvent, raiseEventNoErrors, "
        "addListener, addListenerByName, add_listener, removeListener, "
        "removeListeners, addListeners, listenTo, "
        "_eventMixin_get_listener_count)",
        "pox.lib.revent.revent autoBindEvents / CallProxy / Event / "
        "EventHalt.. constants",
        "pox.core._revent_exception_hook (installed as "
        "handleEventException)"]
STUBBED = ["event sources, event classes, sinks and handlers (generated)"]
EXPECT_PROBES = ["reentrant_subscribe", "reentrant_subscribe_prio",
                 "reentrant_unsubscribe", "reentrant_raise", "halt",
                 "halt_via_event_flag", "typed_removal_of_duplicates",
                 "weak_owner_died", "weak_owner_died_during_delivery",
                 "once_fired", "noerrors_exception",
                 "plain_exception", "undeclared_rejected", "ret_remove",
                 "autobind", "unsub_handler", "unsub_eid", "unsub_tuple",
                 "unsub_eid_type", "unsub_listeners", "sub_byname",
                 "raise_class_form", "raise_no_listeners", "weak_invoked",
                 "optional_after_removal", "sticky_script"]

K_RESORT = "C05-resort-during-delivery"
K_EIDTYPE = "C05-remove-eid-eventtype-unboundlocal"
K_WEAKRM = "C05-weak-remove-by-handler"

PRIOS = [-1, 0, 0, 1, 5, None]
RETS = [(8, "none"), (2, "true"), (2, "false"), (2, "halt"), (2, "remove"),
        (1, "haltremove"), (1, "empty"), (1, "cont"), (2, "exc"),
        # halting through the event object: the handler sets event.halt and
        # returns something that is not itself a halt
        (1, "flag_false"), (1, "flag_remove"), (1, "flag_cont")]
SINK_METHODS = ["m0", "m1", "_handle_EvA", "_handle_EvB", "_handle_p_EvA",
                "_handle_p_EvB"]
SUB_HOWS = [(6, "cls"), (2, "name"), (2, "bynamekw"), (2, "al_type"),
            (2, "al_name")]
RAISE_FORMS = [(4, "inst"), (3, "cls"), (1, "clskw")]
UNSUB_FORMS = [(4, "handler"), (2, "handler_type"), (3, "eid"), (3, "tuple"),
               (2, "eid_type"), (1, "listeners")]


# --------------------------------------------------------------------------
# generation
# --------------------------------------------------------------------------

def _g_sub(r, cfg, nh, handlers, reentrant=False):
  h = r.randrange(nh)
  hd = handlers[h]
  ev = r.wpick([(6, "A"), (4, "B"), (1 if not reentrant else 0.3, "C")])
  st = {"op": "sub", "h": h, "src": r.randrange(cfg["nsrc"]), "ev": ev,
        "how": r.wpick(SUB_HOWS),
        "prio": r.pick([0, None] if cfg["flat"] else PRIOS),
        "once": r.chance(0.2), "weak": False}
  if hd["kind"] == "meth":
    st["weak"] = r.chance(0.4)
    if hd["m"].startswith("_handle_") and r.chance(0.3):
      st["how"] = "al_infer"
      st["ev"] = hd["m"][-1]
  return st


def _g_unsub(r, cfg, nh, self_h=None):
  h = r.randrange(nh)
  if self_h is not None and r.chance(0.4):
    h = self_h
  return {"op": "unsub", "h": h, "form": r.wpick(UNSUB_FORMS)}


def _g_raise(r, cfg, reentrant=False):
  return {"op": "raise", "src": r.randrange(cfg["nsrc"]),
          "ev": r.wpick([(6, "A"), (4, "B"), (0.6 if not reentrant else 0.2,
                                              "C")]),
          "form": r.wpick(RAISE_FORMS), "noerr": r.chance(0.35)}


def _g_script(r, cfg, nh, handlers, h, busy):
  n = r.wpick([(5, 0), (4, 1), (3, 2), (1, 3)])
  if busy:
    n = max(n, 1)
  acts = []
  for _ in range(n):
    e = {"v": r.wpick(RETS)}
    k = r.wpick([(6, None), (3 if busy else 1, "sub"), (2, "unsub"),
                 (2, "raise"), (0.4, "clear"), (0.5, "kill")])
    if k == "kill":
      # the handler drops the last reference to some sink (the owner of
      # weakly subscribed handlers that may still be due in this delivery)
      e["do"] = {"op": "kill", "sink": r.randrange(cfg["nsink"])}
      if r.chance(0.35):
        # ... after sweeping the source's subscriptions away (so that the
        # dying owner's own clean-up finds nothing left to remove)
        e["do"]["clear_first"] = r.randrange(cfg["nsrc"])
    elif k == "sub":
      e["do"] = _g_sub(r, cfg, nh, handlers, True)
      if r.chance(0.5) and not cfg["flat"]:
        # the interesting case: the new listener outranks the running one
        e["do"]["prio"] = r.pick([1, 5, 5])
    elif k == "unsub":
      e["do"] = _g_unsub(r, cfg, nh, h)
    elif k == "raise":
      e["do"] = _g_raise(r, cfg, True)
    elif k == "clear":
      e["do"] = {"op": "clear", "src": r.randrange(cfg["nsrc"])}
    acts.append(e)
  sc = {"acts": acts, "sticky": False}
  if acts and "do" in acts[-1] and acts[-1]["do"]["op"] == "raise":
    pass
  elif acts and r.chance(0.25):
    sc["sticky"] = True
  return sc


def gen_plan(seed, tier):
  r = Rng(seed)
  cfg = {"nsrc": r.pick([1, 1, 2]), "nsink": r.randint(1, 3),
         "maxdepth": r.pick([2, 3]), "lazy_init": r.chance(0.3),
         "boom_base": r.chance(0.33),
         # flat: no priorities at all in this run (handler lists are then
         # never re-sorted, so plain append-during-delivery is exercised)
         "flat": r.chance(0.3)}
  handlers = []
  nfn = r.randint(2, 6)
  for _ in range(nfn):
    handlers.append({"kind": "fn"})
  for k in range(cfg["nsink"]):
    for m in SINK_METHODS:
      handlers.append({"kind": "meth", "sink": k, "m": m})
  nh = len(handlers)
  busy = r.chance(0.5)
  for h, hd in enumerate(handlers):
    hd["script"] = _g_script(r, cfg, nh, handlers, h, busy and h < nfn)
  n = r.randint(6, 40)
  steps = []
  # a few subscriptions first so that raises have something to deliver to
  for _ in range(r.randint(1, 5)):
    st = _g_sub(r, cfg, nh, handlers)
    if st["ev"] == "C":
      st["ev"] = "A"
    steps.append(st)
  kinds = [(10, "sub"), (9, "raise"), (4, "unsub"), (2, "autobind"),
           (1.5, "kill"), (0.5, "gc"), (0.4, "clear")]
  while len(steps) < n:
    k = r.wpick(kinds)
    if k == "sub":
      steps.append(_g_sub(r, cfg, nh, handlers))
    elif k == "raise":
      steps.append(_g_raise(r, cfg))
    elif k == "unsub":
      steps.append(_g_unsub(r, cfg, nh))
    elif k == "clear":
      steps.append({"op": "clear", "src": r.randrange(cfg["nsrc"])})
    elif k == "autobind":
      steps.append({"op": "autobind", "sink": r.randrange(cfg["nsink"]),
                    "src": r.randrange(cfg["nsrc"]),
                    "api": r.pick(["autoBindEvents", "addListeners",
                                   "listenTo"]),
                    "prefix": r.pick(["", "", "p", "_p"]),
                    "weak": r.chance(0.4),
                    "prio": r.pick([0, None] if cfg["flat"] else PRIOS)})
    elif k == "kill":
      steps.append({"op": "kill", "sink": r.randrange(cfg["nsink"])})
    else:
      steps.append({"op": "gc"})
  return {"prop": PROP, "seed": seed, "cfg": cfg, "handlers": handlers,
          "steps": steps}


# --------------------------------------------------------------------------
# execution: harness world + reference model
# --------------------------------------------------------------------------

class _Stop(BaseException):
  """a violation was recorded; unwind (BaseException so that handlers'
  `except Exception` never sees it; pox's bare except may, see dead flag)"""


class _Abort(BaseException):
  """non-terminating delivery: leave the real dispatch loop"""


class BoomE(Exception):
  """the exception a scripted handler raises"""


class BoomB(BaseException):
  """... or, in a third of the runs, one outside the Exception hierarchy
  (what sys.exit() or a generator close inside a handler would raise)"""


Boom = BoomE        # rebound per run (see run_plan)


class Sub(object):
  __slots__ = ("sid", "h", "src", "ev", "prio", "once", "weak", "eid",
               "live", "executing", "group")

  def __init__(self, sid, h, src, ev, prio, once, weak, eid):
    self.sid = sid
    self.h = h
    self.src = src
    self.ev = ev
    self.prio = prio
    self.once = once
    self.weak = weak
    self.eid = eid
    self.live = True
    self.executing = 0
    self.group = None


class Delivery(object):
  __slots__ = ("key", "tag", "T", "evobj", "snapshot", "byh", "pos",
               "added_byh", "nadded", "nremoved", "optional", "inv",
               "last_pos", "ninv", "halted", "raised", "resort_risk",
               "tainted", "depth", "prev", "selfloop", "halt_pos")


RETMAP = {"none": None, "true": True, "false": False, "exc": None}
HALTS = ("true", "halt", "haltremove", "empty", "flag_false", "flag_remove",
         "flag_cont")
REMOVES = ("false", "remove", "haltremove", "flag_false", "flag_remove")
GONE_CLASS = {"once": "once/invoked-again",
              "ret": "removed/self-removed-invoked-again",
              "unsub": "removed/unsubscribed-invoked-again",
              "weakdead": "weak/invoked-after-owner-death"}
HARD_CAP = 2000
SELFLOOP = 8


class World(object):

  def __init__(self, plan, known):
    from pox.lib.revent import revent as R
    self.R = R
    RETMAP.update(halt=R.EventHalt, remove=R.EventRemove,
                  haltremove=R.EventHaltAndRemove, empty=(),
                  cont=R.EventContinue, flag_false=False,
                  flag_remove=R.EventRemove, flag_cont=R.EventContinue)
    self.plan = plan
    self.known = known
    self.known_hit = set()
    cfg = self.cfg = plan["cfg"]
    self.nsrc = max(1, int(cfg.get("nsrc", 1)))
    self.maxdepth = int(cfg.get("maxdepth", 2))
    self.handlers = [dict(h) for h in plan.get("handlers", [])]
    self.nplan_handlers = len(self.handlers)
    self.script_pos = {}
    self.exec_h = []
    self.stats = {}
    self.probes = {}
    self.log = []
    self.violation = None
    self.pending = None
    self.aborted = False
    self.ntag = 0
    self.seq = 0
    self.ninvocations = 0
    self.ndeliveries = 0

    w = self

    class EvA(R.Event):
      def __init__(self, tag=None):
        self.tag = tag

    class EvB(R.Event):
      def __init__(self, tag=None):
        self.tag = tag

    class EvC(R.Event):
      def __init__(self, tag=None):
        self.tag = tag

    self.EV = {"A": EvA, "B": EvB, "C": EvC}

    if cfg.get("lazy_init"):
      class Source(R.EventMixin):
        _eventMixin_events = set([EvA, EvB])

        def __init__(self):
          pass          # EventMixin initialises itself lazily
    else:
      class Source(R.EventMixin):
        _eventMixin_events = set([EvA, EvB])

    if cfg.get("falsy_source"):
      # a publisher that is also an (empty) container, as pox's flow table
      # and topology classes are: alive, and false in a boolean context
      Source.__len__ = lambda self: 0
      self.probe("falsy_source")

    def mk(m):
      def meth(self, e):
        return w.invoke(w.mname.get((self._k, m), -1), e)
      meth.__name__ = m
      return meth
    ns = dict((m, mk(m)) for m in SINK_METHODS + ["_handle_EvC"])

    def sink_init(self, k):
      self._k = k
    ns["__init__"] = sink_init
    Sink = type("Sink", (R.EventMixin,), ns)

    self.sources = [Source() for _ in range(self.nsrc)]
    self.nsink = max(0, int(cfg.get("nsink", 1)))
    self.sinks = [Sink(k) for k in range(self.nsink)]
    self.mname = {}
    self.fn = {}
    for h, hd in enumerate(self.handlers):
      if hd.get("kind") == "meth":
        self.mname[(hd["sink"], hd["m"])] = h
      else:
        self.fn[h] = self._mkfn(h)

    # reference model
    self.subs = {}          # (src, ev) -> [Sub] live, in delivery order
    self.live_by = {}       # (h, src, ev) -> live Sub
    self.nolist = set()     # (src, ev) without a handler list since a clear
    self.ever = {}          # h -> [Sub] in subscription order
    self.gone = {}          # (h, src, ev) -> why the last one went away
    self.prioritised = set()
    self.stack = []

  # -- small helpers -------------------------------------------------------

  def _mkfn(self, h):
    w = self

    def fn(e):
      return w.invoke(h, e)
    return fn

  def probe(self, k, n=1):
    self.probes[k] = self.probes.get(k, 0) + n

  def stat(self, k, n=1):
    self.stats[k] = self.stats.get(k, 0) + n

  def fail(self, vclass, detail):
    if self.violation is None:
      if self.pending is not None and vclass != "nonterminating-delivery":
        vclass, detail = self.pending
      self.violation = (vclass, detail)
      self.log.append(("V", vclass))
    raise _Stop()

  def callable_of(self, h):
    hd = self.handlers[h]
    if hd.get("kind") == "meth":
      k = hd["sink"]
      if k >= len(self.sinks) or self.sinks[k] is None:
        return None
      return getattr(self.sinks[k], hd["m"])
    return self.fn[h]

  def hname(self, h):
    if h < 0 or h >= len(self.handlers):
      return "h?"
    hd = self.handlers[h]
    if hd.get("kind") == "meth":
      return "h%d(sink%d.%s)" % (h, hd["sink"], hd["m"])
    return "h%d" % h

  def describe(self, D):
    return ("delivery #%d of Ev%s on source %d (handlers at raise, in "
            "order: %s; invoked so far: %s)"
            % (D.tag, D.key[1], D.key[0],
               [("%s prio=%s" % (self.hname(x.h), x.prio)) for x in
                D.snapshot],
               [self.hname(h) for h in D.prev]))

  def impl_has(self, X):
    src = self.sources[X.src]
    lst = getattr(src, "_eventMixin_handlers", {}).get(self.EV[X.ev], [])
    return any(e[3] == X.eid for e in lst)

  def count_of(self, s):
    src = self.sources[s]
    if not hasattr(src, "_eventMixin_handlers"):
      return None
    return src._eventMixin_get_listener_count()

  def model_count(self, s):
    return sum(len(v) for (ss, _), v in self.subs.items() if ss == s)

  # -- model mutation ------------------------------------------------------

  def m_add(self, h, s, ev, prio, once, weak, eid):
    self.seq += 1
    X = Sub(self.seq, h, s, ev, prio, once, weak, eid)
    key = (s, ev)
    self.nolist.discard(key)
    lst = self.subs.setdefault(key, [])
    lst.append(X)
    lst.sort(key=lambda x: (-x.prio, x.sid))
    self.live_by[(h, s, ev)] = X
    self.ever.setdefault(h, []).append(X)
    if prio != 0:
      self.prioritised.add(key)
    for D in self.stack:
      if D.key == key:
        D.added_byh[h] = X
        D.nadded += 1
        if key in self.prioritised:
          D.resort_risk = True
    return X

  def m_remove(self, X, why):
    if not X.live:
      return
    X.live = False
    self.subs[(X.src, X.ev)].remove(X)
    del self.live_by[(X.h, X.src, X.ev)]
    self.gone[(X.h, X.src, X.ev)] = why
    for D in self.stack:
      if D.key == (X.src, X.ev):
        D.nremoved += 1
        if D.byh.get(X.h) is X and not D.inv.get(X.sid):
          D.optional.add(X.sid)

  def blocked(self, h, s, ev):
    if (h, s, ev) in self.live_by:
      return True
    for D in self.stack:
      if D.key == (s, ev) and (h in D.byh or h in D.added_byh):
        return True
    return False

  # -- operations (top level and re-entrant) -------------------------------

  def do_step(self, st, depth, self_h):
    if self.violation is not None or self.aborted:
      return
    op = st.get("op")
    if op == "sub":
      self.do_sub(st, depth)
    elif op == "unsub":
      self.do_unsub(st, depth)
    elif op == "raise":
      self.do_raise(st, depth)
    elif op == "clear":
      self.do_clear(st, depth)
    elif op == "kill":
      if depth and st.get("clear_first") is not None:
        self.do_clear({"op": "clear", "src": st["clear_first"]}, depth)
      self.do_kill(st, depth)
    elif depth == 0:
      if op == "autobind":
        self.do_autobind(st)
      elif op == "gc":
        gc.collect()
        self.log.append(("gc",))

  def do_sub(self, st, depth):
    R = self.R
    h = st["h"]
    if h == -1:
      # a brand new function handler (used by sticky re-entrant subscribes)
      h = len(self.handlers)
      self.handlers.append({"kind": "fn", "script": {"acts": []}})
      self.fn[h] = self._mkfn(h)
    if h < 0 or h >= len(self.handlers):
      return False
    hd = self.handlers[h]
    f = self.callable_of(h)
    if f is None:
      return False
    s = st["src"] % self.nsrc
    src = self.sources[s]
    ev = st["ev"]
    how = st.get("how", "cls")
    ismeth = hd.get("kind") == "meth"
    if how == "al_infer":
      if ismeth and hd["m"].startswith("_handle_"):
        ev = hd["m"][-1]
      else:
        how = "al_type"
    weak = bool(st.get("weak")) and ismeth
    once = bool(st.get("once"))
    prio = st.get("prio")
    if ev != "C" and self.blocked(h, s, ev):
      self.stat("sub_skipped_duplicate")
      return False
    kw = {}
    if prio is not None:
      kw["priority"] = prio
    if once:
      kw["once"] = True
    if weak:
      kw["weak"] = True
    T = self.EV[ev]
    name = "Ev" + ev
    self.log.append(("sub", depth, h, s, ev, how, prio, once, weak))
    try:
      if how == "cls":
        rv = src.addListener(T, f, **kw)
      elif how == "name":
        rv = src.addListenerByName(name, f, **kw)
      elif how == "bynamekw":
        rv = src.addListener(name, f, byName=True, **kw)
      elif how == "al_type":
        rv = src.add_listener(f, event_type=T, **kw)
      elif how == "al_name":
        rv = src.add_listener(f, event_name=name, **kw)
      else:
        rv = src.add_listener(f, **kw)
    except R.ReventError as e:
      if ev == "C":
        self.probe("undeclared_rejected")
        self.probe("undeclared_subscribe_rejected")
        return False
      self.fail("subscribe/declared-type-rejected",
                "subscribing %s to Ev%s (%s) raised ReventError: %s"
                % (self.hname(h), ev, how, e))
    except Exception as e:
      self.fail("subscribe/raised", "subscribing %s to Ev%s (%s) raised %s"
                % (self.hname(h), ev, how, type(e).__name__))
    if ev == "C":
      self.fail("undeclared/subscribe-accepted",
                "subscribing to the undeclared type EvC via %s was accepted"
                % how)
    if not (type(rv) is tuple and len(rv) == 2 and rv[0] is T
            and type(rv[1]) is int):
      self.fail("subscribe/return-value",
                "addListener returned something other than (eventType, eid)")
    self.m_add(h, s, ev, prio or 0, once, weak, rv[1])
    self.stat("subscribe")
    if how in ("name", "bynamekw", "al_name", "al_infer"):
      self.probe("sub_byname")
    if weak:
      self.probe("sub_weak")
    if depth:
      self.probe("reentrant_subscribe")
      if (s, ev) in self.prioritised:
        self.probe("reentrant_subscribe_prio")
    return True

  def do_unsub(self, st, depth):
    h = st["h"]
    ever = self.ever.get(h)
    if not ever:
      return
    X = ever[-1]
    form = st.get("form", "handler")
    s = X.src
    src = self.sources[s]
    T = self.EV[X.ev]
    f = None
    if form in ("handler", "handler_type"):
      f = self.callable_of(h)
      if f is None:
        return
    if form == "handler":
      removed = [x for (hh, ss, _), x in sorted(self.live_by.items(),
                                                key=lambda kv: kv[1].sid)
                 if hh == h and ss == s]
    elif form == "listeners":
      grp = X.group or [X]
      removed = [x for x in grp if x.live]
    else:
      removed = [X] if X.live else []
    if form in ("handler_type", "tuple", "eid_type", "listeners") and any(
        (s, x.ev) in self.nolist for x in (X.group or [X])):
      # unsubscribing, by type, something a clearHandlers() already took
      # away, from a source that has had no subscriber of that type since:
      # the statement says nothing about it (pox raises KeyError)
      self.probe("unsub_after_clear_skipped")
      return
    before = self.count_of(s)
    self.log.append(("unsub", depth, h, form, len(removed)))
    self.probe({"handler": "unsub_handler", "handler_type": "unsub_handler",
                "eid": "unsub_eid", "tuple": "unsub_tuple",
                "eid_type": "unsub_eid_type",
                "listeners": "unsub_listeners"}[form])
    if depth:
      self.probe("reentrant_unsubscribe")
    try:
      if form == "handler":
        src.removeListener(f)
      elif form == "handler_type":
        src.removeListener(f, T)
      elif form == "eid":
        src.removeListener(X.eid)
      elif form == "tuple":
        src.removeListener((T, X.eid))
      elif form == "eid_type":
        src.removeListener(X.eid, T)
      else:
        src.removeListeners([(self.EV[x.ev], x.eid)
                             for x in (X.group or [X])])
    except Exception as e:
      if form == "eid_type" and isinstance(e, UnboundLocalError):
        if K_EIDTYPE in self.known:
          self.known_hit.add(K_EIDTYPE)
          return           # nothing was removed: the model stays as it is
        self.fail("unsub/eid+type-raises",
                  "removeListener(eid, eventType) raised %s: %s"
                  % (type(e).__name__, e))
      self.fail("unsub/raised", "removeListener (%s form) raised %s: %s"
                % (form, type(e).__name__, e))
    after = self.count_of(s)
    got = before - after
    if got != len(removed):
      weak = [x for x in removed if x.weak]
      if (form in ("handler", "handler_type") and weak
          and got == len(removed) - len(weak)):
        if K_WEAKRM in self.known:
          self.known_hit.add(K_WEAKRM)
          removed = [x for x in removed if not x.weak]
        else:
          self.fail("unsub/weak-by-handler-ineffective",
                    "removeListener(handler) left the weak subscription of "
                    "%s to Ev%s on source %d in place (listener count %d -> "
                    "%d, expected %d)" % (self.hname(h), X.ev, s, before,
                                          after, before - len(removed)))
      else:
        self.fail("unsub/ineffective",
                  "removeListener (%s form) for %s changed the listener "
                  "count of source %d from %d to %d, expected %d"
                  % (form, self.hname(h), s, before, after,
                     before - len(removed)))
    for x in removed:
      self.m_remove(x, "unsub")
    if removed:
      self.stat("unsubscribe")

  def do_clear(self, st, depth):
    """clearHandlers(): every subscription of the source goes, whatever the
    event type; a delivery in progress goes on over what it started with"""
    s = st["src"] % self.nsrc
    src = self.sources[s]
    removed = [x for (hh, ss, _), x in sorted(self.live_by.items(),
                                              key=lambda kv: kv[1].sid)
               if ss == s]
    self.log.append(("clear", depth, s, len(removed)))
    self.probe("clear_handlers")
    if depth:
      self.probe("reentrant_clear")
    try:
      src.clearHandlers()
    except Exception as e:
      self.fail("clear/raised", "clearHandlers() raised %s: %s"
                % (type(e).__name__, e))
    if self.count_of(s) != 0:
      self.fail("clear/ineffective", "clearHandlers() left %d listener(s) on "
                "source %d" % (self.count_of(s), s))
    for x in removed:
      self.m_remove(x, "unsub")
    for ev in self.EV:
      self.nolist.add((s, ev))

  def do_autobind(self, st):
    R = self.R
    k = st["sink"]
    if k >= len(self.sinks) or self.sinks[k] is None:
      return
    sink = self.sinks[k]
    s = st["src"] % self.nsrc
    src = self.sources[s]
    prefix = st.get("prefix", "")
    weak = bool(st.get("weak"))
    prio = st.get("prio")
    stem = "_handle_p_" if prefix else "_handle_"
    targets = []
    for ev in ("A", "B"):
      h = self.mname.get((k, stem + "Ev" + ev))
      if h is None:
        return
      if self.blocked(h, s, ev):
        self.stat("sub_skipped_duplicate")
        return
      targets.append((h, ev))
    kw = {"prefix": prefix, "weak": weak}
    if prio is not None:
      kw["priority"] = prio
    api = st.get("api", "autoBindEvents")
    self.log.append(("autobind", k, s, api, prefix, weak, prio))
    try:
      if api == "autoBindEvents":
        rv = R.autoBindEvents(sink, src, **kw)
      elif api == "addListeners":
        rv = src.addListeners(sink, **kw)
      else:
        rv = sink.listenTo(src, prefix, weak, *([] if prio is None
                                                else [prio]))
    except Exception as e:
      self.fail("autobind/raised", "%s raised %s: %s"
                % (api, type(e).__name__, e))
    byT = {}
    ok = type(rv) is list and len(rv) == 2
    if ok:
      for item in rv:
        if not (type(item) is tuple and len(item) == 2
                and type(item[1]) is int):
          ok = False
          break
        byT[item[0]] = item[1]
    if not ok or set(byT) != set([self.EV["A"], self.EV["B"]]):
      self.fail("autobind/return-value",
                "%s(prefix=%r) did not return one (type, eid) per declared "
                "event with a matching _handle method" % (api, prefix))
    grp = []
    for h, ev in targets:
      grp.append(self.m_add(h, s, ev, prio or 0, False, weak,
                            byT[self.EV[ev]]))
    for x in grp:
      x.group = grp
    self.probe("autobind")
    if weak:
      self.probe("sub_weak")

  def do_kill(self, st, depth=0):
    import weakref
    k = st["sink"]
    if k >= len(self.sinks) or self.sinks[k] is None:
      return
    if any(self.handlers[h].get("kind") == "meth"
           and self.handlers[h]["sink"] == k for h in self.exec_h):
      # one of its own methods is running: the frame keeps it alive
      self.stat("kill_skipped_running")
      return
    if depth:
      # the listener lists being walked right now hold the bound methods of
      # strong subscriptions (also of ones removed meanwhile): those keep
      # the sink alive until their delivery ends
      for D in self.stack:
        for X in D.snapshot:
          hd = self.handlers[X.h]
          if not X.weak and hd.get("kind") == "meth" and hd["sink"] == k:
            self.stat("kill_skipped_held_by_delivery")
            return
      self.probe("weak_owner_died_during_delivery")
    mine = [x for x in self.live_by.values()
            if self.handlers[x.h].get("kind") == "meth"
            and self.handlers[x.h]["sink"] == k]
    if any(not x.weak for x in mine):
      self.stat("kill_skipped_strongly_held")
      return
    wr = weakref.ref(self.sinks[k])
    self.sinks[k] = None
    gc.collect()
    self.log.append(("kill", k, len(mine)))
    if wr() is not None:
      self.fail("weak/owner-kept-alive",
                "sink %d has only weak subscriptions but was not released "
                "after its last reference was dropped and gc.collect()" % k)
    for x in sorted(mine, key=lambda x: x.sid):
      self.m_remove(x, "weakdead")
    if mine:
      self.probe("weak_owner_died")

  def do_raise(self, st, depth):
    R = self.R
    if depth > self.maxdepth:
      self.stat("raise_skipped_depth")
      return
    s = st["src"] % self.nsrc
    src = self.sources[s]
    ev = st["ev"]
    form = st.get("form", "inst")
    noerr = bool(st.get("noerr"))
    T = self.EV[ev]
    self.ntag += 1
    D = Delivery()
    D.key = (s, ev)
    D.tag = self.ntag
    D.T = T
    D.evobj = T(D.tag) if form == "inst" else None
    D.snapshot = list(self.subs.get(D.key, []))
    D.byh = dict((x.h, x) for x in D.snapshot)
    D.pos = dict((x.sid, i) for i, x in enumerate(D.snapshot))
    D.added_byh = {}
    D.nadded = 0
    D.nremoved = 0
    D.optional = set(x.sid for x in D.snapshot if x.executing and x.once)
    D.inv = {}
    D.last_pos = -1
    D.ninv = 0
    D.halted = False
    D.halt_pos = None
    D.raised = None
    D.resort_risk = False
    D.tainted = False
    D.depth = depth
    D.prev = []
    D.selfloop = {}
    self.ndeliveries += 1
    self.log.append(("raise", depth, s, ev, form, noerr, len(D.snapshot)))
    if depth:
      self.probe("reentrant_raise")
    if form != "inst":
      self.probe("raise_class_form")
    if not D.snapshot:
      self.probe("raise_no_listeners")
    fn = src.raiseEventNoErrors if noerr else src.raiseEvent
    self.stack.append(D)
    boom = False
    try:
      try:
        if form == "inst":
          rv = fn(D.evobj)
        elif form == "cls":
          rv = fn(T, D.tag)
        else:
          rv = fn(T, tag=D.tag)
      finally:
        self.stack.pop()
    except Boom:
      if noerr:
        self.fail("noerrors/propagated",
                  "raiseEventNoErrors let a handler's exception escape; "
                  + self.describe(D))
      boom = True
    except R.ReventError as e:
      if ev == "C":
        self.probe("undeclared_rejected")
        self.probe("undeclared_raise_rejected")
        return
      self.fail("raise/reventerror", "raising declared Ev%s raised "
                "ReventError: %s; %s" % (ev, e, self.describe(D)))
    except (_Stop, _Abort):
      raise
    except Exception as e:
      self.fail("raise/unexpected-exception",
                "%s raised %s: %s; %s" % ("raiseEventNoErrors" if noerr else
                                          "raiseEvent", type(e).__name__, e,
                                          self.describe(D)))
    if self.violation is not None:
      raise _Stop()
    if self.aborted:
      raise _Abort()
    if boom:
      self.probe("plain_exception")
      self.resync_raiser(D)
      if depth:
        raise Boom()       # the handler that raised nested does not catch
      return
    if ev == "C":
      if form == "inst" or rv is not None:
        self.fail("undeclared/raise-accepted",
                  "raising the undeclared type EvC (%s form) was accepted"
                  % form)
      self.probe("undeclared_class_form_none")
      return
    if D.raised is not None:
      # (only reachable with error suppression, or if plain raiseEvent
      # swallowed the exception, which the statement does not forbid)
      if noerr:
        self.probe("noerrors_exception")
      self.resync_raiser(D)
      return
    if D.tainted:
      return
    if not D.halted:
      self.check_skipped(D, len(D.snapshot))
    elif D.halt_pos is not None:
      self.check_skipped(D, D.halt_pos)
    if form == "inst":
      if rv is not D.evobj:
        self.fail("raise/return-value",
                  "raiseEvent(instance) did not return the event instance")
    elif D.snapshot:
      if not (type(rv) is T and getattr(rv, "tag", None) == D.tag):
        self.fail("raise/return-value",
                  "raiseEvent(class, args) with listeners did not return "
                  "the constructed event")
    elif not (rv is None or type(rv) is T):
      self.fail("raise/return-value",
                "raiseEvent(class, args) returned an unrelated object")
    if rv is not None:
      if D.halted and rv.halt is not True:
        self.fail("halt/flag-not-set", "a handler halted the event but "
                  "event.halt is %r; %s" % (rv.halt, self.describe(D)))
      if not D.halted and rv.halt:
        self.fail("halt/flag-set-without-halt",
                  "event.halt set although no handler halted; "
                  + self.describe(D))

  def resync_raiser(self, D):
    X = D.raised
    if X is not None and X.once and X.live and not self.impl_has(X):
      self.m_remove(X, "once")

  def check_skipped(self, D, upto):
    for Y in D.snapshot[:upto]:
      if not D.inv.get(Y.sid) and Y.sid not in D.optional:
        why = ("reentrant-add" if D.nadded else
               "reentrant-remove" if D.nremoved else "plain")
        self.fail("skipped/" + why,
                  "%s was subscribed at raise time, nobody removed it and "
                  "nobody halted before it, yet it was not invoked; %s"
                  % (self.hname(Y.h), self.describe(D)))

  # -- the handler wrapper -------------------------------------------------

  def invoke(self, h, e):
    if self.violation is not None or self.aborted:
      return None
    if not self.stack:
      self.fail("spurious/outside-delivery",
                "%s invoked while no event was being raised" % self.hname(h))
    D = self.stack[-1]
    if D.evobj is not None:
      same = e is D.evobj
    else:
      same = type(e) is D.T and getattr(e, "tag", None) == D.tag
    if not same:
      self.fail("spurious/wrong-event",
                "%s received an event object that is not the one being "
                "raised; %s" % (self.hname(h), self.describe(D)))
    D.ninv += 1
    self.ninvocations += 1
    X = D.byh.get(h)
    added = False
    if X is None:
      X = D.added_byh.get(h)
      added = True
    if X is None:
      why = self.gone.get((h,) + D.key)
      self.fail(GONE_CLASS.get(why, "spurious/not-subscribed"),
                "%s was invoked although it was not subscribed when the "
                "event was raised (%s); %s"
                % (self.hname(h), why or "never subscribed to this "
                   "source/type", self.describe(D)))
    if D.ninv > min(HARD_CAP, 4 * (len(D.snapshot) + D.nadded) + 8):
      self.nonterminating(D, X, "%d handler invocations for %d handlers "
                          "subscribed at raise time + %d subscribed during "
                          "the delivery" % (D.ninv, len(D.snapshot),
                                            D.nadded))
    if D.halted and not D.tainted:
      self.fail("halt/continued-after-halt",
                "%s invoked after an earlier handler halted the event; %s"
                % (self.hname(h), self.describe(D)))
    n = D.inv.get(X.sid, 0)
    if n >= 1:
      if D.resort_risk:
        self.resort_hit(D, X)
      elif not D.tainted:
        why = ("added-during-delivery" if added else
               "reentrant-add" if D.nadded else
               "reentrant-remove" if D.nremoved else "plain")
        self.fail("twice/" + why, "%s invoked twice in one delivery; %s"
                  % (self.hname(h), self.describe(D)))
    elif not added and not D.tainted:
      p = D.pos[X.sid]
      if p < D.last_pos:
        L = D.snapshot[D.last_pos]
        self.fail("order/priority" if L.prio != X.prio else
                  "order/subscription",
                  "%s (prio %d) invoked after %s (prio %d); %s"
                  % (self.hname(h), X.prio, self.hname(L.h), L.prio,
                     self.describe(D)))
      D.last_pos = p
    D.inv[X.sid] = n + 1
    D.prev.append(h)
    if added:
      self.probe("added_during_invoked")
    if X.sid in D.optional:
      self.probe("optional_after_removal")
    if X.weak:
      self.probe("weak_invoked")
    self.log.append(("i", D.tag, h))

    # what the handler does this time
    sc = self.handlers[h].get("script") or {}
    acts = sc.get("acts") or []
    i = self.script_pos.get(h, 0)
    self.script_pos[h] = i + 1
    entry = None
    sticky = False
    if i < len(acts):
      entry = acts[i]
    elif acts and sc.get("sticky") and \
        (acts[-1].get("do") or {}).get("op") != "raise":
      entry = acts[-1]
      sticky = True
      self.probe("sticky_script")
    v = "none"
    X.executing += 1
    self.exec_h.append(h)
    try:
      if entry is not None:
        v = entry.get("v", "none")
        do = entry.get("do")
        if do is not None:
          if sticky and do.get("op") == "sub":
            do = dict(do, h=-1)
            if self.do_sub(do, D.depth + 1):
              c = D.selfloop.get(X.sid, 0) + 1
              D.selfloop[X.sid] = c
              if c > SELFLOOP and len(D.prev) > SELFLOOP and \
                  all(p == h for p in D.prev[-SELFLOOP:]):
                self.nonterminating(
                    D, X, "%s subscribes a new listener every time it is "
                    "invoked (sticky script) and has now been re-invoked "
                    "%d times in a row right after doing so"
                    % (self.hname(h), SELFLOOP))
          else:
            self.do_step(do, D.depth + 1, h)
        if v == "exc":
          raise Boom()
        if v.startswith("flag_"):
          e.halt = True
          self.probe("halt_via_event_flag")
    except Boom:
      X.executing -= 1
      self.exec_h.pop()
      D.raised = X
      self.stat("handler_exception")
      raise
    X.executing -= 1
    self.exec_h.pop()
    if self.violation is not None or self.aborted:
      return None
    # what the event system is expected to do with the return value
    if X.once:
      if X.live:
        self.probe("once_fired")
      self.m_remove(X, "once")
    if v in REMOVES:
      if X.live:
        self.probe("ret_remove")
      self.m_remove(X, "ret")
    if v in HALTS:
      if not D.halted:
        # handlers ordered after the halting one need not run; if the
        # halting one was subscribed during the delivery nothing is known
        # about who had to run before it
        D.halt_pos = None if added else D.pos[X.sid]
      D.halted = True
      self.probe("halt")
    return RETMAP.get(v)

  def resort_hit(self, D, X):
    D.tainted = True
    if K_RESORT in self.known:
      self.known_hit.add(K_RESORT)
    elif self.pending is None:
      self.pending = (
          "twice/reentrant-prioritised-subscribe",
          "%s invoked twice in one delivery after a handler subscribed a "
          "listener to the same source/type whose handler list is kept "
          "sorted by priority; %s" % (self.hname(X.h), self.describe(D)))

  def nonterminating(self, D, X, what):
    if D.tainted and K_RESORT in self.known:
      self.known_hit.add(K_RESORT)
      self.stat("truncated_known_nontermination")
      self.aborted = True
      raise _Abort()
    self.aborted = True
    try:
      self.fail("nonterminating-delivery",
                "delivery does not terminate: %s; delivery #%d of Ev%s on "
                "source %d, last invocations %s"
                % (what, D.tag, D.key[1], D.key[0],
                   [self.hname(p) for p in D.prev[-6:]]))
    except _Stop:
      raise _Abort()

  # -- driver --------------------------------------------------------------

  def run(self):
    for st in self.plan.get("steps", []):
      if not isinstance(st, dict):
        continue
      try:
        self.do_step(st, 0, None)
      except Boom:
        pass
      if self.violation is not None or self.aborted:
        return
      if self.pending is not None:
        self.fail(*self.pending)
      for s in range(self.nsrc):
        c = self.count_of(s)
        if c is not None and c != self.model_count(s):
          self.fail("count/mismatch",
                    "after step %s source %d has %d listeners, the model "
                    "has %d" % (json.dumps(st, sort_keys=True), s, c,
                                self.model_count(s)))


def run_plan(plan):
  gc.disable()
  known = load_known(PROP)
  globals()["Boom"] = BoomB if plan["cfg"].get("boom_base") else BoomE
  unraisable = []
  sys.unraisablehook = lambda u: unraisable.append(type(u.exc_value).__name__)
  w = World(plan, known)
  if plan["cfg"].get("boom_base"):
    w.stats["boom_is_baseexception"] = 1
  try:
    w.run()
  except (_Stop, _Abort):
    pass
  res = {"verdict": "ok"}
  if w.violation is not None:
    res.update(verdict="violation", vclass=w.violation[0],
               detail=w.violation[1])
  res["digest"] = hashlib.sha1(
      json.dumps(w.log, sort_keys=True).encode()).hexdigest()[:16]
  if unraisable:
    # (e.g. the weak-reference callback of a handler whose subscription a
    # clearHandlers() had already removed: pox raises KeyError there, Python
    # reports and ignores it)
    w.stats["unraisable_in_weakref_callback"] = len(unraisable)
  w.stats["deliveries"] = w.ndeliveries
  w.stats["invocations"] = w.ninvocations
  res["stats"] = dict(w.stats)
  res["probes"] = dict(w.probes)
  res["nontrivial"] = w.ndeliveries >= 2 and w.ninvocations >= 3
  res["sim_time"] = 0.0
  res["steps"] = len(plan.get("steps", []))
  res["known"] = sorted(w.known_hit)
  return res


def minimise_hint(plan):
  """Simplifications the generic ddmin cannot do: empty or shorten handler
  scripts, drop options of steps."""
  out = []
  hs = plan.get("handlers", [])
  for i, hd in enumerate(hs):
    sc = hd.get("script") or {}
    acts = sc.get("acts") or []
    if not acts:
      continue
    p = json.loads(json.dumps(plan))
    p["handlers"][i]["script"] = {"acts": [], "sticky": False}
    out.append(p)
    if len(acts) > 1:
      for j in range(len(acts)):
        p = json.loads(json.dumps(plan))
        del p["handlers"][i]["script"]["acts"][j]
        out.append(p)
    for j, a in enumerate(acts):
      if a.get("v", "none") != "none" and "do" in a:
        p = json.loads(json.dumps(plan))
        p["handlers"][i]["script"]["acts"][j]["v"] = "none"
        out.append(p)
  if plan.get("cfg", {}).get("nsrc", 1) > 1:
    p = json.loads(json.dumps(plan))
    p["cfg"]["nsrc"] = 1
    out.append(p)
  for i, st in enumerate(plan.get("steps", [])):
    if isinstance(st, dict) and st.get("op") == "sub":
      for k, dv in (("once", False), ("weak", False), ("how", "cls")):
        if st.get(k, dv) != dv:
          p = json.loads(json.dumps(plan))
          p["steps"][i][k] = dv
          out.append(p)
  return out


# ---------------------------------------------------------------------------
# duplicate subscriptions (a separate, simpler world)
#
# The main world keeps one live subscription per (handler, source, type) so
# that every invocation is attributable.  Here the same handler may be
# subscribed to one type any number of times, with passive handlers, no
# re-entrancy and a list model: every entry is invoked once per raise, in
# priority / subscription order; removal by handler takes all of a handler's
# entries (of that type when a type is given), removal by id exactly one.
# ---------------------------------------------------------------------------

def _gen_dup(seed):
  r = Rng(mix(seed, "dup-plan"))
  flat = r.chance(0.4)
  steps = []
  nsub = 0
  for _ in range(r.randint(6, 24)):
    k = r.wpick([(6, "sub"), (4, "unsub"), (4, "raise")])
    if k == "sub" or nsub == 0:
      steps.append({"op": "sub", "h": r.wpick([(5, 0), (3, 1), (1, 2)]),
                    "ev": r.pick("AAB"),
                    "prio": 0 if flat else r.pick([0, 0, 0, 5, 5, -1]),
                    "once": r.chance(0.1)})
      nsub += 1
    elif k == "unsub":
      steps.append({"op": "unsub", "h": r.randrange(3), "ev": r.pick("AAB"),
                    "which": r.randrange(nsub),
                    "form": r.wpick([(4, "handler_type"), (3, "handler"),
                                     (2, "eid"), (2, "tuple"),
                                     (1, "eid_type")])})
    else:
      steps.append({"op": "raise", "ev": r.pick("AAB"),
                    "halt": r.chance(0.1)})
  return {"prop": PROP, "seed": seed, "cfg": {"dup_mode": True, "flat": flat},
          "handlers": [], "steps": steps}


def _run_dup(plan):
  from pox.lib.revent import revent as R

  class EvA(R.Event):
    pass

  class EvB(R.Event):
    pass
  EV = {"A": EvA, "B": EvB}

  class Src(R.EventMixin):
    _eventMixin_events = set([EvA, EvB])
  src = Src()
  log = []
  inv = []
  halting = [False]

  def mk(h):
    def f(event):
      inv.append(h)
      if halting[0] and h == 0:
        return R.EventHalt
    f.__name__ = "h%d" % h
    return f
  fn = [mk(h) for h in range(3)]
  model = {"A": [], "B": []}      # entries: dict(prio, seq, h, eid, once)
  subs = []                       # every subscription ever made, in order
  seq = [0]
  viol = [None]
  probes = {"dup_mode": 1}

  def fail(vc, det):
    if viol[0] is None:
      viol[0] = (vc, det)

  def order(ev):
    return sorted(model[ev], key=lambda e: (-e["prio"], e["seq"]))

  for i, st in enumerate(plan["steps"]):
    if viol[0] is not None:
      break
    op = st["op"]
    if op == "sub":
      kw = {}
      if st["prio"]:
        kw["priority"] = st["prio"]
      if st.get("once"):
        kw["once"] = True
      t, eid = src.addListener(EV[st["ev"]], fn[st["h"]], **kw)
      seq[0] += 1
      e = {"prio": st["prio"], "seq": seq[0], "h": st["h"], "eid": eid,
           "once": bool(st.get("once")), "ev": st["ev"]}
      if any(x["h"] == st["h"] for x in model[st["ev"]]):
        probes["same_handler_subscribed_again"] = \
            probes.get("same_handler_subscribed_again", 0) + 1
      model[st["ev"]].append(e)
      subs.append(e)
      log.append(("sub", st["h"], st["ev"], st["prio"]))
    elif op == "unsub":
      form = st["form"]
      if form == "handler":
        src.removeListener(fn[st["h"]])
        for ev in model:
          model[ev] = [x for x in model[ev] if x["h"] != st["h"]]
      elif form == "handler_type":
        if not src._eventMixin_handlers.get(EV[st["ev"]]):
          continue      # (a type that never had a listener: not exercised)
        n = len([x for x in model[st["ev"]] if x["h"] == st["h"]])
        if n >= 2:
          probes["typed_removal_of_duplicates"] = \
              probes.get("typed_removal_of_duplicates", 0) + 1
        src.removeListener(fn[st["h"]], EV[st["ev"]])
        model[st["ev"]] = [x for x in model[st["ev"]] if x["h"] != st["h"]]
      else:
        e = subs[st["which"] % len(subs)]
        if form == "eid":
          src.removeListener(e["eid"])
        elif form == "tuple":
          src.removeListener((EV[e["ev"]], e["eid"]))
        else:
          src.removeListener(e["eid"], EV[e["ev"]])
        model[e["ev"]] = [x for x in model[e["ev"]] if x is not e]
      log.append(("unsub", form, st["h"], st["ev"]))
    else:
      want = order(st["ev"])
      halting[0] = bool(st.get("halt"))
      del inv[:]
      try:
        src.raiseEvent(EV[st["ev"]])
      except Exception as e:
        fail("dup/raise-raised", "%s: %s" % (type(e).__name__, e))
        break
      exp = []
      for e in want:
        exp.append(e["h"])
        if e["once"]:
          model[st["ev"]] = [x for x in model[st["ev"]] if x is not e]
        if halting[0] and e["h"] == 0:
          break
      if inv != exp:
        fail("dup/invocations", "step %d: raising Ev%s invoked handlers %r, "
             "the subscriptions at that moment call for %r"
             % (i, st["ev"], list(inv), exp))
      log.append(("raise", st["ev"], list(inv)))
    have = src._eventMixin_get_listener_count()
    wantn = len(model["A"]) + len(model["B"])
    if viol[0] is None and have != wantn:
      fail("dup/listener-count", "after step %d (%s): %d listeners, %d "
           "subscriptions are live" % (i, op, have, wantn))
  res = {"verdict": "ok"}
  if viol[0] is not None:
    res.update(verdict="violation", vclass=viol[0][0], detail=viol[0][1])
  res["digest"] = hashlib.sha1(
      json.dumps(log, sort_keys=True).encode()).hexdigest()[:16]
  res["stats"] = {}
  res["probes"] = probes
  res["nontrivial"] = len(log) >= 4
  res["sim_time"] = 0.0
  res["steps"] = len(plan["steps"])
  res["known"] = []
  return res


_gen_main, _run_main, _hint_main = gen_plan, run_plan, minimise_hint


def gen_plan(seed, tier):           # noqa: F811
  if Rng(mix(seed, "dup")).chance(0.08):
    return _gen_dup(seed)
  plan = _gen_main(seed, tier)
  plan["cfg"]["falsy_source"] = Rng(mix(seed, "falsy")).chance(0.2)
  return plan


def run_plan(plan):                 # noqa: F811
  if plan.get("cfg", {}).get("dup_mode"):
    return _run_dup(plan)
  return _run_main(plan)


def minimise_hint(plan):            # noqa: F811
  if plan.get("cfg", {}).get("dup_mode"):
    return []
  return _hint_main(plan)
