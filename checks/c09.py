"""
C09 -- connection lifecycle events and the connection registry stay
consistent.

World: CTL (real of_01 task, Connection, handshake/default handlers, nexus,
arbiter) with up to 3 scripted switch peers over 2 datapath ids.
"""

import errno

from simkit import sim as S
from simkit.rng import Rng, mix
from simkit.check import load_known
from worlds.ctl import CTLWorld
from models import of10wire as W
from models import rawframe as F

PROP = "C09"
LEVEL = "exploration"
BUDGET = {"quick": 6000, "thorough": 600000}
RULE = ("Each run: up to 3 scripted switch connections over 2 datapath ids; "
        "a seeded global interleaving of {connect, hello, features reply, "
        "desc-stats reply, barrier reply | barrier-unsupported error} with "
        "{port_status add/modify/delete, echo request, packet_in, unrelated "
        "errors}, orderly close / reset at any point of the script, "
        "reconnects of a datapath before its stale connection closes, random "
        "segmentation and batching of the byte stream; after every settled "
        "step the events raised on the nexus and on each Connection, the "
        "registry core.openflow.connections and the socket reached by "
        "sendToDPID are compared with a reference model of the lifecycle.  "
        "A quarter of the runs put the controller on the epoll select hub "
        "(simulated epoll object) with kernel-style reuse of descriptor "
        "numbers for accepted sockets.  "
        "Non-trivial = at least one connection was announced and one was "
        "lost; distinct = distinct event-log digest.")
ASSUMPTIONS = [
  "a port_status received before the features reply may be dropped (the "
  "statement only orders the ones that are delivered)",
  "ConnectionDown for a connection that was never announced is accepted "
  "zero or one times",
  "duplicate features replies and barrier replies with foreign xids during "
  "the handshake are outside the property's quantifier and not generated",
  "announcements and losses are separated by a settle so that 'most recent' "
  "is well defined",
]
REAL = ["pox.openflow.of_01 (OpenFlow_01_Task, Connection, Handshake/"
        "DefaultOpenFlowHandlers)", "pox.openflow OpenFlowNexus / "
        "OpenFlowConnectionArbiter / events", "pox.core", "pox.lib.revent",
        "pox.lib.recoco scheduler/select hub", "libopenflow_01 codec"]
STUBBED = ["socket/select/time/pinger (simkit)", "switch peers (scripted)",
           "DeferredSender (never needed: sockets accept everything)"]
EXPECT_PROBES = ["announced", "lost_announced", "lost_half_open",
                 "lost_before_features", "early_port_status",
                 "same_dpid_overlap", "barrier_unsupported", "reset", "close",
                 "probe_send_hit", "probe_send_miss",
                 "unrelated_bad_type_error_mid_handshake",
                 "glued_to_handshake_end", "nexus_up_listener_raised",
                 "nexus_down_listener_halted", "hub_epoll",
                 "nexus_option_clear_flows_on_connect",
                 "shutdown_with_several_datapaths", "second_nexus",
                 "connection_rejected_in_up_handler"]

DPIDS = [0x11, 0x2200000022]
# the two datapath ids of a run are drawn from here (cfg["dpids"]); 0 and
# 2**64-1 are legal ids
DPID_POOL = [0x11, 0x2200000022, 0, (1 << 64) - 1, 1, 1 << 48, 0xffffffffffff]


def _port(no):
  return {"port_no": no, "hw_addr": F.mac(0x100 + no), "name": "eth%d" % no,
          "config": 0, "state": 0}


def gen_plan(seed, tier):
  r = Rng(seed)
  npeers = r.randint(1, 3)
  cfg = {"segment": r.chance(0.5), "delay": r.chance(0.3),
         "recv_mode": r.pick(["all", "all", "choose", "dribble"]),
         "shuffle_ready": r.chance(0.3),
         "dpids": r.sample(DPID_POOL, 2) if r.chance(0.5) else list(DPIDS),
         "up_listener_raises": r.chance(0.25),
         "down_listener_halts": r.pick([None, None, None, "halt", "true",
                                        "attr"])}
  # the controller runs with --epoll-selecthub, and its process reuses
  # descriptor numbers the way a kernel hands them out (lowest free)
  cfg["epoll"] = Rng(mix(seed, "hub")).chance(0.25)
  # the nexus' own options: keep the switch's flows on connect, other
  # miss_send_len settings (what the handshake writes changes, what it waits
  # for must not)
  cfg["shutdown_at_end"] = Rng(mix(seed, "down")).chance(0.3)
  # one of the two datapath ids is given to a second nexus by an arbiter
  # listener (decided from the dpid the features reply announced)
  r2n = Rng(mix(seed, "nexus2"))
  cfg["second_nexus"] = r2n.pick([0, 1]) if r2n.chance(0.2) else None
  # some component refuses the n-th switch that comes up: its ConnectionUp
  # handler disconnects the new connection there and then
  rrj = Rng(mix(seed, "reject"))
  cfg["reject_up"] = (rrj.pick([1, 1, 2]) if cfg["second_nexus"] is None
                      and rrj.chance(0.2) else None)
  rdc = Rng(mix(seed, "downclose"))
  cfg["down_listener_closes"] = (rdc.pick(["nexus-disconnect",
                                           "con-disconnect"])
                                 if rdc.chance(0.2) else None)
  r5 = Rng(mix(seed, "nexus"))
  cfg["nexus"] = {}
  if r5.chance(0.3):
    cfg["nexus"]["clear_flows_on_connect"] = False
  if r5.chance(0.3):
    cfg["nexus"]["miss_send_len"] = r5.pick([None, 0xffff, 0])
  # per-peer script, then a random interleaving
  scripts = []
  for p in range(npeers):
    dpid = r.pick([0, 0, 1]) if p else 0
    if p and r.chance(0.5):
      dpid = scripts[0][0]["dpid"]
    sc = [{"op": "connect", "dpid": dpid}]
    rem = Rng(mix(seed, "emfile", p))
    if rem.chance(0.12):
      sc[0]["emfile"] = rem.randint(1, 3)
    core = ["hello", "features", r.pick(["barrier_ok", "barrier_ok",
                                         "barrier_err"])]
    if r.chance(0.15):
      core.remove("hello")          # some switches never say hello first
    if r.chance(0.3):
      core.insert(r.randint(0, len(core)), "desc_reply")
    noise = []
    for _ in range(r.randint(0, 6)):
      k = r.wpick([(5, "port_status"), (2, "echo"), (2, "packet_in"),
                   (1, "error")])
      st = {"op": k}
      if k == "error":
        # an error that answers some other request (or nothing): any type /
        # code, in particular the very one a barrier-less switch would send
        st["et"], st["code"] = r.pick([[2, 0], [1, 1], [1, 1], [1, 6], [3, 2],
                                       [4, 0], [1, 2]])
      if k == "port_status":
        st["reason"] = r.pick([0, 1, 2])
        st["port"] = r.randint(1, 4)
      noise.append(st)
    seq = [{"op": c} for c in core]
    for st in seq:
      if st["op"].startswith("barrier") and r.chance(0.35):
        # further messages in the very write that ends the handshake (the
        # controller may get them in one recv() with the barrier reply)
        st["glue"] = [r.pick(["port_status", "port_status", "packet_in",
                              "dup_barrier"])
                      for _ in range(r.randint(1, 3))]
    for nst in noise:
      seq.insert(r.randint(0, len(seq)), nst)
    # after-up traffic
    for _ in range(r.randint(0, 3)):
      seq.append({"op": "port_status", "reason": r.pick([0, 1, 2]),
                  "port": r.randint(1, 4)})
    # loss at any point (or never)
    if r.chance(0.75):
      seq.insert(r.randint(0, len(seq)),
                 {"op": r.pick(["close", "close", "reset"])})
    sc += seq
    scripts.append(sc)
  # interleave
  idx = [0] * npeers
  steps = []
  while any(idx[p] < len(scripts[p]) for p in range(npeers)):
    live = [p for p in range(npeers) if idx[p] < len(scripts[p])]
    # bias: sometimes finish one peer's handshake before starting the next
    p = live[0] if r.chance(0.35) else r.pick(live)
    st = dict(scripts[p][idx[p]], p=p, flush=r.chance(0.6))
    idx[p] += 1
    steps.append(st)
    if r.chance(0.12):
      steps.append({"op": "advance", "dt": r.pick([0.1, 1, 6])})
  return {"prop": PROP, "seed": seed, "cfg": cfg, "steps": steps}


class Violation(Exception):
  def __init__(self, vclass, detail):
    Exception.__init__(self, vclass, detail)
    self.vclass = vclass
    self.detail = detail


class PeerModel(object):
  def __init__(self, idx, dpid):
    self.idx = idx
    self.dpid = dpid
    self.connected = True
    self.features = False
    self.barrier_xid = None
    self.announced = False
    self.ann_seq = None
    self.live = True
    self.ps_after_features = []   # xids of port_status sent after features
    self.ps_after_up = []         # subset sent after the announcement
    self.ps_before_features = []
    self.msg_seq = 0


def run_plan(plan):
  cfg = plan["cfg"]
  sim = S.Sim(mix(plan["seed"], "run"), calm=plan.get("calm", False))
  S.install(sim)
  sim.dpids = list(cfg.get("dpids", DPIDS))
  sim.net_segment = cfg.get("segment", False)
  sim.net_delay = cfg.get("delay", False)
  sim.recv_mode = cfg.get("recv_mode", "all")
  sim.shuffle_ready = cfg.get("shuffle_ready", False)
  known = load_known(PROP)
  hit = []
  res = {"verdict": "ok"}
  try:
    _drive(sim, plan, known, hit)
  except Violation as v:
    res.update(verdict="violation", vclass=v.vclass, detail=v.detail)
  except S.SimAbort as a:
    if a.vclass == "harness":
      res.update(verdict="error", detail=a.detail)
    else:
      res.update(verdict="violation", vclass=a.vclass, detail=a.detail)
  res["digest"] = sim.digest()
  res["sim_time"] = sim.now - S.T0
  res["steps"] = len(plan["steps"])
  res["known"] = sorted(set(hit))
  res["stats"] = dict(sim.stats)
  res["probes"] = dict(sim.probes)
  res["nontrivial"] = bool(sim.probes.get("announced")
                           and (sim.probes.get("lost_announced")
                                or sim.probes.get("lost_half_open")))
  return res


def _drive(sim, plan, known, hit):
  cfg = plan["cfg"]
  if cfg.get("epoll"):
    sim.epoll_hub = True
    sim.reuse_fds = True
  sim.nexus_options = cfg.get("nexus") or {}
  second = cfg.get("second_nexus")
  world = CTLWorld(sim)
  world.boot()
  if cfg.get("up_listener_raises"):
    # some component's ConnectionUp handler on the nexus is broken (it runs
    # after everybody else's): that is its problem, not the connection's
    def broken(event):
      sim.probes["nexus_up_listener_raised"] += 1
      raise KeyError("a ConnectionUp listener of some component fails")
    world.nexus.addListenerByName("ConnectionUp", broken, priority=-2000)
  if second is not None:
    world.add_second_nexus([sim.dpids[second]])
  inv_viol = []
  sim.inv_viol = inv_viol

  def registry_invariant(event):
    # at every event: nothing reachable through the registry is a
    # connection the controller itself has already given up
    for d in world.nexus.connections.dpids:
      c = world.nexus.connections[d]
      if c.disconnected and not inv_viol:
        inv_viol.append("while %s was being raised the registry mapped dpid "
                        "%#x to connection %s, which is disconnected"
                        % (type(event).__name__, d, c.ID))
  for name in ("PortStatus", "PacketIn", "ConnectionDown", "BarrierIn",
               "ErrorIn", "FeaturesReceived"):
    world.nexus.addListenerByName(name, registry_invariant, priority=-1200)
  ups_seen = [0]
  if cfg.get("reject_up"):
    def rejecting(event):
      ups_seen[0] += 1
      if ups_seen[0] == cfg["reject_up"]:
        sim.probes["connection_rejected_in_up_handler"] += 1
        event.connection.disconnect()
    world.nexus.addListenerByName("ConnectionUp", rejecting, priority=-1500)
  dlc = cfg.get("down_listener_closes")
  if dlc:
    # a component that makes sure a switch it is told is gone really is
    # closed: its ConnectionDown handler disconnects / closes the
    # connection again, while the announcement is still under way
    def closing(event):
      # (disconnect(), the call applications have; close() is the IO
      # task's, which also owns the list the socket is selected from)
      sim.probes["down_listener_closed_again"] += 1
      event.connection.disconnect()
    if dlc.startswith("nexus"):
      world.nexus.addListenerByName("ConnectionDown", closing, priority=-1000)
    else:
      def hook(event):
        event.connection.addListenerByName("ConnectionDown", closing,
                                           priority=-1000)
      world.nexus.addListenerByName("ConnectionUp", hook, priority=-1000)
  how = cfg.get("down_listener_halts")
  if how:
    # the last ConnectionDown listener on the nexus halts the event (a legal
    # revent return): what the connection's own listeners are told is not
    # the nexus listeners' to veto
    from pox.lib.revent import EventHalt

    def halting(event):
      sim.probes["nexus_down_listener_halted"] += 1
      if how == "attr":
        event.halt = True
        return None
      return EventHalt if how == "halt" else True
    world.nexus.addListenerByName("ConnectionDown", halting, priority=-2000)
  peers = {}      # plan peer index -> (Peer, PeerModel)
  ann_counter = [0]
  xid_counter = [0x5000]

  def nx():
    xid_counter[0] += 1
    return xid_counter[0]

  def learn(p):
    """read what the controller wrote to peer p; learn the barrier xid"""
    peer, m = peers[p]
    for d in peer.take():
      if d["type"] == W.BARRIER_REQUEST:
        m.barrier_xid = d["xid"]

  def settle_all():
    sim.drain()
    for p in peers:
      learn(p)

  pending = False
  for i, st in enumerate(plan["steps"]):
    sim.ch.reseed(mix(plan["seed"], "step", i))
    op = st["op"]
    if op == "advance":
      settle_all()
      sim.advance(st["dt"])
      settle_all()
      _check(sim, world, peers, known, hit)
      continue
    p = st["p"]
    if op == "connect":
      if p in peers:
        continue
      if st.get("emfile"):
        # the controller process is out of file descriptors just now: its
        # accept() fails a few times before it takes the connection
        sim.listeners[6633].accept_script = [errno.EMFILE] * st["emfile"]
        sim.probes["accept_failed_emfile"] += 1
      peer = world.new_peer("p%d" % p)
      peers[p] = (peer, PeerModel(p, sim.dpids[st["dpid"]]))
      sim.probes["connect"] += 1
      settle_all()
      _check(sim, world, peers, known, hit)
      continue
    if p not in peers:
      continue
    peer, m = peers[p]
    if not m.live:
      continue
    force = False
    if op == "hello":
      peer.send(W.enc_hello(nx()))
    elif op == "features":
      if m.features:
        continue
      # ordering matters for the model: everything sent so far must have
      # been processed before we note 'features seen'
      settle_all()
      peer.send(W.enc_features_reply(nx(), m.dpid, [_port(1), _port(2)]))
      m.features = True
      force = True
      others = [q for q, (_, om) in peers.items()
                if q != p and om.dpid == m.dpid and om.live and om.features]
      if others:
        sim.probes["same_dpid_overlap"] += 1
    elif op in ("barrier_ok", "barrier_err"):
      settle_all()
      if m.barrier_xid is None or m.announced:
        # nothing to answer (no barrier outstanding): the property's
        # quantifier has no unsolicited barrier replies
        continue
      if op == "barrier_ok":
        blob = W.enc_barrier_reply(m.barrier_xid)
      else:
        sim.probes["barrier_unsupported"] += 1
        blob = W.enc_error(m.barrier_xid, W.ET_BAD_REQUEST, W.BRC_BAD_TYPE,
                           W.enc_barrier_request(m.barrier_xid))
      for g in st.get("glue", ()):
        sim.probes["glued_to_handshake_end"] += 1
        if g == "port_status":
          x = nx()
          blob += W.enc_port_status(x, 2, _port(1 + x % 4))
          m.ps_after_up.append(x)
          m.ps_after_features.append(x)
        elif g == "packet_in":
          data = F.eth(F.mac(1), F.mac(2), 0x88b5, b"x" * 20)
          blob += W.enc_packet_in(nx(), W.NO_BUFFER, len(data), 1, 0, data)
        else:
          # the same answer once more: nothing to complete any more
          blob += W.enc_barrier_reply(m.barrier_xid)
      peer.send(blob)
      m.announced = True
      ann_counter[0] += 1
      m.ann_seq = ann_counter[0]
      sim.probes["announced"] += 1
      if cfg.get("reject_up") == ann_counter[0]:
        # (refused by a ConnectionUp handler: announced, and lost at once)
        m.live = False
        sim.probes["lost_announced"] += 1
      force = True
    elif op == "desc_reply":
      peer.send(W.enc_stats_reply(nx(), W.ST_DESC, W.enc_desc_stats()))
    elif op == "port_status":
      x = nx()
      peer.send(W.enc_port_status(x, st["reason"], _port(st["port"])))
      if m.announced:
        m.ps_after_up.append(x)
        m.ps_after_features.append(x)
      elif m.features:
        m.ps_after_features.append(x)
        sim.probes["early_port_status"] += 1
      else:
        m.ps_before_features.append(x)
    elif op == "echo":
      peer.send(W.enc_echo_request(nx(), b"hi"))
    elif op == "packet_in":
      data = F.eth(F.mac(1), F.mac(2), 0x88b5, b"x" * 20)
      peer.send(W.enc_packet_in(nx(), W.NO_BUFFER, len(data), 1, 0, data))
    elif op == "error":
      x = nx()
      while x == m.barrier_xid:
        x = nx()
      peer.send(W.enc_error(x, st.get("et", W.ET_BAD_ACTION),
                            st.get("code", 0), W.enc_echo_request(x, b"")))
      if (st.get("et"), st.get("code")) == (W.ET_BAD_REQUEST, W.BRC_BAD_TYPE) \
          and m.features and not m.announced:
        sim.probes["unrelated_bad_type_error_mid_handshake"] += 1
    elif op in ("close", "reset"):
      settle_all() if st.get("flush") else None
      if op == "close":
        peer.close()
      else:
        peer.reset()
      sim.probes[op] += 1
      m.live = False
      if m.announced:
        sim.probes["lost_announced"] += 1
      elif m.features:
        sim.probes["lost_half_open"] += 1
      else:
        sim.probes["lost_before_features"] += 1
      force = True
    if st.get("flush") or force:
      settle_all()
      _check(sim, world, peers, known, hit)
  settle_all()
  sim.advance(0.5)
  settle_all()
  _check(sim, world, peers, known, hit, final=True)
  if cfg.get("shutdown_at_end"):
    # the controller goes down (core's DownEvent, as core.quit() raises it):
    # every datapath in the registry is disconnected, with the usual
    # announcement, and the registry ends empty
    import pox.core as PC
    reg = world.registry()
    held = list(reg.values()) if isinstance(reg, dict) else []
    if len(held) >= 2:
      sim.probes["shutdown_with_several_datapaths"] += 1
    world.core.raiseEventNoErrors(PC.DownEvent())
    settle_all()
    for p, (peer, m) in peers.items():
      if peer.con is not None and any(peer.con is c for c in held):
        m.live = False
    _check(sim, world, peers, known, hit, final=True)
  if sim.task_deaths:
    raise Violation("task-died", "the OpenFlow task was de-scheduled: %r"
                    % (sim.task_deaths[:2],))
  if 6633 not in sim.listeners:
    raise Violation("listener-gone", "the controller stopped listening")


def _check(sim, world, peers, known, hit, final=False):
  if getattr(sim, "inv_viol", None):
    raise Violation("registry/dead-connection", sim.inv_viol[0])
  ev = world.events
  for p, (peer, m) in peers.items():
    cid = peer.con_id
    if cid is None:
      if m.features and m.live:
        raise Violation("no-connection-object", "peer %d was never accepted"
                        % p)
      continue
    ups_n = [i for i, e in enumerate(ev) if e[1] == "ConnectionUp"
             and e[2] == cid and e[0] == "nexus"]
    ups_c = [i for i, e in enumerate(ev) if e[1] == "ConnectionUp"
             and e[2] == cid and e[0] == cid]
    downs_n = [i for i, e in enumerate(ev) if e[1] == "ConnectionDown"
               and e[2] == cid and e[0] == "nexus"]
    downs_c = [i for i, e in enumerate(ev) if e[1] == "ConnectionDown"
               and e[2] == cid and e[0] == cid]
    want_up = 1 if m.announced else 0
    if len(ups_n) != want_up or len(ups_c) != want_up:
      raise Violation("connection-up/count", "peer %d (%s): ConnectionUp "
                      "raised %d time(s) on the nexus and %d on the "
                      "connection, expected %d"
                      % (p, _st(m), len(ups_n), len(ups_c), want_up))
    if not m.live:
      if m.announced:
        if len(downs_n) != 1 or len(downs_c) != 1:
          raise Violation("connection-down/count", "peer %d (%s) was "
                          "announced and lost: ConnectionDown raised %d "
                          "time(s) on the nexus, %d on the connection"
                          % (p, _st(m), len(downs_n), len(downs_c)))
      elif len(downs_n) > 1 or len(downs_c) > 1:
        raise Violation("connection-down/count", "peer %d (%s): "
                        "ConnectionDown raised more than once" % (p, _st(m)))
    else:
      if downs_n or downs_c:
        raise Violation("connection-down/spurious", "peer %d (%s) is live "
                        "but ConnectionDown was raised" % (p, _st(m)))
    if ups_n and downs_n and downs_n[0] < ups_n[0]:
      raise Violation("down-before-up", "peer %d" % p)
    # port status ordering
    ps = [(i, e[3][2]) for i, e in enumerate(ev) if e[1] == "PortStatus"
          and e[2] == cid and e[0] == "nexus"]
    psc = [e[3][2] for e in ev if e[1] == "PortStatus" and e[2] == cid
           and e[0] == cid]
    if [x for _, x in ps] != psc:
      raise Violation("port-status/nexus-vs-connection", "peer %d: nexus saw "
                      "%r, connection saw %r" % (p, [x for _, x in ps], psc))
    if ps and not ups_n:
      raise Violation("port-status/before-up", "peer %d (%s): PortStatus "
                      "delivered although ConnectionUp was never raised"
                      % (p, _st(m)))
    if ps and ps[0][0] < ups_n[0]:
      raise Violation("port-status/before-up", "peer %d: PortStatus xid=%#x "
                      "delivered before ConnectionUp" % (p, ps[0][1]))
    if m.announced and (m.live or final):
      seen = [x for _, x in ps]
      # ones sent before the features reply may be dropped or kept
      core = [x for x in seen if x not in m.ps_before_features]
      want = m.ps_after_features if m.live else None
      if want is not None and core != want:
        raise Violation("port-status/order", "peer %d: delivered %r, sent "
                        "after the features reply %r"
                        % (p, [hex(x) for x in core],
                           [hex(x) for x in want]))
      if len(set(seen)) != len(seen):
        raise Violation("port-status/duplicate", "peer %d: %r" % (p, seen))
    elif ps and m.announced:
      seen = [x for _, x in ps]
      exp = [x for x in m.ps_after_features if x in seen]
      if [x for x in seen if x not in m.ps_before_features] != exp or \
          len(set(seen)) != len(seen):
        raise Violation("port-status/order", "peer %d (lost): delivered %r"
                        % (p, [hex(x) for x in seen]))
  # registry
  want = {}
  for p, (peer, m) in peers.items():
    if m.live and m.announced:
      if m.dpid not in want or want[m.dpid][1].ann_seq < m.ann_seq:
        want[m.dpid] = (peer, m)
  reg = world.registry()
  if not isinstance(reg, dict):
    raise Violation("registry/wrong-nexus", reg)
  have = set(reg)
  # every nexus-level event of a connection comes from the nexus its
  # datapath was given to
  for p, (peer, m) in peers.items():
    if peer.con_id is None or not m.features:
      continue
    want_nx = 2 if m.dpid in world.routed else 1
    bad = [(w, n) for w, n, c in world.nexus_events
           if c == peer.con_id and w != want_nx]
    if bad:
      raise Violation("events/wrong-nexus", "peer %d (dpid %#x): %s raised "
                      "on nexus %d, the datapath belongs to nexus %d"
                      % (p, m.dpid, bad[0][1], bad[0][0], want_nx))
  if have != set(want):
    missing = set(want) - have
    extra = have - set(want)
    kf = None
    if missing and not extra:
      # narrow signature of the listed finding: the newest connection of the
      # dpid was lost and an older announced one is still live
      ok = True
      for d in missing:
        newer_lost = [m for _, m in peers.values()
                      if m.dpid == d and m.announced and not m.live
                      and m.ann_seq > want[d][1].ann_seq]
        if not newer_lost:
          ok = False
      if ok:
        kf = "C09-older-live-connection-not-restored"
    if kf and kf in known:
      hit.append(kf)
      sim.probes["known_" + kf] += 1
      for d in missing:
        del want[d]
    else:
      raise Violation("registry/dpids", "registry has %s, live announced "
                      "connections exist for %s"
                      % (sorted(hex(d) for d in have),
                         sorted(hex(d) for d in want)))
  for d, (peer, m) in want.items():
    if reg[d] is not peer.con:
      raise Violation("registry/stale", "dpid %#x maps to connection %s, the "
                      "most recently announced live one is %s"
                      % (d, getattr(reg[d], "ID", None), peer.con_id))
  # sendToDPID reaches exactly that socket
  for peer, _ in peers.values():
    peer.pump()
  for di, d in enumerate(sim.dpids):
    marks = {}
    for p, (peer, m) in peers.items():
      marks[p] = len(peer.rx_raw)
    body = b"probe%d" % di
    tag = W.enc_echo_request(0x77000000 + di, body)
    r = world.nexus_for(d).sendToDPID(d, tag)
    sim.drain()
    got = []
    for p, (peer, m) in peers.items():
      peer.pump()
      if peer.rx_raw[marks[p]:]:
        got.append((p, peer.rx_raw[marks[p]:]))
      peer.rx = []
    if d in want:
      sim.probes["probe_send_hit"] += 1
      wp = want[d][1].idx
      if not r or [g[0] for g in got] != [wp] or got[0][1] != tag:
        raise Violation("send-to-dpid/wrong-socket", "sendToDPID(%#x) "
                        "returned %r and wrote to peers %r, expected peer %d"
                        % (d, r, [g[0] for g in got], wp))
    else:
      sim.probes["probe_send_miss"] += 1
      if r or got:
        raise Violation("send-to-dpid/phantom", "sendToDPID(%#x) returned %r "
                        "and wrote to peers %r although no live announced "
                        "connection exists" % (d, r, [g[0] for g in got]))
  # liveness: a lost connection's socket is closed by the controller
  for p, (peer, m) in peers.items():
    if not m.live and peer.con is not None and not peer.con.disconnected:
      raise Violation("lost-not-noticed", "peer %d closed but the controller "
                      "still considers the connection up" % p)


def _st(m):
  return "dpid=%#x features=%s announced=%s live=%s" % (
      m.dpid, m.features, m.announced, m.live)
