"""
C02 -- message framing is independent of how the byte stream is segmented
(controller-side Connection.read and switch-side OFConnection.read).

Worlds: CTL (real controller stack, scripted switch peer) and SW (real
switch stack, scripted controller peer).  The network schedule (where the
stream is cut, when each segment arrives, how much each recv returns) is
the explored dimension.
"""

import struct

from simkit import sim as S
from simkit.rng import Rng, mix
from simkit.check import load_known
from worlds.ctl import CTLWorld, handshake_script
from worlds.sw import SWWorld
from models import of10wire as W
from models import rawframe as F

PROP = "C02"
LEVEL = "exploration"
BUDGET = {"quick": 3000, "thorough": 600000}
RULE = ("Each run picks a side (controller or switch), builds 1-40 "
        "well-formed messages of every type that side can receive (lengths "
        "8 bytes to > 8192 so single reads end inside messages), concatenates "
        "them and cuts the stream by a seeded strategy (no cut, every byte, "
        "k random cuts, cuts at header offsets 1/2/3/4/7/8/9 of a message, "
        "message boundary +-1, multiples of the 2048/8192 read sizes +-1), "
        "with per-segment delays and partial recv()s; after every segment the "
        "system is run to quiescence and the delivered messages must equal "
        "the messages completely arrived, in order, once each, with the "
        "incomplete tail held in the receive buffer.  A quarter of the "
        "switch-side runs feed the worker directly as a synchronous "
        "in-memory peer would: the next segment is pushed while the handler "
        "of the last delivered message is still running (re-entrant read).  "
        "Non-trivial = at least "
        "one cut fell strictly inside a message; distinct = distinct "
        "event-log digest.  reach_cut_offsets counts distinct (message type, "
        "offset-in-message) cut positions.")
ASSUMPTIONS = [
  "TCP is reliable and ordered: no loss/duplication/reordering of bytes is "
  "injected here (those are not faults a stream can meet)",
  "no spurious readiness (EAGAIN after select) is injected: Connection.read "
  "treats it as EOF, which the property does not speak about",
  "delivery is observed at handler invocation (type, xid); message contents "
  "are the codec's business (C01, not claimed)",
]
REAL = ["pox.openflow.of_01.Connection.read / OpenFlow_01_Task.run",
        "pox.datapaths.switch.OFConnection.read",
        "pox.lib.ioworker RecocoIOLoop/RecocoIOWorker (_do_recv, "
        "consume_receive_buf)", "pox.lib.recoco scheduler/select hub",
        "libopenflow_01 unpackers"]
STUBBED = ["socket/select/time/pinger (simkit)", "the sending peer (scripted)"]
EXPECT_PROBES = ["push_inside_handler", "side_ctl", "side_sw", "cut_inside_header", "cut_inside_body",
                 "cut_at_boundary", "dribble", "big_message", "coalesced",
                 "stream_starts_with_handshake_end"]

PORT = {"port_no": 1, "hw_addr": F.mac(9), "name": "p1", "config": 0,
        "state": 0}


def _msg_to_controller(r, xid):
  """a well-formed switch->controller message with the given xid"""
  k = r.wpick([(3, "echo_req"), (2, "echo_rep"), (2, "vendor"),
               (5, "packet_in"), (2, "flow_removed"), (3, "port_status"),
               (4, "stats"), (2, "barrier"), (1, "get_config"), (2, "error"),
               (1, "queue_cfg"), (1, "big_packet_in"), (1, "big_stats"),
               (1, "hello_v4")])
  if k == "hello_v4":
    # what an OpenFlow 1.3 switch says first: version 4, with or without a
    # version bitmap; the controller lets a foreign-version hello through
    body = struct.pack("!HHL", 1, 8, 0x12) if r.chance(0.6) else b""
    m = bytearray(W.enc_hello(xid, body))
    m[0] = r.pick([4, 4, 2, 5])
    return bytes(m)
  if k == "echo_req":
    return W.enc_echo_request(xid, r.randbytes(r.pick([0, 1, 8, 100])))
  if k == "echo_rep":
    return W.enc_echo_reply(xid, r.randbytes(r.pick([0, 4])))
  if k == "vendor":
    return W.enc_vendor(xid, 0x2320, r.randbytes(r.pick([0, 4, 16])))
  if k == "packet_in":
    data = F.eth(F.mac(1), F.mac(2), 0x88b5, r.randbytes(r.pick([0, 46, 100])))
    return W.enc_packet_in(xid, W.NO_BUFFER, len(data), 1, 0, data)
  if k == "big_packet_in":
    data = F.eth(F.mac(1), F.mac(2), 0x88b5,
                 r.randbytes(r.pick([2048, 2030, 4096, 8200, 9000])))
    return W.enc_packet_in(xid, W.NO_BUFFER, len(data), 1, 0, data)
  if k == "flow_removed":
    return W.enc_flow_removed(xid, {"in_port": 1}, cookie=5, priority=7)
  if k == "port_status":
    return W.enc_port_status(xid, r.pick([0, 1, 2]), PORT)
  if k == "stats":
    t = r.pick(["desc", "flow", "agg", "table", "port", "queue"])
    if t == "desc":
      return W.enc_stats_reply(xid, W.ST_DESC, W.enc_desc_stats())
    if t == "flow":
      body = b"".join(W.enc_flow_stats_entry({"in_port": i + 1},
                                             [("output", 1, 0)])
                      for i in range(r.randint(0, 4)))
      return W.enc_stats_reply(xid, W.ST_FLOW, body)
    if t == "agg":
      return W.enc_stats_reply(xid, W.ST_AGGREGATE,
                               struct.pack("!QQLxxxx", 1, 2, 3))
    if t == "table":
      return W.enc_stats_reply(xid, W.ST_TABLE, W.enc_table_stats_entry())
    if t == "port":
      return W.enc_stats_reply(xid, W.ST_PORT,
                               b"".join(W.enc_port_stats_entry(i + 1)
                                        for i in range(r.randint(0, 3))))
    return W.enc_stats_reply(xid, W.ST_QUEUE, W.enc_queue_stats_entry(1, 0))
  if k == "big_stats":
    body = b"".join(W.enc_flow_stats_entry({"in_port": 1 + i % 4},
                                           [("output", 1, 0)])
                    for i in range(r.pick([24, 90, 100])))
    return W.enc_stats_reply(xid, W.ST_FLOW, body)
  if k == "barrier":
    return W.enc_barrier_reply(xid)
  if k == "get_config":
    return W.msg(W.GET_CONFIG_REPLY, xid, struct.pack("!HH", 0, 128))
  if k == "error":
    return W.enc_error(xid, 1, 1, r.randbytes(r.pick([0, 8, 64])))
  return W.msg(W.QUEUE_GET_CONFIG_REPLY, xid, struct.pack("!Hxxxxxx", 1))


def _msg_to_switch(r, xid):
  k = r.wpick([(3, "echo_req"), (1, "echo_rep"), (2, "features"),
               (2, "get_config"), (2, "set_config"), (4, "packet_out"),
               (4, "flow_mod"), (2, "port_mod"), (4, "stats"), (3, "barrier"),
               (1, "queue_cfg"), (1, "vendor"), (1, "hello"),
               (1, "big_packet_out"), (1, "big_flow_mod"), (1, "error")])
  if k == "echo_req":
    return W.enc_echo_request(xid, r.randbytes(r.pick([0, 1, 8, 100])))
  if k == "echo_rep":
    return W.enc_echo_reply(xid, b"")
  if k == "error":
    # (a controller may well report an error to the switch; the switch has
    # no handler for it, which is its message handler's problem, not the
    # framing's)
    return W.enc_error(xid, 1, 1, r.randbytes(r.pick([0, 8, 64])))
  if k == "features":
    return W.enc_features_request(xid)
  if k == "get_config":
    return W.enc_get_config_request(xid)
  if k == "set_config":
    return W.enc_set_config(xid, 0, r.pick([0, 128]))
  if k in ("packet_out", "big_packet_out"):
    n = r.pick([0, 46, 100]) if k == "packet_out" else \
        r.pick([2048, 8178, 8192, 9000])
    data = F.eth(F.mac(1), F.mac(2), 0x88b5, r.randbytes(n))
    return W.enc_packet_out(xid, W.NO_BUFFER, W.OFPP_NONE,
                            [("output", r.randint(1, 3), 0)], data)
  if k in ("flow_mod", "big_flow_mod"):
    na = r.randint(0, 3) if k == "flow_mod" else r.pick([300, 1100])
    acts = [("set_tp_dst", i & 0xffff) for i in range(na)] + \
        [("output", 1, 0)]
    return W.enc_flow_mod(xid, {"in_port": r.randint(1, 3)},
                          r.pick([W.FC_ADD, W.FC_DELETE]), acts,
                          priority=r.pick([1, 2, 3]))
  if k == "port_mod":
    return W.enc_port_mod(xid, 77, F.mac(1), 0, 0)
  if k == "stats":
    t = r.pick(["desc", "flow", "agg", "table", "port"])
    if t == "desc":
      return W.enc_stats_request(xid, W.ST_DESC)
    if t in ("flow", "agg"):
      return W.enc_flow_stats_request(xid, {}, aggregate=(t == "agg"))
    if t == "table":
      return W.enc_stats_request(xid, W.ST_TABLE)
    return W.enc_port_stats_request(xid)
  if k == "barrier":
    return W.enc_barrier_request(xid)
  if k == "queue_cfg":
    return W.enc_queue_get_config_request(xid, 1)
  if k == "vendor":
    return W.enc_vendor(xid, 0x2320, b"")
  # a hello may carry a body (a later version's bitmap element, or anything
  # else: it is to be skipped); pox's own hello class cannot produce one
  hb = Rng(mix(xid, "hellobody"))
  body = hb.pick([b"", b"", struct.pack("!HHL", 1, 8, 0x12),
                  struct.pack("!BBHL", 1, 2, 8, xid & 0xffff),
                  hb.randbytes(hb.pick([4, 12, 100]))])
  return W.enc_hello(xid, body)


def _cuts(r, msgs):
  """cut offsets (into the concatenated stream) by a seeded strategy"""
  total = sum(len(m) for m in msgs)
  starts = []
  o = 0
  for m in msgs:
    starts.append(o)
    o += len(m)
  mode = r.wpick([(1, "none"), (2, "every"), (4, "random"), (4, "header"),
                  (3, "boundary"), (2, "readsize"), (3, "mixed")])
  pts = set()
  if mode == "every" and total <= 700:
    pts = set(range(1, total))
  else:
    if mode in ("random", "mixed", "every"):
      for _ in range(r.randint(1, 6)):
        pts.add(r.randrange(1, max(2, total)))
    if mode in ("header", "mixed"):
      for _ in range(r.randint(1, 5)):
        s = r.pick(starts)
        pts.add(s + r.pick([1, 2, 3, 4, 7, 8, 9]))
    if mode in ("boundary", "mixed"):
      for _ in range(r.randint(1, 4)):
        s = r.pick(starts)
        pts.add(s + r.pick([-1, 0, 1]))
    if mode in ("readsize", "mixed"):
      for base in (2048, 4096, 8192, 16384):
        if base < total and r.chance(0.7):
          pts.add(base + r.pick([-1, 0, 1]))
  return sorted(p for p in pts if 0 < p < total)


def gen_plan(seed, tier):
  r = Rng(seed)
  side = r.pick(["ctl", "sw"])
  n = r.wpick([(3, r.randint(1, 3)), (4, r.randint(2, 12)),
               (1, r.randint(12, 40 if tier == "thorough" else 24))])
  mk = _msg_to_controller if side == "ctl" else _msg_to_switch
  msgs = [mk(r, 0x100 + i) for i in range(n)]
  # read-size alignment: a message of exactly (or one off) the 2048/8192
  # read sizes, or a message boundary landing exactly on a multiple of them
  if r.chance(0.25):
    T = r.pick([2048, 8192]) + r.pick([0, 0, -1, 1])
    i = r.randrange(len(msgs))
    msgs[i] = W.enc_echo_request(0x100 + i, r.randbytes(T - 8))
  if r.chance(0.25):
    i = r.randrange(len(msgs))
    before = sum(len(m) for m in msgs[:i])
    for T in (2048, 4096, 8192, 16384):
      pad = T - before
      if 8 <= pad <= 9000:
        msgs[i] = W.enc_echo_request(0x100 + i, r.randbytes(pad - 8))
        break
  # length fields with the high byte / top bit set: 16-bit boundary sizes
  huge = r.chance(0.08)
  if huge:
    T = r.pick([32767, 32768, 32769, 40000, 65528, 65535])
    i = r.randrange(len(msgs))
    if side == "sw" and r.chance(0.5):
      data = F.eth(F.mac(1), F.mac(2), 0x88b5, r.randbytes(T - 24 - 14))
      msgs[i] = W.enc_packet_out(0x100 + i, W.NO_BUFFER, W.OFPP_NONE,
                                 [("output", 1, 0)], data)
    elif side == "ctl" and r.chance(0.5):
      data = F.eth(F.mac(1), F.mac(2), 0x88b5, r.randbytes(T - 18 - 14))
      msgs[i] = W.enc_packet_in(0x100 + i, W.NO_BUFFER, len(data), 1, 0, data)
    else:
      msgs[i] = W.enc_echo_request(0x100 + i, r.randbytes(T - 8))
  rt = Rng(mix(seed, "tiny"))
  tiny = side == "ctl" and rt.chance(0.05)
  if tiny:
    # a long run of minimum-size messages: hundreds of complete messages in
    # one 2048-byte read (and nothing behind them to stir things up)
    k = rt.pick([129, 130, 200, 256, 300, 600])
    msgs = [W.enc_barrier_reply(0x100 + i) if rt.chance(0.7)
            else W.enc_echo_reply(0x100 + i, b"abcd"[:rt.randint(0, 4)])
            for i in range(k)]
  rt2 = Rng(mix(seed, "tinysw"))
  if side == "sw" and rt2.chance(0.06):
    # the same toward the switch: dozens to a thousand complete minimum-size
    # requests in one read of its IO worker, nothing behind them
    tiny = True
    k = rt2.pick([51, 52, 64, 100, 129, 300, 1025])
    msgs = []
    for i in range(k):
      c = rt2.randrange(10)
      x = 0x100 + i
      msgs.append(W.enc_barrier_request(x) if c < 5 else
                  W.enc_echo_request(x, b"abcd"[:rt2.randint(0, 4)]) if c < 8
                  else W.enc_get_config_request(x) if c < 9
                  else W.enc_features_request(x))
  cuts = _cuts(r, msgs)
  if tiny and rt.chance(0.6):
    cuts = []
  delays = []
  for _ in range(len(cuts) + 1):
    delays.append(r.wpick([(3, 0), (3, 1), (2, r.randint(2, 40)),
                           (1, r.randint(500, 6000))]))
  cfg = {"side": side, "recv_mode": r.pick(["all", "all", "choose",
                                             "dribble"]),
         "shuffle_ready": r.chance(0.3),
         # the stream under test begins with the message that ends the
         # handshake (so later messages may share its recv())
         "join_handshake": side == "ctl" and r.chance(0.35),
         # switch side: the bytes come from an in-memory peer that answers
         # synchronously, i.e. the next read is handed to the worker while
         # the handler of the last delivered message is still on the stack
         "loopback": side == "sw" and r.chance(0.25)}
  cfg["talk_first"] = side == "sw" and Rng(mix(seed, "first")).chance(0.3)
  rp = Rng(mix(seed, "pre"))
  if cfg["join_handshake"] and rp.chance(0.4):
    pre = []
    for j in range(rp.randint(1, 3)):
      k = rp.pick(["echo", "qreply", "qreply", "t20"])
      x = 0x3300 + j
      if k == "echo":
        pre.append(W.enc_echo_request(x, b"pre"))
      elif k == "qreply":
        # QUEUE_GET_CONFIG_REPLY (type 21): a type the connected-state
        # handler table has a slot for and the handshake table has not
        pre.append(W.msg(21, x, struct.pack("!H6x", 1)))
      else:
        pre.append(W.msg(20, x, struct.pack("!H2x", 1)))
    cfg["pre_barrier"] = [m.hex() for m in pre]
  if huge and cfg["recv_mode"] == "dribble":
    cfg["recv_mode"] = "choose"     # 64 KiB one byte per cycle: too slow
  if tiny:
    cfg["recv_mode"] = "all"
    cfg["tiny_run"] = True
  # steps: one per message (so the minimiser can drop messages); cuts are
  # kept as fractions of the stream so they survive deletions
  total = sum(len(m) for m in msgs)
  steps = [{"m": m.hex()} for m in msgs]
  return {"prop": PROP, "seed": seed, "cfg": cfg, "steps": steps,
          "cuts": [c / float(total) for c in cuts], "delays": delays}


def minimise_hint(plan):
  out = []
  if plan.get("cuts"):
    for i in range(len(plan["cuts"])):
      c = dict(plan)
      c["cuts"] = plan["cuts"][:i] + plan["cuts"][i + 1:]
      out.append(c)
  if any(plan.get("delays", [])):
    c = dict(plan)
    c["delays"] = [0] * len(plan["delays"])
    out.append(c)
  if plan["cfg"].get("recv_mode") != "all":
    c = dict(plan)
    c["cfg"] = dict(plan["cfg"], recv_mode="all")
    out.append(c)
  return out


class Violation(Exception):
  def __init__(self, vclass, detail):
    Exception.__init__(self, vclass, detail)
    self.vclass = vclass
    self.detail = detail


def run_plan(plan):
  cfg = plan["cfg"]
  sim = S.Sim(mix(plan["seed"], "run"), calm=plan.get("calm", False))
  S.install(sim)
  sim.recv_mode = cfg.get("recv_mode", "all")
  sim.shuffle_ready = cfg.get("shuffle_ready", False)
  res = {"verdict": "ok"}
  try:
    _drive(sim, plan)
  except Violation as v:
    res.update(verdict="violation", vclass=v.vclass, detail=v.detail)
  except S.SimAbort as a:
    if a.vclass == "harness":
      res.update(verdict="error", detail=a.detail)
    else:
      res.update(verdict="violation", vclass=a.vclass, detail=a.detail)
  res["digest"] = sim.digest()
  res["sim_time"] = sim.now - S.T0
  res["steps"] = len(plan["steps"])
  res["known"] = []
  res["stats"] = dict(sim.stats)
  res["probes"] = dict(sim.probes)
  res["nontrivial"] = bool(sim.probes.get("cut_inside_header")
                           or sim.probes.get("cut_inside_body"))
  return res


def _boot_ctl(sim, cfg):
  """controller world with one handshaken peer; with cfg.join_handshake the
  handshake stops before its last message (the barrier reply), which is
  returned to be sent as the first message of the stream under test"""
  world = CTLWorld(sim)
  world.boot()
  peer = world.new_peer()
  sim.settle()
  first = []
  if cfg.get("join_handshake"):
    peer.send(W.enc_hello(0))
    sim.drain()
    fr = [d for d in peer.take() if d["type"] == W.FEATURES_REQUEST]
    ok = bool(fr)
    if ok:
      peer.send(W.enc_features_reply(fr[0]["xid"], 0x42, [PORT]))
      sim.drain()
      br = [d for d in peer.take() if d["type"] == W.BARRIER_REQUEST]
      ok = bool(br)
    if ok:
      first = [W.enc_barrier_reply(br[0]["xid"])]
      sim.probes["stream_starts_with_handshake_end"] += 1
      pre = [bytes.fromhex(h) for h in cfg.get("pre_barrier", [])]
      if pre:
        # well-formed messages that arrive while the connection still has
        # its (shorter) handshake handler table: those it has no handler
        # for are skipped, and framing goes on
        con = peer.con
        world.unobservable = set(
            i for i in range(256)
            if i >= len(con.handlers) or con.handlers[i] is None)
        world.n_pre = len(pre)
        first = pre + first
        sim.probes["messages_before_handshake_end"] += 1
  else:
    ok = handshake_script(peer, 0x42, [PORT])
  if not ok:
    # the handshake consists of well-formed messages too: if one of them
    # arrived completely and no handler ran for it, that is a framing
    # failure; anything else is not this property's business
    sim.drain()
    got = [t for t, x, n in world.delivered.get(peer.con_id, [])] \
        if peer.con_id is not None else []
    sent_types = [d[1] for d in _frames_of(bytes(peer.sock.accepted))]
    for i, t in enumerate(sent_types):
      if got[:i + 1] != sent_types[:i + 1]:
        raise Violation("ctl/missing", "handshake message #%d (type=%d) "
                        "arrived completely but was not delivered "
                        "(delivered types %r)" % (i, t, got))
    raise S.SimAbort("harness", "handshake did not complete")
  return world, peer, first


def _drive(sim, plan):
  cfg = plan["cfg"]
  side = cfg["side"]
  msgs = [bytes.fromhex(s["m"]) for s in plan["steps"]]
  world = peer = None
  if side == "ctl":
    world, peer, first = _boot_ctl(sim, cfg)
    msgs = first + msgs
  stream = b"".join(msgs)
  total = len(stream)
  cuts = sorted(set(int(round(c * total)) for c in plan.get("cuts", [])))
  cuts = [c for c in cuts if 0 < c < total]
  ends = []
  o = 0
  for m in msgs:
    o += len(m)
    ends.append(o)
  sent = [(m[1], struct.unpack_from("!L", m, 4)[0]) for m in msgs]
  obs = [True] * len(msgs)
  if side == "ctl":
    for k in range(getattr(world, "n_pre", 0)):
      obs[k] = sent[k][0] not in world.unobservable
  sim.probes["side_" + side] += 1
  # classify cuts for the reach report
  starts = [e - len(m) for e, m in zip(ends, msgs)]
  for c in cuts:
    i = max(k for k, s in enumerate(starts) if s <= c)
    off = c - starts[i]
    if off == 0:
      sim.probes["cut_at_boundary"] += 1
    elif off < 8:
      sim.probes["cut_inside_header"] += 1
    else:
      sim.probes["cut_inside_body"] += 1
    sim.probes["cutpos_t%d_o%d" % (msgs[i][1], min(off, 12))] += 1
  if any(len(m) > 2048 for m in msgs):
    sim.probes["big_message"] += 1
  if len(cuts) >= total - 1 and total > 1:
    sim.probes["dribble"] += 1

  if side == "ctl":
    con = peer.con
    base = len(world.delivered[con.ID])
    ebase = len(world.events)

    def delivered():
      return [(t, x) for t, x, _ in world.delivered[con.ID][base:]]

    def residual():
      return bytes(con.buf) + bytes(peer.srv.rxbuf)

    def push(seg_list):
      peer.send_segments(seg_list)
  else:
    world = SWWorld(sim, {"nports": 3, "max_buffers": 0})
    got = []

    def on_switch(sw):
      orig = sw.rx_message

      def rec(connection, msg):
        got.append((msg.header_type, msg.xid))
        sim.ev("deliver", msg.header_type, msg.xid)
        return orig(connection, msg)
      sw.rx_message = rec
    world.on_switch = on_switch
    first_sent = False
    if cfg.get("talk_first") and not cfg.get("loopback") and total:
      # the controller writes the moment it accepts: the first segment is
      # already there when the switch's worker first looks at its socket
      world.talk_first = stream[:(cuts + [total])[0]]
      first_sent = True
    world.boot()
    sw = world.switch
    srv = world.ctl.peer     # the switch's end of the connection

    def delivered():
      return list(got)

    def residual():
      return bytes(world.worker.receive_buf) + bytes(srv.rxbuf)

    def push(seg_list):
      t = max(sim.now, srv._last_arrival)
      for dticks, data in seg_list:
        t = t + S.TICK * dticks
        srv._last_arrival = t
        if t <= sim.now:
          sim._arrive(srv, data)
        else:
          sim.at(t, lambda d=data: sim._arrive(srv, d))

  bounds = [0] + cuts + [total]
  if side == "sw" and cfg.get("loopback"):
    return _loopback(sim, world, stream, bounds, sent, ends, got, plan)
  # segments
  delays = list(plan.get("delays", [])) + [0] * (len(bounds))
  arrived = 0
  cyc0 = sim.cycles
  for i in range(len(bounds) - 1):
    seg = stream[bounds[i]:bounds[i + 1]]
    d = delays[i]
    if d == 0 and i > 0:
      sim.probes["coalesced"] += 1
    if i == 0 and side == "sw" and first_sent:
      pass                      # (went out at accept time)
    else:
      push([(d, seg)])
    if d:
      sim.advance(S.TICK * d)
    else:
      sim.settle()
    sim.drain()
    arrived = bounds[i + 1]
    want = [sent[k] for k, e in enumerate(ends) if e <= arrived and obs[k]]
    have = delivered()
    if have != want:
      _explain(have, want, arrived, total, side)
    if side == "ctl":
      # the same, one level up: what the connection announced to listeners
      ev_of = {W.PACKET_IN: "PacketIn", W.PORT_STATUS: "PortStatus",
               W.FLOW_REMOVED: "FlowRemoved"}
      want_ev = [ev_of[t] for t, x in want if t in ev_of]
      have_ev = [name for src, name, cid, info in world.events[ebase:]
                 if src == con.ID and name in ev_of.values()]
      if have_ev != want_ev:
        raise Violation("ctl/events", "after %d of %d bytes the connection "
                        "has raised %r; the completely arrived messages call "
                        "for %r" % (arrived, total, have_ev, want_ev))
    tail_start = max([e for e in ends if e <= arrived] or [0])
    if residual() != stream[tail_start:arrived]:
      raise Violation(side + "/residual", "after %d of %d bytes the receive "
                      "buffer holds %d bytes, the incomplete tail is %d bytes"
                      % (arrived, total, len(residual()),
                         arrived - tail_start))
  if sim.task_deaths:
    raise Violation(side + "/task-died", "a loop task was de-scheduled: %r"
                    % (sim.task_deaths[:2],))
  if side == "ctl":
    if peer.eof_from_controller:
      raise Violation("ctl/closed", "controller closed the connection while "
                      "reading well-formed messages")
  else:
    if world.ctl.rx_eof:
      raise Violation("sw/closed", "switch closed the connection while "
                      "reading well-formed messages")
  sim.probes["msgs"] += len(msgs)


def _loopback(sim, world, stream, bounds, sent, ends, got, plan):
  """the stream reaches the switch's worker through _push_receive_data, the
  next segment from inside a message handler whenever one is running (per
  plan["delays"]: an odd delay = nested if possible)"""
  worker = world.worker
  total = len(stream)
  segs = [stream[bounds[i]:bounds[i + 1]] for i in range(len(bounds) - 1)]
  nest = [bool(d & 1) for d in plan.get("delays", [])] + [True] * len(segs)
  pos = [0]
  depth = [0]
  sw = world.switch
  inner = worker.connection.on_message_received

  def push_next():
    i = pos[0]
    pos[0] += 1
    sim.ev("push", i, len(segs[i]), depth[0])
    if depth[0]:
      sim.probes["push_inside_handler"] += 1
    worker._push_receive_data(segs[i])

  def rec(connection, msg):
    r = inner(connection, msg)
    # (the handler "answers", and the peer's next bytes come straight back)
    depth[0] += 1
    try:
      while pos[0] < len(segs) and nest[pos[0]] and depth[0] < 30:
        push_next()
    finally:
      depth[0] -= 1
    return r
  worker.connection.set_message_handler(rec)
  sim.probes["loopback"] += 1
  try:
    while pos[0] < len(segs):
      push_next()
  except Exception as e:
    raise Violation("sw/exception-escaped", "pushing received bytes into "
                    "the switch's worker raised %s: %s"
                    % (type(e).__name__, str(e)[:200]))
  sim.settle()
  have = list(got)
  if have != sent:
    _explain(have, sent, total, total, "sw")
  if bytes(worker.receive_buf):
    raise Violation("sw/residual", "all %d bytes pushed, %d left in the "
                    "receive buffer" % (total, len(worker.receive_buf)))
  if world.ctl.rx_eof:
    raise Violation("sw/closed", "switch closed the connection while "
                    "reading well-formed messages")
  sim.probes["msgs"] += len(sent)


def _frames_of(stream):
  return W.split_stream(stream)[0]


def _explain(have, want, arrived, total, side):
  n = min(len(have), len(want))
  k = next((i for i in range(n) if have[i] != want[i]), n)
  if len(have) > len(want) and have[:len(want)] == want:
    vc, d = "early-or-duplicate", "delivered %d message(s) more than have " \
        "completely arrived; first extra: type=%d xid=%#x" % (
            len(have) - len(want), have[k][0], have[k][1])
  elif len(have) < len(want) and want[:len(have)] == have:
    vc, d = "missing", "message #%d (type=%d xid=%#x) has completely arrived " \
        "but was not delivered" % (k, want[k][0], want[k][1])
  else:
    vc, d = "wrong-sequence", "position %d: delivered type=%s xid=%s, sent " \
        "type=%d xid=%#x" % (k, have[k][0] if k < len(have) else None,
                             hex(have[k][1]) if k < len(have) and
                             have[k][1] is not None else None,
                             want[k][0], want[k][1])
  raise Violation(side + "/" + vc, d + " (after %d of %d bytes)"
                  % (arrived, total))
