"""
C08 -- component rendezvous and lifecycle (pox.core.POXCore).

World: CORE.  A fresh real POXCore per run (its real recoco scheduler is
stepped by the simulator, no thread is ever started); the harness plays the
components, the waiters, the GoingUp deferral holders and "the thread that
core.quit() starts".

The plan is an explicit list of API calls (register / registerNew /
call_when_ready / listen_to_dependencies / goUp / deferral release / quit /
raise an event / let the scheduler run).  The oracle is a reference model of
the rendezvous (set of registered names, per waiter: declared / fired
counts) and of the lifecycle (GoingUp, Up, GoingDown, Down counters with the
set of outstanding deferrals), consulted at every callback invocation, at
every lifecycle event and after every outermost API call.
"""

import functools

from simkit import sim as S
from simkit.rng import Rng, mix
from simkit.check import load_known

PROP = "C08"
LEVEL = "exploration"
BUDGET = {"quick": 8000, "thorough": 1000000}
RULE = ("Each run: a fresh POXCore and a seeded permutation of 3-30 API "
        "calls over <= 5 components (plain objects / event sources, "
        "registered by name, by object, by registerNew, re-registered) and "
        "<= 5 waiters (call_when_ready with str/list/tuple/set/default "
        "dependency forms, duplicates, empty sets, function / bound method "
        "/ partial callbacks, args+kw; listen_to_dependencies sinks with "
        "_handle_<comp>_<Event> methods and explicit components), callbacks "
        "that register further components and/or raise, goUp with 0-3 "
        "deferral holders released inside the handler / later / via "
        "call_later / twice / never, quit 0-2 times before or after goUp. "
        "A run is non-trivial when >= 2 waiters fired of which one through "
        "a register() call or a chained registration, or when goUp returned "
        "with a deferral outstanding; distinct = distinct event-log digest.")
ASSUMPTIONS = [
  "single OS thread: the thread core.quit() starts is a stub whose target "
  "runs at plan-chosen points (immediately, at the next settle, inside "
  "GoingUp delivery, after goUp); true pre-emption of _quit against goUp is "
  "not explored here",
  "the scheduler is stepped only from settle steps and from _quit's "
  "time.sleep polling; after Scheduler.quit() it is not stepped any more "
  "(as the real run loop would have ended)",
  "where the statement is silent both behaviours are accepted: relative "
  "order of Up and GoingDown/Down, Up raised inside GoingUp delivery when "
  "no deferral is outstanding at that instant, quit while starting up "
  "(completion is only demanded once goUp has been called and the quit "
  "thread has run), re-registration of a name (old wiring kept)",
  "goUp is called at most once per run",
]
REAL = ["pox.core.POXCore (register, registerNew, call_when_ready, "
        "_try_waiter(s), listen_to_dependencies, goUp, deferrals, quit, "
        "_quit)", "pox.lib.revent (EventMixin, autoBindEvents)",
        "pox.lib.recoco Scheduler/SelectHub/CallLaterTask (call_later, "
        "scheduler.quit)"]
STUBBED = ["threading.Thread as seen by core.quit (queued target, run "
           "inline by the harness)", "time (virtual clock; time.sleep steps "
           "the scheduler)", "gc.collect (no-op)", "select/pinger (simkit)",
           "components, sinks, callbacks, deferral holders (harness)"]
EXPECT_PROBES = ["decl_before_reg", "reg_before_decl", "chained_register",
                 "chained_fire", "failing_callback", "listen_to_dependencies",
                 "sink_event_delivered", "deferral_held",
                 "deferral_released_late", "deferral_released_inside",
                 "deferral_released_call_later", "double_release_rejected",
                 "quit_before_up", "quit_after_up", "quit_twice",
                 "quit_retry_while_starting", "quit_foreign_thread",
                 "reregister", "empty_deps", "dup_deps", "redeclared",
                 "listen_args", "falsy_component",
                 "argument_mutated_after_declaration",
                 "core_name_per_instance", "registration_listener_raised",
                 "quit_from_goingdown_handler"]

# known-finding ids (tolerated only when listed as open in
# /verif/known_findings.json, each at exactly the signature described)
KF_EMPTY_LIST = "C08-empty-deps-list-typeerror"
KF_EMPTY_TUPLE = "C08-empty-deps-tuple-never-fires"
KF_NO_NAME = "C08-callback-without-name-attributeerror"
KF_DOUBLE_UP = "C08-up-twice-deferral-released-in-handler"

# names with underscores and one a prefix of another: listen_to_dependencies
# has to take "_handle_<component>_<Event>" apart
ALL_C = ["c0", "c0_x", "of_01", "c3", "c4"]


# ---------------------------------------------------------------------------
# generator
# ---------------------------------------------------------------------------

def _subset(r, names, sizes):
  k = min(r.wpick(sizes), len(names))
  return r.sample(names, k)


def gen_plan(seed, tier):
  r = Rng(seed)
  ncomp = r.wpick([(1, 1), (2, 2), (3, 3), (3, 4), (3, 5)])
  nwait = r.wpick([(1, 1), (2, 2), (3, 3), (3, 4), (3, 5)])
  names = ALL_C[:ncomp]
  comps = {}
  for c in names:
    comps[c] = {"kind": r.wpick([(4, "ping"), (2, "plain"), (1, "pong")]),
                "via": r.pick(["name", "obj", "new"]),
                # where the registration name comes from when none is
                # passed: the class name, a class-level _core_name, one set
                # per instance by __init__, or the latter over a class default
                "core_name": r.pick([False, False, True, True, "inst",
                                     "over"]),
                # a component is whatever object was registered: also an
                # empty container (len 0) or something false
                "falsy": r.wpick([(5, ""), (1, "len"), (1, "bool")])}
    if Rng(mix(seed, "othername", c)).chance(0.12):
      # registered under an explicit name although its class carries a
      # _core_name of its own (a second instance under an alias): the name
      # given is the name
      comps[c].update(via="name", core_name="other")
  waiters = {}
  chained = set()
  for i in range(nwait):
    w = "w%d" % i
    chain = []
    if r.chance(0.35):
      chain = _subset(r, names, [(3, 1), (2, 2), (1, 3)])
    fail = r.wpick([(7, ""), (2, "early"), (2, "late")])
    if r.chance(0.35):
      handlers = _subset(r, names, [(2, 0), (4, 1), (3, 2), (1, 3)])
      explicit = _subset(r, names, [(4, 0), (3, 1), (2, 2)])
      if not explicit:
        form = r.pick(["none", "none", "set", "list", "tuple"])
      elif len(explicit) == 1:
        form = r.pick(["str", "set", "list", "tuple"])
      else:
        form = r.pick(["set", "list", "tuple"])
      attrs = r.chance(0.75)
      adm = r.chance(0.75) or not attrs or not (handlers or explicit)
      spec = {"kind": "ltd", "handlers": sorted(handlers), "deps": explicit,
              "form": form, "attrs": attrs, "short": r.chance(0.25),
              "adm": adm, "fail": fail if adm else "",
              "chain": chain if adm else [],
              # listener options: for every component (None key), for one
              # of them, a dict shared with the other sinks of the run
              "largs": r.wpick([(6, ""), (2, "all"), (2, "one"),
                                (2, "shared")])}
    else:
      deps = _subset(r, names, [(2, 0), (6, 1), (5, 2), (3, 3), (1, 4),
                                (1, 5)])
      if not deps:
        form = r.wpick([(5, "set"), (1, "list"), (1, "tuple"),
                        (1, "default")])
      elif len(deps) == 1:
        form = r.pick(["str", "list", "tuple", "set"])
      else:
        form = r.pick(["list", "tuple", "set"])
      if form in ("list", "tuple") and deps and r.chance(0.25):
        deps = deps + [r.pick(deps)]
        r.shuffle(deps)
      cbk = r.wpick([(6, "func"), (4, "method"), (1, "partial")])
      spec = {"kind": "cwr", "deps": deps, "form": form, "cb": cbk,
              # what the caller does to its (mutable) argument afterwards
              "after": r.wpick([(4, ""), (1, "append"), (1, "clear")]),
              "named": r.chance(0.5 if cbk != "partial" else 0.6),
              "args": r.chance(0.3), "fail": fail, "chain": chain}
    chained.update(spec["chain"])
    waiters[w] = spec
  # --- rendezvous operations, permuted ------------------------------------
  ops = []
  drop_chained = r.chance(0.5)
  for c in names:
    if c in chained and drop_chained and r.chance(0.8):
      continue                     # registered only by a callback
    if r.chance(0.88):
      ops.append({"op": "reg", "c": c})
      if r.chance(0.15):
        ops.append({"op": "reg", "c": c, "same": r.chance(0.5)})
  for w in sorted(waiters):
    if r.chance(0.96):
      ops.append({"op": "decl", "w": w})
      if waiters[w]["kind"] == "cwr" and r.chance(0.1):
        ops.append({"op": "decl", "w": w})
  r.shuffle(ops)
  # --- lifecycle -----------------------------------------------------------
  nh = r.wpick([(3, 0), (3, 1), (2, 2), (2, 3)])
  holders = {}
  for i in range(nh):
    holders["h%d" % i] = {"mode": r.wpick([(2, "inside"), (1, "inside_end"),
                                            (6, "manual")])}
  cfg = {"comps": comps, "waiters": waiters, "holders": holders,
         "pump_in_goingup": r.chance(0.2)}
  cfg["quit_in_goingdown"] = Rng(mix(seed, "qgd")).chance(0.25)
  r9 = Rng(mix(seed, "creg"))
  if r9.chance(0.25):
    # a ComponentRegistered listener on core that raises for these names
    cfg["creg_raises"] = sorted(set(r9.pick(names)
                                    for _ in range(r9.randint(1, 2))))

  def ins(st, lo=0):
    ops.insert(r.randint(min(lo, len(ops)), len(ops)), st)

  gpos = 0
  if r.chance(0.8):
    gpos = r.randint(0, len(ops))
    ops.insert(gpos, {"op": "goup"})
    gpos += 1
  for h in sorted(holders):
    x = r.random()
    if holders[h]["mode"] == "manual" and x < 0.85 or x < 0.3:
      st = {"op": "release", "h": h,
            "via": r.wpick([(3, "direct"), (2, "later")]),
            "settle": r.chance(0.6)}
      ins(st, gpos if r.chance(0.85) else 0)
      if r.chance(0.3):
        ins({"op": "release", "h": h, "via": "direct", "settle": False},
            gpos if r.chance(0.85) else 0)
  for _ in range(r.wpick([(4, 0), (4, 1), (3, 2)])):
    ins({"op": "quit", "pump": r.chance(0.7), "foreign": r.chance(0.3)},
        gpos if r.chance(0.5) else 0)
  for _ in range(r.wpick([(3, 0), (3, 1), (1, 2)])):
    ins({"op": "raise", "c": r.pick(names)})
  for _ in range(r.wpick([(3, 0), (3, 1), (1, 2)])):
    ins({"op": "settle"})
  return {"prop": PROP, "seed": seed, "cfg": cfg, "steps": ops}


def minimise_hint(plan):
  """Smaller configurations to try once the step list is minimal."""
  import copy
  out = []
  cfg = plan["cfg"]
  used_w = set(s.get("w") for s in plan["steps"] if s.get("op") == "decl")
  used_c = set(s.get("c") for s in plan["steps"] if "c" in s)
  for w in used_w:
    sp = cfg["waiters"].get(w, {})
    used_c.update(sp.get("deps", []), sp.get("handlers", []),
                  sp.get("chain", []))
  p = copy.deepcopy(plan)
  p["cfg"]["waiters"] = {w: v for w, v in cfg["waiters"].items()
                         if w in used_w}
  p["cfg"]["comps"] = {c: v for c, v in cfg["comps"].items() if c in used_c}
  if p != plan:
    out.append(p)
  for h in sorted(cfg["holders"]):
    p = copy.deepcopy(plan)
    del p["cfg"]["holders"][h]
    out.append(p)
  if cfg.get("pump_in_goingup"):
    p = copy.deepcopy(plan)
    p["cfg"]["pump_in_goingup"] = False
    out.append(p)
  for w in sorted(cfg["waiters"]):
    sp = cfg["waiters"][w]
    for key, val in (("chain", []), ("fail", ""), ("args", False),
                     ("named", True), ("short", False), ("cb", "func")):
      if sp.get(key) and sp.get(key) != val:
        p = copy.deepcopy(plan)
        p["cfg"]["waiters"][w][key] = val
        out.append(p)
    if len(sp.get("deps", [])) > 1:
      for i in range(len(sp["deps"])):
        p = copy.deepcopy(plan)
        del p["cfg"]["waiters"][w]["deps"][i]
        out.append(p)
  for c in sorted(cfg["comps"]):
    sp = cfg["comps"][c]
    if sp["via"] != "name" or sp["core_name"]:
      p = copy.deepcopy(plan)
      p["cfg"]["comps"][c].update(via="name", core_name=False)
      out.append(p)
  return out


# ---------------------------------------------------------------------------
# run
# ---------------------------------------------------------------------------

class Violation(Exception):
  def __init__(self, vclass, detail):
    Exception.__init__(self, vclass, detail)
    self.vclass = vclass
    self.detail = detail


def setup():
  """Parent-side warm-up of caches every forked child would otherwise fill
  again (platform probing in goUp, source lookup in _try_waiter's except
  path)."""
  import platform
  import linecache
  try:
    platform.python_implementation()
    platform.python_version()
    platform.python_build()
    platform.platform()
    linecache.getlines(__file__)
  except Exception:
    pass


class _StubThread(object):
  """What core.quit() gets when it asks for threading.Thread: start() only
  queues the target; the harness runs it at a plan-chosen point."""
  queue = None

  def __init__(self, group=None, target=None, name=None, args=(),
               kwargs=None, daemon=None):
    self._target = target
    self._args = args
    self._kwargs = kwargs or {}
    self.daemon = daemon
    self.name = name or "stub"

  def start(self):
    _StubThread.queue.append(self)

  def run(self):
    self._target(*self._args, **self._kwargs)

  def join(self, timeout=None):
    pass

  def is_alive(self):
    return False


class Harness(object):

  def __init__(self, sim, plan, known):
    import threading
    import gc
    import pox.core as PC
    import pox.lib.recoco.recoco as R
    import pox.lib.revent.revent as RV
    self.sim = sim
    self.plan = plan
    self.cfg = plan["cfg"]
    self.known = known
    self.hit_known = []
    self.viol = None
    self.PC = PC
    self.RV = RV
    # --- seams local to this check ---------------------------------------
    RV.print = lambda *a, **k: None         # autoBindEvents' warnings
    gc.collect = lambda *a, **k: 0
    self.quit_q = []
    _StubThread.queue = self.quit_q
    threading.Thread = _StubThread
    self.in_sleep = False
    sim.sleep = self._sleep
    # --- the system under test ---------------------------------------------
    core = PC.POXCore(threaded_selecthub=False, handle_signals=False)
    PC.core = core
    sim.attach(core.scheduler)
    R.defaultScheduler = core.scheduler
    self.core = core
    # --- model -------------------------------------------------------------
    self.registered = set()       # names registered so far
    self.objs = {}                # name -> [objects ever made], gen = index
    self.cur = {}                 # name -> object made last
    self.reg_seq = {}
    self.classes = {}
    self.declared = {}
    self.fired = {}
    self.dead = set()             # waiters lost to a known finding
    self.sinks = {}
    self.wired = {}               # ltd waiter -> {comp: object at wiring}
    self.deliv = []
    self.depth = 0                # nesting depth of API calls in progress
    self.call_idx = -1
    self.cur_op = None
    # lifecycle
    self.holders = {}
    for h in sorted(self.cfg["holders"]):
      self.holders[h] = {"mode": self.cfg["holders"][h]["mode"],
                         "taken": False, "released": False, "fn": None}
    self.goup_called = False
    self.goup_returned = False
    self.gu = 0
    self.up = 0
    self.gd = 0
    self.down = 0
    self.in_delivery = False
    self.first_up_in_delivery = False
    self.in_double_release = False
    self.quit_calls = 0
    self.life = []
    for w in self.cfg["waiters"]:
      self.declared[w] = 0
      self.fired[w] = 0
    for c in self.cfg["comps"]:
      self.objs[c] = []
    self._install_listeners()

  # -- plumbing ------------------------------------------------------------
  def ev(self, *items):
    self.sim.ev(*items)

  def probe(self, name, n=1):
    self.sim.probes[name] += n

  def fail(self, vclass, detail):
    if self.viol is None:
      self.viol = (vclass, detail)
      self.ev("VIOLATION", vclass)

  def check(self):
    if self.viol is not None:
      raise Violation(*self.viol)

  def kf(self, kid):
    """True when kid is an open known finding (and count the hit)."""
    if kid in self.known:
      self.hit_known.append(kid)
      self.probe("known_" + kid)
      return True
    return False

  def _sleep(self, dt):
    sim = self.sim
    if self.in_sleep:
      sim.now += max(0.0, dt)
      return
    self.in_sleep = True
    try:
      sim.advance(max(0.0, dt))
    finally:
      self.in_sleep = False

  def settle(self):
    if not self.core.scheduler._hasQuit:
      self.sim.settle()
    else:
      self.probe("settle_after_sched_quit")

  # -- lifecycle observers ---------------------------------------------------
  def _install_listeners(self):
    core = self.core
    PC = self.PC
    core.addListener(PC.GoingUpEvent, self._on_goingup_begin)
    for h in sorted(self.holders):
      core.addListener(PC.GoingUpEvent,
                       functools.partial(self._on_goingup_holder, h))
    if self.cfg.get("pump_in_goingup"):
      core.addListener(PC.GoingUpEvent, self._on_goingup_pump)
    core.addListener(PC.GoingUpEvent, self._on_goingup_end)
    core.addListener(PC.UpEvent, self._on_up)
    core.addListener(PC.GoingDownEvent, self._on_goingdown)
    core.addListener(PC.DownEvent, self._on_down)
    core.addListener(PC.ComponentRegistered, self._on_creg)

  def _on_creg(self, event):
    self.ev("creg", str(event.name), self.depth)
    if str(event.name) in (self.cfg.get("creg_raises") or ()):
      # somebody's monitor of registrations is broken: its problem, not the
      # dependents' of the component
      self.probe("registration_listener_raised")
      raise KeyError("a ComponentRegistered listener fails for %s"
                     % (event.name,))

  def _on_goingup_begin(self, event):
    self.gu += 1
    self.life.append("GoingUp")
    self.ev("life", "GoingUp", self.call_idx)
    self.in_delivery = True
    if not self.goup_called or self.goup_returned:
      self.fail("goingup-outside-goUp", "GoingUpEvent raised outside goUp()")
    if self.gu > 1:
      self.fail("goingup-twice", "GoingUpEvent raised %d times" % self.gu)
    if self.up:
      self.fail("up-before-goingup", "UpEvent was raised before GoingUpEvent")

  def _on_goingup_holder(self, h, event):
    st = self.holders[h]
    fn = event.get_deferral()
    st["taken"] = True
    st["fn"] = fn
    self.ev("deferral-taken", h)
    if st["mode"] == "inside":
      self.probe("deferral_released_inside")
      self._release(h)

  def _on_goingup_pump(self, event):
    if self.quit_q:
      self.probe("quit_thread_ran_inside_goingup")
    self.pump()

  def _on_goingup_end(self, event):
    # holders of mode "inside_end" release here: still inside GoingUp
    # delivery, but after every holder has taken its deferral
    for h in sorted(self.holders):
      st = self.holders[h]
      if st["mode"] == "inside_end" and st["taken"] and not st["released"]:
        self.probe("deferral_released_inside")
        self._release(h)
    self.in_delivery = False

  def _outstanding(self):
    return sorted(h for h, st in self.holders.items()
                  if st["taken"] and not st["released"])

  def _on_up(self, event):
    self.life.append("Up")
    self.ev("life", "Up", self.call_idx, self.in_delivery)
    if not self.gu:
      self.fail("up-before-goingup", "UpEvent raised before GoingUpEvent")
      return
    if self.in_double_release:
      self.fail("up-on-double-release", "releasing a deferral a second time "
                "raised UpEvent again")
      return
    out = self._outstanding()
    if out:
      self.fail("up-while-deferral-outstanding",
                "UpEvent raised while deferral(s) of %s not released "
                "(life=%s)" % (",".join(out), self.life))
      return
    self.up += 1
    if self.up == 1:
      self.first_up_in_delivery = self.in_delivery
      return
    # a second UpEvent
    if self.first_up_in_delivery and self.kf(KF_DOUBLE_UP):
      # exactly the listed deviation: the first Up came out of a deferral
      # released inside GoingUp delivery and goUp()/a later release raised
      # it again.  Resynchronise: count it once.
      self.up = 1
      return
    self.fail("up-twice" + ("/first-raised-inside-goingup-delivery"
                            if self.first_up_in_delivery else ""),
              "UpEvent raised %d times (life=%s)" % (self.up, self.life))

  def _on_goingdown(self, event):
    self.gd += 1
    self.life.append("GoingDown")
    self.ev("life", "GoingDown", self.call_idx)
    if not self.quit_calls:
      self.fail("goingdown-without-quit", "GoingDownEvent without quit()")
    elif self.gd > 1:
      self.fail("goingdown-twice", "GoingDownEvent raised %d times after %d "
                "quit() call(s) (life=%s)" % (self.gd, self.quit_calls,
                                              self.life))
    elif self.down:
      self.fail("goingdown-after-down", "GoingDownEvent after DownEvent")
    if self.cfg.get("quit_in_goingdown") and self.gd == 1 \
        and self.viol is None:
      # some component's clean-up (shared between "I failed" and "core is
      # stopping") calls core.quit() itself, from a thread that is not the
      # scheduler's: the shutdown in progress is the only one there is
      self.probe("quit_from_goingdown_handler")
      self.quit_calls += 1
      sched = self.core.scheduler
      saved = sched._thread
      sched._thread = None
      try:
        self.core.quit()
      except Exception as e:
        self.fail("exception-escaped/quit/" + type(e).__name__,
                  "%s: %s" % (type(e).__name__, str(e)[:200]))
      finally:
        sched._thread = saved

  def _on_down(self, event):
    self.down += 1
    self.life.append("Down")
    self.ev("life", "Down", self.call_idx)
    if not self.gd:
      self.fail("down-before-goingdown", "DownEvent before GoingDownEvent")
    elif self.down > 1:
      self.fail("down-twice", "DownEvent raised %d times after %d quit() "
                "call(s) (life=%s)" % (self.down, self.quit_calls, self.life))

  # -- components -------------------------------------------------------------
  def _comp_class(self, c):
    cls = self.classes.get(c)
    if cls is not None:
      return cls
    spec = self.cfg["comps"].get(c) or {"kind": "plain", "via": "name",
                                        "core_name": False}
    RV = self.RV
    h = self
    ns = {}
    if spec["kind"] == "plain":
      bases = (object,)
    else:
      bases = (RV.EventMixin,)
      ns["_eventMixin_events"] = set([Ping if spec["kind"] == "ping"
                                      else Pong])

    per_instance = spec.get("core_name") in ("inst", "over")

    def __init__(self):
      self.h_name = c
      self.h_gen = len(h.objs.setdefault(c, []))
      h.objs[c].append(self)
      h.cur[c] = self
      if per_instance:
        self._core_name = c
        h.probe("core_name_per_instance")
    ns["__init__"] = __init__
    if spec.get("falsy") == "len":
      ns["__len__"] = lambda self: 0
      h.probe("falsy_component")
    elif spec.get("falsy") == "bool":
      ns["__bool__"] = lambda self: False
      h.probe("falsy_component")
    if spec.get("core_name"):
      if spec["core_name"] is True:
        ns["_core_name"] = c
      elif spec["core_name"] == "over":
        ns["_core_name"] = "dflt_" + c
      elif spec["core_name"] == "other":
        ns["_core_name"] = "canon_" + c
        h.probe("explicit_name_beside_core_name")
      cname = "Comp_" + c
    else:
      cname = c
    cls = type(cname, bases, ns)
    cls.h_kind = spec["kind"]
    self.classes[c] = cls
    return cls

  def do_reg(self, c, same=False):
    core = self.core
    spec = self.cfg["comps"].get(c) or {"kind": "plain", "via": "name",
                                        "core_name": False}
    cls = self._comp_class(c)
    via = spec["via"]
    again = c in self.registered
    obj = None
    if same and c in self.cur:
      obj = self.cur[c]
      if via == "new":
        via = "obj"
    elif via != "new":
      obj = cls()                  # (its __init__ records it as current)
    if again:
      self.probe("reregister")
    self.probe("via_" + via)
    self.registered.add(c)
    self.reg_seq[c] = seq = self.reg_seq.get(c, 0) + 1
    self.ev("reg", c, via, self.depth, again)
    self.depth += 1
    try:
      if via == "name":
        core.register(c, obj)
      elif via == "obj":
        core.register(obj)
      else:
        obj = core.registerNew(cls)
    except Exception as e:
      self.fail("exception-escaped/register/" + type(e).__name__,
                "register(%s) raised %s: %s" % (c, type(e).__name__,
                                                 str(e)[:200]))
      return
    finally:
      self.depth -= 1
    if (self.reg_seq[c] == seq and core.components.get(c) is not obj
        and self.viol is None):
      # (seq unchanged: no callback re-registered the name meanwhile)
      self.fail("registry-wrong", "core.components[%r] is not the object "
                "just registered" % c)
    self.invariants("register")

  # -- waiters ----------------------------------------------------------------
  def depset(self, w):
    sp = self.cfg["waiters"][w]
    return sorted(set(sp.get("deps", [])) | set(sp.get("handlers", [])))

  def on_fire(self, w, a=(), k=None):
    """Body of every waiter callback / _all_dependencies_met."""
    core = self.core
    sp = self.cfg["waiters"][w]
    self.fired[w] += 1
    self.ev("fire", w, self.call_idx, self.depth)
    if self.fired[w] > self.declared[w]:
      self.fail("fired-twice", "callback of %s ran %d times for %d "
                "declaration(s) (during %s, nesting depth %d)"
                % (w, self.fired[w], self.declared[w], self.cur_op,
                   self.depth))
      return
    deps = self.depset(w)
    miss = [c for c in deps if c not in core.components
            or c not in self.registered]
    if miss:
      self.fail("fired-early", "callback of %s ran while %s not registered "
                "(registry: %s)" % (w, ",".join(miss),
                                    sorted(x for x in core.components
                                           if x != "core")))
      return
    if self.depth == 0:
      self.fail("fired-late", "callback of %s ran outside any register/"
                "call_when_ready/listen_to_dependencies call" % w)
      return
    if sp["kind"] == "cwr" and sp.get("args"):
      if a != (w, 7) or k != {"tag": w}:
        self.fail("bad-args", "callback of %s got args=%r kw=%r" % (w, a, k))
        return
    if sp["kind"] == "ltd":
      self._ltd_fired(w)
    if self.cur_op == "decl" and self.depth == 1:
      self.probe("reg_before_decl")
    elif self.depth >= 2:
      self.probe("chained_fire")
    else:
      self.probe("decl_before_reg")
    if sp.get("fail") == "early":
      self.probe("failing_callback")
      raise RuntimeError("callback of %s fails (early)" % w)
    for c in sp.get("chain", []):
      if self.viol is not None:
        break
      self.probe("chained_register")
      self.do_reg(c)
    if sp.get("fail") == "late":
      self.probe("failing_callback")
      raise RuntimeError("callback of %s fails (late)" % w)

  def _attr_name(self, sp, c):
    return c if sp.get("short") else "_%s_" % c

  def _ltd_fired(self, w):
    """Called from the sink's _all_dependencies_met: attributes and
    listeners must be in place already."""
    sp = self.cfg["waiters"][w]
    sink = self.sinks[w]
    core = self.core
    if sp.get("attrs") or sp.get("short"):
      for c in self.depset(w):
        got = getattr(sink, self._attr_name(sp, c), None)
        if got is None or got is not core.components.get(c):
          self.fail("ltd-attr-wrong", "sink %s: attribute for %s not set to "
                    "the registered component when _all_dependencies_met "
                    "ran" % (w, c))
    self.wired[w] = {c: core.components.get(c) for c in sp["handlers"]}

  def _make_sink(self, w):
    sp = self.cfg["waiters"][w]
    h = self
    ns = {}
    for c in sp["handlers"]:
      def handler(self_, event, _c=c):
        src = event.source
        h.deliv.append((w, _c, getattr(src, "h_name", "?"),
                        getattr(src, "h_gen", -1)))
      ns["_handle_%s_Ping" % c] = handler
    if sp.get("adm"):
      def _all_dependencies_met(self_):
        h.on_fire(w)
      ns["_all_dependencies_met"] = _all_dependencies_met
    cls = type("Sink_" + w, (object,), ns)
    return cls()

  def _make_callback(self, w):
    sp = self.cfg["waiters"][w]
    h = self

    def body(*a, **k):
      h.on_fire(w, a, k)

    if sp["cb"] == "func":
      body.__name__ = "cb_" + w
      return body
    if sp["cb"] == "method":
      cls = type("Waiter_" + w, (object,), {"notify": lambda s, *a, **k:
                                            h.on_fire(w, a, k)})
      return cls().notify
    return functools.partial(body)

  def _drop_entry(self, pred):
    """Resynchronisation after a known finding: take the dead entry out of
    core._waiters so that the rest of the run explores normal behaviour."""
    ws = self.core._waiters
    for i, e in enumerate(ws):
      if pred(e):
        del ws[i]
        return True
    return False

  def do_decl(self, w):
    core = self.core
    sp = self.cfg["waiters"].get(w)
    if sp is None or w in self.dead:
      return
    if sp["kind"] == "ltd":
      if self.declared[w]:
        return                     # one wiring request per sink
      return self._decl_ltd(w, sp)
    deps = list(sp["deps"])
    form = sp["form"]
    if form == "str" and len(deps) != 1:
      form = "list"
    if form == "default" and deps:
      form = "list"
    if not deps:
      self.probe("empty_deps")
    if len(set(deps)) < len(deps):
      self.probe("dup_deps")
    if self.declared[w]:
      self.probe("redeclared")
    self.probe("form_" + form)
    cb = self._cbs.get(w)
    if cb is None:
      cb = self._cbs[w] = self._make_callback(w)
    kw = {}
    if sp.get("named"):
      kw["name"] = "waiter-" + w
    if sp.get("args"):
      kw["args"] = (w, 7)
      kw["kw"] = {"tag": w}
    if form == "str":
      arg = deps[0]
    elif form == "tuple":
      arg = tuple(deps)
    elif form == "set":
      arg = set(deps)
    else:
      arg = list(deps)
    self.ev("decl", w, "cwr", form, tuple(deps))
    self.declared[w] += 1
    before = self.fired[w]
    exc = None
    self.depth += 1
    try:
      if form == "default":
        core.call_when_ready(cb, **kw)
      else:
        core.call_when_ready(cb, arg, **kw)
    except Exception as e:
      exc = e
    finally:
      self.depth -= 1
    if exc is not None:
      et = type(exc).__name__
      self.ev("decl-raised", w, et)
      if (et == "TypeError" and not deps and form in ("list", "default")
          and self.fired[w] == before and self.kf(KF_EMPTY_LIST)):
        # listed deviation: an empty list becomes [[]], hasComponent([])
        # raises, and the entry stays behind poisoning every register()
        self._drop_entry(lambda en: en[0] is cb and en[2] == [[]])
        self.declared[w] -= 1
        self.dead.add(w)
      elif (et == "AttributeError" and sp["cb"] == "partial"
            and not sp.get("named") and self.fired[w] == before
            and self.kf(KF_NO_NAME)):
        # listed deviation: name derivation needs callback.__name__
        self.declared[w] -= 1
        self.dead.add(w)
      else:
        self.fail("exception-escaped/call_when_ready/" + et,
                  "call_when_ready(%s callback, components=%r%s) raised %s: "
                  "%s" % (sp["cb"], "<omitted>" if form == "default" else arg,
                          ", name=..." if sp.get("named") else "", et,
                          str(exc)[:200]))
      return
    if (form == "tuple" and not deps and self.fired[w] == before
        and self.viol is None):
      if self.kf(KF_EMPTY_TUPLE):
        # listed deviation: () becomes [()] -- a component that never comes
        self._drop_entry(lambda en: en[0] is cb and en[2] == [()])
        self.declared[w] -= 1
        self.dead.add(w)
      else:
        self.fail("not-fired-when-ready/call_when_ready/empty-tuple",
                  "call_when_ready(cb, ()) names no component but the "
                  "callback did not run")
      return
    if sp.get("after") and isinstance(arg, (list, set)) and form != "default":
      # the caller goes on using its container: the declaration must not
      # follow it
      self.probe("argument_mutated_after_declaration")
      if sp["after"] == "append":
        (arg.append if isinstance(arg, list) else arg.add)("never_registered")
      else:
        arg.clear()
    self.invariants("call_when_ready")

  def _decl_ltd(self, w, sp):
    core = self.core
    self.probe("listen_to_dependencies")
    sink = self.sinks[w] = self._make_sink(w)
    deps = list(sp["deps"])
    form = sp["form"]
    if form == "str" and len(deps) != 1:
      form = "list"
    if form == "none" and deps:
      form = "list"
    if not self.depset(w):
      self.probe("empty_deps")
    kw = {}
    if not sp.get("attrs"):
      kw["attrs"] = False
    if sp.get("short"):
      kw["short_attrs"] = True
    if form == "str":
      arg = deps[0]
    elif form == "tuple":
      arg = tuple(deps)
    elif form == "set":
      arg = set(deps)
    elif form == "list":
      arg = list(deps)
    else:
      arg = None
    la = sp.get("largs")
    named = sorted(set(deps) | set(sp["handlers"]))
    if la == "all":
      kw["listen_args"] = {None: {"priority": 3}}
    elif la == "one" and named:
      kw["listen_args"] = {named[0]: {"priority": 3}}
    elif la == "shared":
      if not hasattr(self, "shared_largs"):
        self.shared_largs = {None: {"priority": 2}}
      kw["listen_args"] = self.shared_largs
    if "listen_args" in kw:
      self.probe("listen_args")
    self.ev("decl", w, "ltd", form, tuple(deps), tuple(sp["handlers"]))
    self.declared[w] += 1
    self.depth += 1
    try:
      if arg is None:
        core.listen_to_dependencies(sink, **kw)
      else:
        core.listen_to_dependencies(sink, arg, **kw)
    except Exception as e:
      self.fail("exception-escaped/listen_to_dependencies/"
                + type(e).__name__, "listen_to_dependencies(sink of %s, %r) "
                "raised %s: %s" % (w, arg, type(e).__name__, str(e)[:200]))
      return
    finally:
      self.depth -= 1
    self.invariants("listen_to_dependencies")

  def invariants(self, where):
    """After every outermost API call: every declared waiter whose
    components are all registered has run exactly as often as it was
    declared, every other one not at all.  (Not consulted after a register()
    nested inside a callback: the statement only demands that the waiters
    of a chained registration run within the same outer call.)"""
    if self.viol is not None or self.depth > 0:
      return
    for w in sorted(self.cfg["waiters"]):
      if w in self.dead:
        continue
      sp = self.cfg["waiters"][w]
      d = self.declared[w]
      deps = self.depset(w)
      ready = d > 0 and all(c in self.registered for c in deps)
      observed = []
      if sp["kind"] == "cwr" or sp.get("adm"):
        observed.append(("callback", self.fired[w]))
      if sp["kind"] == "ltd" and d and (sp.get("attrs") or sp.get("short")):
        sink = self.sinks[w]
        n = len([c for c in deps if hasattr(sink, self._attr_name(sp, c))])
        if 0 < n < len(deps):
          self.fail("ltd-partial-wiring", "sink %s has %d of %d component "
                    "attributes after %s" % (w, n, len(deps), where))
          return
        if deps:
          observed.append(("attrs", 1 if n else 0))
          if n and w not in self.wired:
            self.wired[w] = {c: getattr(sink, self._attr_name(sp, c))
                             for c in sp["handlers"]}
      for what, f in observed:
        if ready and f < d:
          self.fail("not-fired-when-ready/" + where,
                    "%s of %s (needs %s) had not run when %s returned "
                    "although every component it names is registered "
                    "(registered: %s; ran %d of %d)"
                    % (what, w, ",".join(deps) or "nothing", where,
                       ",".join(sorted(self.registered)), f, d))
          return
        if not ready and f > 0:
          self.fail("fired-early", "%s of %s ran although %s not registered"
                    % (what, w, [c for c in deps
                                 if c not in self.registered]))
          return
        if f > d:
          self.fail("fired-twice", "%s of %s ran %d times for %d "
                    "declaration(s)" % (what, w, f, d))
          return

  # -- events through the wiring ------------------------------------------------
  def do_raise(self, only=None):
    for c in sorted(self.objs):
      if only is not None and c != only:
        continue
      for obj in list(self.objs[c]):
        if getattr(obj, "h_kind", None) != "ping":
          continue
        exp = []
        for w, m in self.wired.items():
          for hc, o in m.items():
            if o is obj and hc == c:
              exp.append((w, c, c, obj.h_gen))
        del self.deliv[:]
        try:
          obj.raiseEvent(Ping)
        except Exception as e:
          self.fail("exception-escaped/raiseEvent/" + type(e).__name__,
                    str(e)[:200])
          return
        got = sorted(self.deliv)
        exp.sort()
        self.ev("raise", c, obj.h_gen, tuple(got))
        self.probe("sink_event_delivered", len(got))
        if got != exp:
          self.fail("sink-delivery-mismatch", "raising %s's event (object "
                    "#%d): handlers invoked %s, wiring implies %s"
                    % (c, obj.h_gen, got, exp))
          return

  # -- lifecycle steps ----------------------------------------------------------
  def do_goup(self):
    if self.goup_called:
      return
    self.goup_called = True
    if self.quit_calls:
      self.probe("goup_after_quit")
    try:
      self.core.goUp()
    except Exception as e:
      self.fail("exception-escaped/goUp/" + type(e).__name__,
                "goUp() raised %s: %s" % (type(e).__name__, str(e)[:200]))
    self.goup_returned = True
    self.in_delivery = False
    if self._outstanding():
      self.probe("deferral_held")
    self.pump()

  def _release(self, h):
    """Invoke the deferral of holder h.  The first invocation releases it;
    any further one must be refused with RuntimeError and must not raise
    UpEvent again."""
    st = self.holders[h]
    if not st["released"]:
      st["released"] = True
      self.ev("release", h, self.in_delivery)
      try:
        st["fn"]()
      except Exception as e:
        self.fail("exception-escaped/deferral/" + type(e).__name__,
                  "first release of %s raised %s: %s"
                  % (h, type(e).__name__, str(e)[:200]))
      return
    up0 = self.up
    self.in_double_release = True
    try:
      st["fn"]()
    except RuntimeError:
      self.probe("double_release_rejected")
      self.ev("double-release-rejected", h)
    except Exception as e:
      self.fail("double-release-wrong-exception/" + type(e).__name__,
                str(e)[:200])
    else:
      self.fail("double-release-accepted", "calling the deferral of %s a "
                "second time did not raise" % h)
    finally:
      self.in_double_release = False
    if self.up != up0:
      self.fail("up-on-double-release", "UpEvent count changed")

  def do_release(self, step):
    h = step.get("h")
    st = self.holders.get(h)
    if st is None:
      return
    if not st["taken"]:
      self.probe("release_before_goup_skipped")
      return
    if step.get("via") == "later" and not st["released"]:
      self.probe("deferral_released_call_later")
      self.ev("release-queued", h)
      self.core.call_later(self._release, h)
      if step.get("settle"):
        self.settle()
      return
    if not st["released"]:
      self.probe("deferral_released_late")
    self._release(h)

  def pump(self):
    """Run queued 'threads' (targets of the Thread objects core.quit made).
    While the core is starting up _quit() re-queues itself: bounded."""
    q = self.quit_q
    budget = len(q) + 2
    while q and budget > 0:
      budget -= 1
      t = q.pop(0)
      starting = self.core.starting_up
      if starting:
        self.probe("quit_retry_while_starting")
      self.ev("quit-thread-runs", starting)
      try:
        t.run()
      except Exception as e:
        self.fail("exception-escaped/_quit/" + type(e).__name__,
                  "%s: %s" % (type(e).__name__, str(e)[:200]))
        return

  def do_quit(self, step):
    core = self.core
    self.quit_calls += 1
    if self.quit_calls == 2:
      self.probe("quit_twice")
    self.probe("quit_before_up" if not self.up else "quit_after_up")
    if core.starting_up:
      self.probe("quit_while_starting_up")
    foreign = bool(step.get("foreign"))
    self.ev("quit", foreign, bool(step.get("pump")))
    sched = core.scheduler
    saved = sched._thread
    if foreign:
      self.probe("quit_foreign_thread")
      sched._thread = None          # the caller is not the scheduler thread
    try:
      core.quit()
    except Exception as e:
      self.fail("exception-escaped/quit/" + type(e).__name__,
                "%s: %s" % (type(e).__name__, str(e)[:200]))
    finally:
      sched._thread = saved
    if step.get("pump"):
      self.pump()

  def life_check(self, final=False):
    if self.viol is not None:
      return
    core = self.core
    if self.goup_returned and self.gu != 1:
      self.fail("goingup-missing", "goUp() returned, GoingUpEvent raised %d "
                "times" % self.gu)
      return
    if (self.quit_calls and not core.starting_up and not self.quit_q
        and (self.gd != 1 or self.down != 1)):
      self.fail("down-missing", "quit() called %d time(s), the core is not "
                "starting up and the quit thread has run, but GoingDown=%d "
                "Down=%d (life=%s)" % (self.quit_calls, self.gd, self.down,
                                       self.life))
      return
    if final and self.goup_returned and not self._outstanding():
      pend = [h for h, st in self.holders.items()
              if st["taken"] and not st["released"]]
      if not pend and self.up != 1:
        self.fail("up-missing", "goUp() returned and every deferral taken "
                  "was released, but UpEvent was raised %d times (life=%s)"
                  % (self.up, self.life))

  # -- the run -----------------------------------------------------------------
  def run(self):
    self._cbs = {}
    for idx, st in enumerate(self.plan["steps"]):
      op = st.get("op")
      self.call_idx = idx
      self.cur_op = op
      self.ev("op", idx, op)
      if op == "reg":
        if st.get("c") in ALL_C:
          self.do_reg(st["c"], same=bool(st.get("same")))
      elif op == "decl":
        self.do_decl(st.get("w"))
      elif op == "raise":
        self.do_raise(st.get("c"))
      elif op == "goup":
        self.do_goup()
      elif op == "release":
        self.do_release(st)
      elif op == "quit":
        self.do_quit(st)
      elif op == "settle":
        self.settle()
        self.pump()
      self.check()
      if self.depth != 0:
        raise S.SimAbort("harness", "depth %d after step %d" % (self.depth,
                                                                idx))
      self.life_check()
      self.check()
    # --- end of plan -------------------------------------------------------
    self.call_idx = len(self.plan["steps"])
    self.cur_op = "end"
    self.settle()
    self.pump()
    self.check()
    self.invariants("end")
    self.check()
    self.do_raise()
    self.check()
    self.life_check(final=True)
    self.check()
    if self.quit_calls and not self.core.starting_up:
      self.probe("sched_hasquit" if self.core.scheduler._hasQuit
                 else "sched_not_quit")


class Ping(object):
  pass


class Pong(object):
  pass


def _bind_events():
  """Ping/Pong must derive from revent.Event, which is importable only after
  boot put /repo on sys.path."""
  global Ping, Pong
  import pox.lib.revent.revent as RV
  if not issubclass(Ping, RV.Event):
    Ping = type("Ping", (RV.Event,), {})
    Pong = type("Pong", (RV.Event,), {})


def run_plan(plan):
  import pox.core  # noqa: F401  (boot has imported it already)
  _bind_events()
  sim = S.Sim(mix(plan["seed"], "run"), calm=plan.get("calm", False))
  S.install(sim)
  known = load_known(PROP)
  res = {"verdict": "ok"}
  h = None
  try:
    h = Harness(sim, plan, known)
    h.run()
  except Violation as v:
    res.update(verdict="violation", vclass=v.vclass, detail=v.detail)
  except S.SimAbort as a:
    if a.vclass == "harness":
      res.update(verdict="error", detail=a.detail)
    else:
      res.update(verdict="violation", vclass=a.vclass, detail=a.detail)
  fires = sum(h.fired.values()) if h else 0
  p = sim.probes
  res["digest"] = sim.digest()
  res["sim_time"] = sim.now - S.T0
  res["steps"] = len(plan["steps"])
  res["known"] = sorted(set(h.hit_known)) if h else []
  res["nontrivial"] = bool((fires >= 2 and (p["decl_before_reg"]
                                            or p["chained_fire"]))
                           or p["deferral_held"])
  res["stats"] = dict(sim.stats)
  res["probes"] = dict(sim.probes)
  return res
