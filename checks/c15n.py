"""
C15, in-system half -- hostile frames travelling through a running network.

The sweep in c15.py applies the oracle to PacketIn(...).parsed in isolation.
Here the same damaged frames meet the code that actually receives them in a
deployment: a real SoftwareSwitch parses the frame on arrival, extracts a
match, looks it up, cuts it to miss_send_len (a truncation no sender chose)
and encodes a packet-in; the real controller decodes it and raises PacketIn
to forwarding.l2_learning and openflow.discovery (which walks the TLVs of
anything with the LLDP ethertype) and to a harness listener doing what any
handler may do with event.parsed: print it, dump it, re-serialise it.  The
frames a handler floods travel on over a link whose wire may truncate them or
replace a byte (the data-plane fault injector), so the second switch and the
controller see them damaged once more, and discovery's own probes are damaged
in flight.

Oracle: nothing raises -- not the switch's receive path, not its output path
(re-serialisation of the parse), not a PacketIn handler (revent logs those),
no task dies, no control connection is lost; and once the hostile traffic
stops and the learned flows have expired, the network still forwards a clean
exchange (bounded liveness after the last fault).

One in-system scenario is one step (mode "insitu") of a C15 plan; c15.run_plan
calls run() for it in the same forked child, after the sweep steps.
"""

import os
import sys

from simkit import sim as S
from simkit.rng import Rng, mix
from models import rawframe as F

_PKT_DIR = os.path.join("pox", "lib", "packet") + os.sep

MSLS = [0, 1, 13, 14, 15, 18, 22, 34, 38, 42, 54, 62, 128, 128, 1500, 0xffff]


def gen_step(seed, tier, names):
  """the explicit description of one scenario (JSON-able; replayable)"""
  r = Rng(mix(seed, "insitu"))
  nsw = r.wpick([(2, 1), (5, 2), (2, 3)])
  cfg = {"nsw": nsw, "msl": r.pick(MSLS),
         "max_buffers": r.pick([0, 1, 4, 100]),
         "discovery": r.chance(0.7), "l2": r.chance(0.85),
         "segment": r.chance(0.3), "delay": r.chance(0.3),
         "link_delay": r.pick([0, 0, 2]),
         "wire": r.pick(["none", "trunc", "byte", "both", "both"]),
         "wire_rate": r.pick([0.2, 0.5, 1.0]),
         "flood_delay": 0}
  ops = []
  n = r.randint(8, 60 if tier == "thorough" else 30)
  for _ in range(n):
    k = r.wpick([(8, "hostile"), (8, "corpus"), (2, "good"), (1, "gap"),
                 (1, "lldp")])
    host = r.randrange(nsw + 1)
    if k == "hostile":
      ops.append({"k": k, "host": host, "j": r.randrange(1 << 30),
                  "dst": r.pick(["keep", "keep", "bcast", "host"])})
    elif k == "corpus":
      dmg = r.wpick([(2, None), (4, "trunc"), (4, "byte")])
      op = {"k": k, "host": host, "name": r.pick(names), "dmg": dmg,
            "at": r.random(), "v": r.randrange(256),
            "dst": r.pick(["keep", "bcast", "bcast", "host"]),
            "src": r.pick(["keep", "host"])}
      ops.append(op)
    elif k == "good":
      ops.append({"k": k, "src": host, "dst": r.randrange(nsw + 1)})
    elif k == "lldp":
      # a forged or stale discovery probe from a host port
      ops.append({"k": k, "host": host, "dmg": r.pick([None, "trunc",
                                                         "byte", "tlv"]),
                  "at": r.random(), "v": r.randrange(256)})
    else:
      ops.append({"k": k, "dt": r.pick([0.3, 1.1, 5.0, 11.0])})
  # further PacketIn listeners that ship with pox and read header fields of
  # whatever arrives (own stream: the draws above stay what they were)
  ra = Rng(mix(seed, "insitu-apps"))
  cfg["apps"] = [a for a in ("l3_learning", "dns_spy", "host_tracker")
                 if ra.chance(0.3)]
  if not cfg["discovery"] and "host_tracker" in cfg["apps"]:
    cfg["apps"].remove("host_tracker")   # (it asks discovery about ports)
  return {"mode": "insitu", "seed": mix(seed, "insitu-run"), "cfg": cfg,
          "ops": ops, "range": [0, len(ops)]}


class _Findings(object):
  def __init__(self):
    self.items = []
    self.ids = set()

  def add(self, f):
    if f["id"] not in self.ids:
      self.ids.add(f["id"])
      self.items.append(f)


def _where(tb):
  """innermost pox/lib/packet frame; else innermost pox frame; else last"""
  inner = anypox = last = None
  while tb is not None:
    co = tb.tb_frame.f_code
    fn = co.co_filename
    here = (os.path.basename(fn)[:-3] if fn.endswith(".py")
            else os.path.basename(fn),
            getattr(co, "co_qualname", co.co_name), tb.tb_lineno)
    if _PKT_DIR in fn:
      inner = here
    elif os.sep + "pox" + os.sep in fn:
      anypox = here
    last = here
    tb = tb.tb_next
  return inner or anypox or last or ("?", "?", 0)


def _exc_name(t):
  if t.__module__ == "builtins":
    return t.__name__
  return t.__module__.rsplit(".", 1)[-1] + "." + t.__name__


def _mk(op, et, ev, tb, frame=None, extra=None):
  fil, func, line = _where(tb)
  name = _exc_name(et)
  try:
    msg = str(ev)[:160]
  except Exception:
    msg = "<unprintable>"
  f = {"id": "C15-insitu-%s-%s-%s-%s" % (op, name, fil, func), "op": op,
       "exc": name, "file": fil + ".py", "func": func, "line": line,
       "msg": msg}
  if frame is not None:
    f["frame_hex"] = bytes(frame)[:200].hex()
    f["frame_len"] = len(frame)
  if extra:
    f["where"] = extra
  return f


def _lldp(dpid, port, ttl=120):
  """a discovery probe as pox's LLDPSender builds it"""
  def tlv(t, v):
    return bytes([(t << 1) | (len(v) >> 8), len(v) & 0xff]) + v
  chassis = tlv(1, b"\x07" + b"dpid:" + (b"%x" % dpid))
  portid = tlv(2, b"\x02" + str(port).encode())
  ttlv = tlv(3, bytes([ttl >> 8, ttl & 0xff]))
  sysdesc = tlv(6, b"dpid:" + (b"%x" % dpid))
  return (b"\x01\x23\x20\x00\x00\x01" + F.mac(0x70 + (port & 15)) +
          b"\x88\xcc" + chassis + portid + ttlv + sysdesc + b"\0\0")


def _damage(raw, kind, at, v):
  if not raw or kind is None:
    return raw
  if kind == "trunc":
    return raw[:int(at * (len(raw) + 1)) % (len(raw) + 1)]
  if kind == "byte":
    k = int(at * len(raw)) % len(raw)
    return raw[:k] + bytes([v]) + raw[k + 1:]
  if kind == "tlv":
    # a TLV header (type / length) inside the LLDP body
    if len(raw) <= 16:
      return raw
    k = 14 + int(at * (len(raw) - 14)) % (len(raw) - 15)
    return raw[:k] + bytes([v, (v * 7 + 3) & 0xff]) + raw[k + 2:]
  return raw


def run(step, calm=False):
  """
  Execute one in-system scenario.  Returns (findings, probes, stats,
  digest, sim_time, nframes).
  """
  import logging
  from checks import c15 as C
  from worlds.net import NetWorld
  cfg = step["cfg"]
  sim = S.Sim(step["seed"], calm=calm)
  S.install(sim)
  sim.net_segment = cfg.get("segment", False)
  sim.net_delay = cfg.get("delay", False)
  sim.max_delay_ticks = 8
  fnd = _Findings()
  cur = {"frame": None}     # the frame most recently handed to a switch

  # every logged exception, with its traceback (revent's handler wrapper,
  # Connection.read's handler wrapper, the switch's message wrapper)
  class H(logging.Handler):
    def emit(self, rec):
      ei = rec.exc_info
      if ei and ei[0] is not None:
        try:
          m = rec.getMessage()[:120]
        except Exception:
          m = str(rec.msg)[:120]
        fnd.add(_mk("handler", ei[0], ei[1], ei[2], cur["frame"],
                    extra="logged by %r: %s" % (rec.name, m)))
  logging.getLogger().addHandler(H())

  import pox.forwarding.l2_learning as L2
  import pox.openflow.discovery as D
  from pox.lib.packet.ethernet import ethernet
  net = NetWorld(sim, cfg)
  net.boot()
  net.nexus.miss_send_len = cfg["msl"]
  net.link_delay_ticks = cfg.get("link_delay", 0)
  L2._flood_delay = 0
  if cfg.get("l2", True):
    L2.launch()
    sim.probes["app_l2_learning"] += 1
  if cfg.get("discovery"):
    D.random = lambda: sim.ch.uniform("disc_random", 0.0, 1.0, 0.0)
    D.launch(link_timeout=10)
    sim.probes["app_discovery"] += 1
  for app in cfg.get("apps") or ():
    if app == "l3_learning":
      import pox.forwarding.l3_learning as L3
      L3.launch()
    elif app == "dns_spy":
      import pox.proto.dns_spy as DS
      if not net.core.hasComponent("Interactive"):
        # (the interactive shell's variable table, where dns_spy publishes
        # its lookup function: a plain holder here)
        net.core.register("Interactive", type("Interactive", (object,),
                                              {"variables": {}})())
      DS.launch()
    elif app == "host_tracker":
      import pox.host_tracker as HT
      HT.launch()
    sim.probes["app_" + app] += 1
  sim.probes["msl_%d" % cfg["msl"]] += 1

  # what any handler may do with the parse result

  def on_packet_in(event):
    sim.probes["packet_in_seen"] += 1
    try:
      p = event.parsed
    except Exception as e:
      fnd.add(_mk("parse", type(e), e, e.__traceback__, event.data))
      return
    if p is None:
      return
    if not p.parsed:
      sim.probes["packet_in_unparsed_ethernet"] += 1
    if len(event.data) < event.ofp.total_len:
      sim.probes["packet_in_cut_by_miss_send_len"] += 1
    chain, fs = C.run_case(event.data)
    for f in fs:
      f = dict(f)
      f["id"] = f["id"].replace("C15-", "C15-insitu-", 1)
      f["frame_hex"] = event.data[:200].hex()
      f["frame_len"] = len(event.data)
      fnd.add(f)
    if "-" in chain:
      sim.probes["packet_in_parse_stopped_early"] += 1
    # the object the other handlers shared
    for opn, fn in (("str", lambda: str(p)), ("dump", p.dump),
                    ("pack", p.pack)):
      try:
        fn()
      except Exception as e:
        fnd.add(_mk(opn, type(e), e, e.__traceback__, event.data))
  net.nexus.addListenerByName("PacketIn", on_packet_in, priority=-1000)

  nsw = cfg["nsw"]
  for i in range(1, nsw + 1):
    net.add_switch(i, 3, max_buffers=cfg["max_buffers"])
  for i in range(1, nsw):
    net.link(i, 2, i + 1, 1)          # a line: sw i port 2 -- sw i+1 port 1
  # hosts: host 0 on switch 1 port 1; host i (1..nsw) on switch i port 3
  hostpos = [(1, 1)] + [(i, 3) for i in range(1, nsw + 1)]
  for sw, port in hostpos:
    net.add_host(sw, port)
  if nsw > 1:
    net.add_host(nsw, 2)
  macs = [F.mac(0x10 + h) for h in range(len(hostpos))]

  # the receive path of a switch: nothing may come out of it
  orig_deliver = net.deliver

  def deliver(far, raw):
    cur["frame"] = raw
    try:
      orig_deliver(far, raw)
    except (S.SimAbort, KeyboardInterrupt):
      raise
    except Exception as e:
      fnd.add(_mk("switch-rx", type(e), e, e.__traceback__, raw))
      sim.stats["switch_rx_raised"] += 1
  net.deliver = deliver

  # the output path: the parse is re-serialised
  orig_out = net._on_out

  def on_out(ns, event):
    try:
      event.packet.pack()
    except Exception as e:
      fnd.add(_mk("switch-tx-pack", type(e), e, e.__traceback__,
                  cur["frame"]))
    orig_out(ns, event)
  net._on_out = on_out
  # (add_switch bound net._on_out through a lambda that looks the attribute
  # up at call time on `self`: the replacement above is what runs)

  wire = cfg.get("wire", "none")
  rate = cfg.get("wire_rate", 0.5)

  def corrupt(raw):
    if wire == "none" or not raw:
      return raw
    if not sim.ch.chance("wire_fault", rate):
      return raw
    kind = wire
    if wire == "both":
      kind = sim.ch.pick("wire_kind", ("trunc", "byte"))
    if kind == "trunc":
      sim.stats["wire_truncated"] += 1
      return raw[:sim.ch.below("wire_cut", len(raw) + 1)]
    sim.stats["wire_byte_replaced"] += 1
    k = sim.ch.below("wire_off", len(raw))
    return raw[:k] + bytes([sim.ch.below("wire_val", 256)]) + raw[k + 1:]
  hostile_phase = [True]
  net.corrupt = lambda raw: corrupt(raw) if hostile_phase[0] else raw

  sim.drain()
  sim.advance(1.0)
  sim.drain()
  ups = set(net.nexus.connections.dpids)
  if ups != set(range(1, nsw + 1)):
    raise S.SimAbort("harness", "switches did not come up: %r" % (ups,))
  cons0 = {d: net.nexus.connections[d] for d in ups}

  tag = [0]

  def good_frame(s, dstmac):
    tag[0] += 1
    sip = F.ip(10, 0, 0, 1 + s)
    body = b"clean-%06d" % tag[0]
    return F.eth(dstmac, macs[s], F.ETH_IP,
                 F.ipv4(sip, F.ip(10, 0, 0, 99), 17,
                        F.udp(sip, F.ip(10, 0, 0, 99), 4000, 4001, body)))

  def quiesce():
    sim.drain()
    sim.advance(0.05)
    sim.drain()

  corpus = C.corpus()
  lo, hi = step.get("range", [0, len(step["ops"])])
  nframes = 0
  for idx, op in enumerate(step["ops"]):
    if idx < lo or idx >= hi:
      continue
    sim.ch.reseed(mix(step["seed"], "op", idx))
    k = op["k"]
    if k == "gap":
      quiesce()
      sim.advance(op["dt"])
      continue
    if k == "good":
      s, d = op["src"] % len(macs), op["dst"] % len(macs)
      raw = good_frame(s, macs[d])
      sw, port = hostpos[s]
      sim.ev("good", s, d)
      net.host_send(sw, port, raw)
      quiesce()
      continue
    h = op["host"] % len(macs)
    sw, port = hostpos[h]
    if k == "hostile":
      raw, what = C.random_case(step["seed"], op["j"])
      sim.probes["hostile_" + what.split("/")[0]] += 1
    elif k == "lldp":
      raw = _lldp(sim.ch.pick("lldp_dpid", (1, 2, 3, 9, 0xffffffffffff)),
                  sim.ch.pick("lldp_port", (1, 2, 3, 0xfffe, 70000)))
      raw = _damage(raw, op.get("dmg"), op["at"], op["v"])
      sim.probes["hostile_forged_probe"] += 1
    else:
      raw = corpus[op["name"]]
      raw = _damage(raw, op.get("dmg"), op["at"], op["v"])
      sim.probes["hostile_corpus_%s" % (op.get("dmg") or "pristine")] += 1
    if k != "lldp" and len(raw) >= 12:
      if op.get("dst") == "bcast":
        raw = b"\xff" * 6 + raw[6:]
      elif op.get("dst") == "host":
        raw = macs[(h + 1) % len(macs)] + raw[6:]
      if op.get("src") == "host":
        raw = raw[:6] + macs[h] + raw[12:]
    nframes += 1
    sim.ev("hostile", idx, len(raw))
    net.host_send(sw, port, raw)
    quiesce()

  # -- the faults stop ---------------------------------------------------
  hostile_phase[0] = False
  quiesce()
  if sim.task_deaths:
    fnd.add({"id": "C15-insitu-task-died-%s" % (sim.task_deaths[0][0],),
             "op": "task", "exc": str(sim.task_deaths[0][0]), "file": "?",
             "func": "?", "line": 0, "msg": str(sim.task_deaths[0][1])})
  now_up = set(net.nexus.connections.dpids)
  lost = [d for d in sorted(cons0)
          if d not in now_up or net.nexus.connections[d] is not cons0[d]]
  if lost:
    fnd.add({"id": "C15-insitu-connection-lost", "op": "liveness",
             "exc": "ConnectionLost", "file": "?", "func": "?", "line": 0,
             "msg": "control connection of switch(es) %r was lost or "
                    "replaced during hostile data-plane traffic" % (lost,)})
  elif cfg.get("l2", True) and not fnd.items and \
      (cfg["msl"] >= 14 or cfg["max_buffers"] == 0):
    # (with a miss_send_len below an Ethernet header the controller never
    # sees an address and l2_learning rightly ignores every packet-in)
    # flows learned from forged source addresses expire within 30 s (hard
    # timeout); then every host speaks once and a unicast must arrive
    sim.advance(31.0 + 2 * 2)
    quiesce()
    for s in range(len(macs)):
      net.host_send(hostpos[s][0], hostpos[s][1],
                    good_frame(s, b"\xff" * 6))
      quiesce()
    a, b = 0, len(macs) - 1
    before = len(net.hosts[hostpos[a]])
    probe = good_frame(b, macs[a])
    net.host_send(hostpos[b][0], hostpos[b][1], probe)
    quiesce()
    got = [r for _, r in net.hosts[hostpos[a]][before:]]
    if os.environ.get("C15N_DEBUG"):
      print("GOT", [g.hex() for g in got], "PROBE", probe.hex(), [(e[2], e[3], e[4][-12:]) for e in net.egress[-6:]])
    elsewhere = [key for key, lst in net.hosts.items()
                 if key != hostpos[a] and any(r == probe for _, r in lst)]
    # (discovery's own probes reach host ports too: count the probe only)
    got = [g for g in got if g == probe]
    if "l3_learning" in (cfg.get("apps") or ()):
      # two forwarding applications answer the same packet-in: the frame may
      # arrive more than once or elsewhere as well; it has to arrive
      ok = len(got) >= 1
    else:
      ok = got == [probe] and not elsewhere
    if not ok:
      fnd.add({"id": "C15-insitu-not-forwarding-afterwards",
               "op": "liveness", "exc": "NoDelivery", "file": "?",
               "func": "?", "line": 0,
               "msg": "31 s after the hostile traffic stopped, a clean "
                      "unicast from host %d to host %d (both re-learned) "
                      "arrived %d time(s) there and at %r"
                      % (b, a, len(got), elsewhere)})
    else:
      sim.probes["clean_exchange_after_hostile_traffic"] += 1
  sim.probes["insitu_frames"] += nframes
  return (fnd.items, dict(sim.probes), dict(sim.stats), sim.digest(),
          sim.now - S.T0, nframes)
