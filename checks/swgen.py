"""
Plan-generation helpers shared by the switch-world checks (C03, C04, C12,
C18): frame specs, matches derived from frames, action lists.
All output is JSON-serialisable.
"""

from simkit.rng import Rng, mix
from models import of10wire as W
from models import rawframe as F


def mac_hex(i):
  return F.mac(i).hex()


HOST_IPS = [F.ip(10, 0, 0, 1), F.ip(10, 0, 0, 2), F.ip(10, 0, 1, 1),
            F.ip(10, 1, 0, 1), F.ip(192, 168, 7, 9), F.ip(128, 0, 0, 1)]
SAFE_PORTS = [80, 81, 1000, 1001, 4000, 65535, 1]


def gen_frame(r, rich=False, nhosts=4, trunc=False):
  """a frame spec; rich=True widens to VLAN/ARP/ICMP/fragments/options/
  LLC/other ethertypes; trunc=True also to datagrams cut off inside their
  transport header and ARP opcodes that do not fit nw_proto (frames that
  lack a field an entry may require)"""
  s = r.randrange(nhosts)
  d = r.randrange(nhosts)
  fs = {"src": mac_hex(1 + s), "dst": mac_hex(1 + d),
        "sip": HOST_IPS[s % len(HOST_IPS)], "dip": HOST_IPS[d % len(HOST_IPS)],
        "paylen": r.pick([0, 1, 6, 20, 64, 200, 900]), "pseed": r.randrange(256)}
  if not rich:
    fs["kind"] = r.wpick([(6, "udp"), (2, "tcp")])
    fs["sport"] = r.pick(SAFE_PORTS)
    fs["dport"] = r.pick(SAFE_PORTS[:3])
    return fs
  k = r.wpick([(5, "udp"), (4, "tcp"), (3, "icmp"), (3, "arp"), (2, "other"),
               (1, "ipother"), (1, "snap"), (1, "llc"), (1, "rarp")])
  fs["kind"] = k
  if k in ("udp", "tcp"):
    fs["sport"] = r.pick(SAFE_PORTS)
    fs["dport"] = r.pick(SAFE_PORTS)
  elif k == "icmp":
    fs["itype"] = r.pick([0, 8, 8, 13])
    fs["icode"] = r.pick([0, 0, 1])
  elif k == "arp":
    fs["op"] = r.pick([1, 2, 3, 255])
    if trunc and r.chance(0.3):
      fs["op"] = r.pick([256, 0x0101, 0x0202, 0xffff])
    if r.chance(0.5):
      fs["dst"] = "ffffffffffff"
  elif k == "rarp":
    fs["op"] = r.pick([3, 4, 1])
  elif k == "other":
    fs["ethertype"] = r.pick([0x88b5, 0x8847, 0x0801, 0x0600, 0xffff])
  elif k == "ipother":
    fs["proto"] = r.pick([50, 132, 99, 253, 255])
  elif k == "snap":
    fs["ethertype"] = r.pick([0x0800 + 0x100, 0x88b5, 0x809b])
    fs["oui"] = r.pick(["000000", "000000", "00000c"])
    fs["paylen"] = min(fs["paylen"], 200)
    if trunc and r.chance(0.4):
      # (C03 only) the SNAP header announces an 802.1Q tag
      fs["snapvlan"] = [r.pick([1, 5, 100, 0xfff]), r.pick([0, 3, 7])]
      fs["oui"] = "000000"
      fs["sport"] = r.pick(SAFE_PORTS)
      fs["dport"] = r.pick(SAFE_PORTS)
  elif k == "llc":
    fs["paylen"] = min(fs["paylen"], 200)
  if k in ("udp", "tcp", "icmp", "ipother"):
    fs["tos"] = r.pick([0, 0, 0x10, 0xb8, 0xfc])
    if r.chance(0.15):
      fs["frag"] = r.pick([[1, 0], [1, 0], [0, 5], [1, 5]])
      if fs["frag"] == [1, 0] and r.chance(0.6):
        fs["fragcut"] = r.pick([8, 64, 1000])
    elif r.chance(0.25):
      fs["df"] = 1          # whole datagram, Don't-Fragment set
    if r.chance(0.15):
      fs["ipopts"] = r.pick(["01010101", "0101010101010101"])
    if k == "tcp" and r.chance(0.2):
      # (the last two end in a two-byte option flush with the header's end:
      # SACK-permitted, as in a Windows SYN)
      fs["tcpopts"] = r.pick(["020405b4", "01010101", "01010402",
                              "020405b401030307", "020405b401010402"])
      if r.chance(0.4):
        fs["paylen"] = 0        # a bare SYN / ACK
    if trunc and k in ("udp", "tcp", "icmp") and not fs.get("frag") \
        and r.chance(0.25):
      fs["l4cut"] = r.pick({"tcp": [0, 4, 12, 19], "udp": [0, 4, 7],
                            "icmp": [0, 2, 3]}[k])
  if trunc and k in ("snap", "llc") and not fs.get("snapvlan"):
    rt = Rng(mix(fs.get("pseed", 0), fs["paylen"], "tag8023"))
    if rt.chance(0.4):
      # (C03 only) a tagged 802.3 frame: tag, then length, then LLC
      fs["tag8023"] = [rt.pick([1, 5, 100, 0xfff]), rt.pick([0, 3, 7])]
  if k not in ("snap", "llc") and r.chance(0.3):
    fs["vlan"] = [r.pick([1, 5, 100, 0xfff, 0]), r.pick([0, 0, 3, 7])]
    if r.chance(0.2):
      fs["vlan2"] = [r.pick([1, 77, 0xfff]), r.pick([0, 5])]
  return fs


def frame_key(fs, in_port):
  from worlds.swref import build_frame
  return F.lookup_key(build_frame(fs), in_port)


def match_from_key(key, r, keep=0.5, exact=False):
  """
  Derive a canonical JSON match from a lookup key by wildcarding a random
  subset of fields (respecting prerequisites).  exact=True keeps all.
  """
  m = {}

  def k(p=None):
    return exact or r.chance(keep if p is None else p)

  if k():
    m["in_port"] = key["in_port"]
  if k():
    m["dl_src"] = key["dl_src"].hex()
  if k():
    m["dl_dst"] = key["dl_dst"].hex()
  if k():
    m["dl_vlan"] = key["dl_vlan"]
    if key["dl_vlan"] != F.VLAN_NONE and k():
      m["dl_vlan_pcp"] = key["dl_vlan_pcp"]
    elif exact:
      m["dl_vlan_pcp"] = key["dl_vlan_pcp"]
  if k(0.75):
    m["dl_type"] = key["dl_type"]
    if key["dl_type"] in (0x0800, 0x0806):
      if key["dl_type"] == 0x0800 and k():
        m["nw_tos"] = key["nw_tos"]
      if k(0.7):
        # (a field the frame lacks -- None in the key -- is required with
        # some value: no value equals an absent field)
        m["nw_proto"] = key["nw_proto"] if key["nw_proto"] is not None \
            else r.pick([1, 2])
        if key["dl_type"] == 0x0800 and key["nw_proto"] in (1, 6, 17):
          if k():
            m["tp_src"] = key["tp_src"] if key["tp_src"] is not None \
                else r.pick(SAFE_PORTS + [0])
          if k():
            m["tp_dst"] = key["tp_dst"] if key["tp_dst"] is not None \
                else r.pick(SAFE_PORTS + [0])
      for f in ("nw_src", "nw_dst"):
        if k(0.6):
          bits = 0 if exact else r.wpick(
              [(4, 0), (1, 1), (2, 8), (2, 16), (1, 24), (1, 31)])
          mask = (0xffffffff << bits) & 0xffffffff
          # the bits under the wildcard are "don't care": a third of the
          # prefixes keep them set, as a controller may send them
          kv = key[f] if key[f] is not None else HOST_IPS[0]
          m[f] = kv if (bits and r.chance(0.35)) else kv & mask
          m[f + "_bits"] = bits
  return m


def vary_dont_care(m, r):
  """the same match with other values in the address bits below the prefix
  length (which do not count)"""
  m = dict(m)
  for f in ("nw_src", "nw_dst"):
    bits = m.get(f + "_bits", 0)
    if f in m and 0 < bits <= 32:
      low = (1 << bits) - 1
      m[f] = (m[f] & ~low & 0xffffffff) | (r.getrandbits(32) & low)
  return m


def perturb(m, r):
  """make a near-miss: change one fixed field's value"""
  m = dict(m)
  fields = [f for f in m if not f.endswith("_bits")]
  if not fields:
    return m
  f = r.pick(fields)
  v = m[f]
  if f in ("dl_src", "dl_dst"):
    m[f] = mac_hex(77)
  elif f in ("nw_src", "nw_dst"):
    bits = m.get(f + "_bits", 0)
    if bits < 32:
      m[f] = (v ^ (1 << min(31, bits))) & 0xffffffff
  elif f == "dl_type":
    # changing dl_type invalidates dependants: drop them
    for g in ("nw_tos", "nw_proto", "tp_src", "tp_dst", "nw_src", "nw_dst",
              "nw_src_bits", "nw_dst_bits"):
      m.pop(g, None)
    m[f] = 0x88b6
  elif f == "nw_proto":
    m.pop("tp_src", None)
    m.pop("tp_dst", None)
    m[f] = (v + 1) & 0xff
  elif f == "dl_vlan":
    m.pop("dl_vlan_pcp", None)
    m[f] = 2 if v != 2 else 3
  elif f == "dl_vlan_pcp":
    m[f] = (v + 1) & 7
  elif f == "nw_tos":
    m[f] = (v + 4) & 0xfc
  else:
    m[f] = (v + 1) & 0xffff
  return m


def gen_actions(r, nports, rich=False, in_port=None):
  if not rich:
    c = r.randrange(10)
    if c == 0:
      return []
    if c == 1:
      return [["output", W.OFPP_CONTROLLER, r.pick([0, 20, 0xffff])]]
    if c == 2:
      return [["set_dl_dst", mac_hex(50)], ["output", r.randint(1, nports), 0]]
    if c == 3:
      return [["output", W.OFPP_FLOOD, 0]]
    return [["output", r.randint(1, nports + (1 if r.chance(0.1) else 0)), 0]]
  n = r.randint(0, 6)
  acts = []
  for _ in range(n):
    k = r.wpick([(8, "output"), (2, "set_vlan_vid"), (2, "set_vlan_pcp"),
                 (2, "strip_vlan"), (2, "set_dl_src"), (2, "set_dl_dst"),
                 (2, "set_nw_src"), (2, "set_nw_dst"), (2, "set_nw_tos"),
                 (2, "set_tp_src"), (2, "set_tp_dst"), (1, "enqueue")])
    if k == "output":
      p = r.wpick([(6, r.randint(1, nports)), (1, nports + 1),
                   (2, W.OFPP_IN_PORT), (2, W.OFPP_FLOOD), (2, W.OFPP_ALL),
                   (1, W.OFPP_CONTROLLER)])
      acts.append(["output", p, r.pick([0, 30, 0xffff])])
    elif k == "set_vlan_vid":
      acts.append([k, r.pick([1, 7, 100, 0xfff])])
    elif k == "set_vlan_pcp":
      acts.append([k, r.pick([0, 1, 7])])
    elif k == "strip_vlan":
      acts.append([k])
    elif k in ("set_dl_src", "set_dl_dst"):
      acts.append([k, mac_hex(r.randint(40, 60))])
    elif k in ("set_nw_src", "set_nw_dst"):
      acts.append([k, r.pick([F.ip(172, 16, 0, 1), F.ip(1, 2, 3, 4),
                              0xffffffff, 0])])
    elif k == "set_nw_tos":
      acts.append([k, r.pick([0, 0x10, 0xb8, 0xfc])])
    elif k in ("set_tp_src", "set_tp_dst"):
      acts.append([k, r.pick([1, 80, 1000, 65535])])
    elif k == "enqueue":
      acts.append([k, r.randint(1, nports), r.pick([0, 1])])
  return acts


def sw_cfg(r, **over):
  cfg = {
    "nports": r.randint(2, 4),
    "dpid": r.pick([1, 7, 0xabcdef]),
    "miss_send_len": r.pick([0, 14, 64, 128, 1500]),
    "max_buffers": r.pick([0, 1, 2, 4, 100]),
    "max_entries": r.pick([2, 3, 5, 100, 0x7fffffff]),
    "expire_period": r.pick([1, 2, 2, 3]),
    "recv_mode": r.pick(["all", "all", "choose", "dribble"]),
    "segment": r.chance(0.3),
  }
  cfg["ports_admin_down"] = [r.randint(1, cfg["nports"])] \
      if r.chance(0.15) else []
  cfg.update(over)
  return cfg


def widen_vlan_args(steps, seed, p_plan=0.15):
  """Post-pass with its own stream (the other draws of a plan stay what they
  were): in some plans the arguments of set_vlan_vid / set_vlan_pcp also take
  values wider than their field (vid above 12 bits, pcp above 3 bits).  The
  action structs carry 16 and 8 bits; a switch keeps the field's bits (as
  the reference switch does) -- it may not fail internally, nor let the
  excess spill into the neighbouring PCP / CFI bits."""
  r = Rng(mix(seed, "widevlan"))
  if not r.chance(p_plan):
    return 0
  n = 0
  for st in steps:
    for a in st.get("acts") or ():
      if a[0] == "set_vlan_vid" and r.chance(0.5):
        a[1] = r.pick([0x1000, 0x1001, 0x1fff, 0x8064, 0xffff, 0xf007])
        n += 1
      elif a[0] == "set_vlan_pcp" and r.chance(0.5):
        a[1] = r.pick([8, 9, 0x0f, 0x10, 0x80, 0xff])
        n += 1
  return n
