"""
C06, threaded select hub: the same scheduler semantics with the real
SelectHub thread and the real Scheduler.run loop as two engine-controlled
threads (THREADS world), pre-empted at every traced line of recoco.py.

Used by checks/c06.py for a fraction of its seeds (plans with
cfg.threaded_hub).  The vocabulary is the part of C06's that does not need
simulated sockets: reschedule, float / Sleep / absolute sleeps, timed Select
without fds, block + wake (from a foreign thread), a raising step, end, and
Timers (one-shot, recurring, cancelled, self-stopping).
"""

from simkit import sim as S
from simkit.rng import Rng, mix
from worlds.threads import ThreadsWorld

CYCLE_MAX = 2.0
LATE = 0.3


def gen_plan(seed, tier):
  r = Rng(seed)
  cfg = {"threaded_hub": True, "policy": r.pick(["random", "random", "pct"]),
         "switch_p": r.pick([0.05, 0.15, 0.3]), "pct_depth": r.randint(1, 3),
         "step_cap": 80000}
  steps = []
  for tno in range(r.randint(1, 5)):
    prog = []
    for _ in range(r.randint(1, 8)):
      k = r.wpick([(4, "y0"), (3, "sleep"), (2, "float"), (1, "abs"),
                   (2, "selto"), (2, "block"), (1, "raise")])
      if k in ("sleep", "float", "selto"):
        prog.append([k, r.pick([0.0, 0.01, 0.25, 0.5, 1.0, 2.5])])
      elif k == "abs":
        prog.append([k, r.pick([-1.0, 0.0, 0.5, 3.0])])
      elif k == "raise":
        prog.append([k])
        break
      else:
        prog.append([k])
    steps.append({"task": tno, "prog": prog})
  for tm in range(r.randint(0, 3)):
    steps.append({"timer": tm, "after": r.pick([0.1, 0.5, 1.0]),
                  "recurring": r.chance(0.5),
                  "cancel_at": r.pick([None, None, 0.3, 1.2, 2.6]),
                  "stop_after": r.pick([None, None, 2])})
  cfg["eager_waker"] = Rng(mix(seed, "eager")).chance(0.5)
  return {"prop": "C06", "seed": seed, "cfg": cfg, "steps": steps}


class Violation(Exception):
  def __init__(self, vclass, detail):
    Exception.__init__(self, vclass, detail)
    self.vclass = vclass
    self.detail = detail


def run_plan(plan):
  cfg = plan["cfg"]
  sim = S.Sim(mix(plan["seed"], "run"), calm=plan.get("calm", False))
  S.install(sim)
  res = {"verdict": "ok"}
  eng = None
  try:
    eng = _drive(sim, plan)
  except Violation as v:
    res.update(verdict="violation", vclass="threaded/" + v.vclass,
               detail=v.detail)
  except S.SimAbort as a:
    if a.vclass == "harness":
      res.update(verdict="error", detail=a.detail)
    else:
      res.update(verdict="violation", vclass="threaded/" + a.vclass,
                 detail=a.detail)
  sim.probes["threaded_hub_runs"] += 1
  res["digest"] = sim.digest()
  res["sim_time"] = sim.now - S.T0
  res["steps"] = sum(len(s.get("prog", ())) for s in plan["steps"])
  res["known"] = []
  res["stats"] = dict(sim.stats)
  res["probes"] = dict(sim.probes)
  res["nontrivial"] = bool(sim.probes.get("threaded_switches", 0) >= 5)
  return res


def _drive(sim, plan):
  cfg = plan["cfg"]
  tw = ThreadsWorld(sim, cfg)
  eng = tw.boot()
  R = tw.R
  sched = tw.sched
  t0 = sim.now
  log = {}          # tno -> list of (step idx, t, due or None)
  running = [None]
  overlap = []
  done = set()
  values = []       # resumed with something else than the hub's value
  blocked = {}      # tno -> (task object currently in `yield False`, step)
  woken = {}        # (tno, step) -> when a foreign thread rescheduled it
  expect_dead = set()
  tasks = {}

  def mk(tno, prog):
    class PT(R.Task):
      def run(self_):
        for i, op in enumerate(prog):
          if running[0] is not None:
            overlap.append((tno, running[0]))
          running[0] = tno
          k = op[0]
          now = sim.now
          due = None
          if k == "y0":
            y = 0
          elif k == "sleep":
            y = R.Sleep(op[1])
            due = now + op[1]
          elif k == "float":
            y = op[1] if op[1] else 0
            due = now + op[1]
          elif k == "abs":
            y = R.Sleep(t0 + op[1], absoluteTime=True)
            due = t0 + op[1]
          elif k == "selto":
            y = R.Select([], [], [], op[1])
            due = now + op[1]
          elif k == "block":
            y = False
            blocked[tno] = (self_, i)
          elif k == "raise":
            log.setdefault(tno, []).append((i, now, None))
            running[0] = None
            raise RuntimeError("step raises")
          log.setdefault(tno, []).append((i, now, due))
          sim.ev("step", tno, i, round(now - t0, 6))
          running[0] = None
          v = yield y
          # what the hub hands back to a task whose wait timed out
          # (a wait whose time has already come may be resumed at once,
          # without going through the hub)
          if k in ("sleep", "float", "abs", "selto") and y != 0 \
              and due is not None and due > now + S.EPS \
              and v != ([], [], []):
            values.append((tno, i, k, repr(v)[:60]))
        log.setdefault(tno, []).append((len(prog), sim.now, None))
        done.add(tno)
    t = PT()
    tasks[tno] = t
    return t

  nt = 0
  for st in plan["steps"]:
    if "task" in st:
      nt += 1
      if st["prog"] and st["prog"][-1][0] == "raise":
        expect_dead.add(st["task"])
      mk(st["task"], st["prog"]).start()
  fired = {}
  timers = {}
  cancelled_at = {}
  for st in plan["steps"]:
    if "timer" in st:
      no = st["timer"]
      fired[no] = []

      def cb(no=no, st=st):
        fired[no].append(sim.now)
        sim.ev("timer", no, round(sim.now - t0, 6))
        if st.get("stop_after") and len(fired[no]) >= st["stop_after"]:
          return False
      timers[no] = (R.Timer(st["after"], cb, recurring=st["recurring"]), st)
  tw.start_scheduler()

  def waker():
    # a foreign thread wakes blocked tasks (and cancels timers) as virtual
    # time passes, then ends the run
    cancelled = set()
    for _ in range(400):
      for tno, (t, i) in list(blocked.items()):
        del blocked[tno]
        sched.schedule(t)
        # (virtual time stands still while any thread can run: the task is
        # runnable from here on, and the scheduler has been told)
        woken[(tno, i)] = sim.now
      for no, (tm, st) in timers.items():
        c = st.get("cancel_at")
        if c is not None and no not in cancelled and sim.now - t0 >= c:
          tm.cancel()
          cancelled.add(no)
          cancelled_at[no] = sim.now
      if (len(done) >= nt - len(expect_dead)
          and len(sim.task_deaths) >= len(expect_dead)
          and sim.now - t0 > 6.0):
        break
      if cfg.get("eager_waker"):
        # wakes the moment a task has said it is about to block: the
        # reschedule then races the scheduler thread on its way into idle
        eng.block(lambda: bool(blocked), 0.25)
      else:
        eng.block(None, 0.25)
    tw.stop_scheduler()
  eng.spawn(waker, "waker")
  fin = eng.run(wall_timeout=30.0)
  sim.probes["threaded_switches"] += eng.switches
  sim.stats["traced_steps"] += eng.steps
  if fin is None or fin[0] == "wall":
    raise S.SimAbort("harness", "engine did not finish: %r" % (fin,))
  if fin[0] == "abort":
    raise Violation(fin[1], fin[2])
  if fin[0] == "deadlock":
    raise Violation("deadlock", "%r" % (fin[1],))
  if fin[0] == "cap":
    raise Violation("livelock", "no quiescence within %d traced steps"
                    % fin[1])
  for t in eng.threads:
    if t.error is not None:
      raise Violation("thread-died", "thread %s: %s: %s\n%s"
                      % (t.name, t.error[0], t.error[1], t.error[2][-400:]))
  if overlap:
    raise Violation("overlap", "task steps overlapped: %r" % (overlap[:3],))
  if values:
    raise Violation("resume-value", "a timed wait was resumed with a value "
                    "other than the hub's ([], [], []): (task, step, op, "
                    "value) = %r" % (values[:3],))
  if len(sim.task_deaths) != len(expect_dead):
    raise Violation("deaths", "%d task(s) were de-scheduled by an exception, "
                    "%d were programmed to raise: %r"
                    % (len(sim.task_deaths), len(expect_dead),
                       sim.task_deaths[:3]))
  for st in plan["steps"]:
    if "task" not in st:
      continue
    tno, prog = st["task"], st["prog"]
    got = log.get(tno, [])
    idx = [g[0] for g in got]
    want = list(range(len(prog))) + ([] if tno in expect_dead
                                     else [len(prog)])
    if idx != want:
      raise Violation("program-order", "task %d executed steps %r, program "
                      "has %r" % (tno, idx, want))
    for a, b in zip(got, got[1:]):
      wk = woken.get((tno, a[0]))
      if wk is not None:
        sim.probes["threaded_foreign_wake"] += 1
        if b[1] > wk + LATE + S.EPS:
          # run because the scheduler's idle wait ran out, not because it
          # was told: the wake-up itself was lost
          raise Violation("lost-wakeup", "task %d, blocked at step %d, was "
                          "made runnable by another thread at %.6f and ran "
                          "only at %.6f" % (tno, a[0], wk - t0, b[1] - t0))
      due = a[2]
      if due is not None:
        if b[1] < due - S.EPS:
          raise Violation("early-wake", "task %d step %d resumed at %.6f, "
                          "requested %.6f" % (tno, b[0], b[1] - t0, due - t0))
        if b[1] > max(due, a[1]) + LATE + S.EPS:
          raise Violation("late-wake", "task %d step %d resumed %.3f s after "
                          "its requested time" % (tno, b[0], b[1] - due))
  for no, (tm, st) in timers.items():
    f = fired[no]
    due = t0 + st["after"]
    c = cancelled_at.get(no)
    for i, t in enumerate(f):
      if t < due + i * st["after"] - S.EPS:
        raise Violation("timer-early", "timer %d firing #%d at %.6f, due no "
                        "earlier than %.6f" % (no, i, t - t0,
                                               due + i * st["after"] - t0))
      if c is not None and t > c + S.EPS:
        raise Violation("timer-after-cancel", "timer %d fired at %.6f after "
                        "being cancelled at %.6f" % (no, t - t0, c - t0))
    if not st["recurring"] and len(f) > 1:
      raise Violation("timer-twice", "one-shot timer %d fired %d times"
                      % (no, len(f)))
    if st.get("stop_after") and len(f) > st["stop_after"]:
      raise Violation("timer-after-self-stop", "timer %d fired %d times, "
                      "callback returned False at #%d"
                      % (no, len(f), st["stop_after"]))
    if not f and (c is None or c - t0 > st["after"] + CYCLE_MAX + 0.5):
      raise Violation("timer-never", "timer %d (after %.2f) never fired in "
                      "%.1f virtual seconds" % (no, st["after"],
                                                sim.now - t0))
  return eng
