"""
C12 -- the datapath applies actions and port rules as the specification
prescribes; port counters equal what was actually received/transmitted.

World: SW, refinement via worlds.swref; the reference action applier
(models.rawframe.apply_action) works on raw bytes with its own offset
arithmetic and RFC 1071 sum.
"""

from simkit.rng import Rng, mix
from worlds import swref
from checks import swgen as G
from models import of10wire as W

PROP = "C12"
LEVEL = "exploration"
BUDGET = {"quick": 4000, "thorough": 300000}
RULE = ("Each run: frames (untagged/VLAN; IPv4 TCP/UDP/ICMP incl. fragments "
        "and options; ARP; other) are sent through action lists of length "
        "0-6 over the 12 standard actions and outputs to physical ports, "
        "IN_PORT, FLOOD, ALL, CONTROLLER and (packet-out only) TABLE -- both "
        "via installed flows and via packet-out -- interleaved with port-mods "
        "over all handled config bits; every emitted (port, bytes) multiset "
        "is compared with the reference applier and port-stats replies with "
        "the model's tally of frames actually received and transmitted.  "
        "Non-trivial = at least one header rewrite followed by an output and "
        "one port-mod took effect; distinct = distinct event-log digest.")
ASSUMPTIONS = [
  "per-frame rewrite is input-quantified; sampled inside histories",
  "only unambiguous cases: ECN bits zero, nw_tos multiples of 4, valid "
  "checksums on input, L4 ports outside pox's deep parsers (DNS/DHCP/RIP/"
  "VXLAN), no trailing padding after the IP datagram",
  "emission order among the ports of one FLOOD/ALL is not compared "
  "(multiset comparison per step)",
  "NORMAL/LOCAL/NONE output ports are optional in OF1.0 and not generated",
]
REAL = ["pox.datapaths.switch.SoftwareSwitch (_process_actions_for_packet, "
        "_action_*, _output_packet, rx_packet, _rx_port_mod)",
        "pox.lib.packet ethernet/vlan/ipv4/tcp/udp/icmp/arp (parse + pack)",
        "flow table, OFConnection, IO worker, recoco scheduler"]
STUBBED = ["socket/select/time/pinger (simkit)", "controller peer (scripted)",
           "hosts (frames injected)"]
EXPECT_PROBES = ["lookup_hit", "packet_out_data", "port_mod_ok", "rx_dropped",
                 "port_stats_checked", "table_reinject"]


def gen_plan(seed, tier):
  r = Rng(seed)
  cfg = G.sw_cfg(r, max_entries=0x7fffffff, max_buffers=r.pick([0, 2, 100]),
                 miss_send_len=r.pick([0, 64, 1500]))
  nports = cfg["nports"]
  frames = []
  for _ in range(r.randint(2, 6)):
    fs = G.gen_frame(r, rich=True)
    if fs["kind"] in ("snap", "llc"):
      fs = G.gen_frame(r, rich=False)
    frames.append((fs, r.randint(1, nports)))
  r7 = Rng(mix(seed, "nosum"))
  for fs, _ in frames:
    if fs["kind"] == "udp" and not fs.get("frag") and not fs.get("l4cut") \
        and r7.chance(0.12):
      # a datagram sent without a checksum (field 0, RFC 768): forwarding it
      # does not give it one, and neither does rewriting its addresses
      fs["nosum"] = True
  r6 = Rng(mix(seed, "pad"))
  for fs, _ in frames:
    if fs.get("nosum"):
      continue
    if fs["kind"] == "udp" and not fs.get("frag") and fs["paylen"] >= 2 \
        and not fs.get("l4cut") and r6.chance(0.15):
      fs["zsum"] = True       # checksum computes to 0 -> goes out as 0xffff
    # Ethernet padding after the IP datagram (a short frame as a NIC
    # delivers it): what the switch forwards is the datagram's frame, the
    # trailer is not payload
    if fs["kind"] in ("udp", "tcp", "icmp") and not fs.get("frag") \
        and not fs.get("vlan2") and r6.chance(0.2):
      fs["pad"] = r6.pick([2, 6, 18])
  steps = []
  n = r.randint(6, 40 if tier == "thorough" else 24)
  frag_run = r.chance(0.2)
  if frag_run:
    # a run about fragment handling: fragments and whole datagrams that
    # merely carry flag bits (DF) side by side, FRAG_DROP switched on early
    base = None
    for _ in range(20):
      base = G.gen_frame(r, rich=True)
      if base["kind"] in ("udp", "tcp", "icmp", "ipother"):
        break
    if base["kind"] in ("udp", "tcp", "icmp", "ipother"):
      whole = {k: v for k, v in base.items()
               if k not in ("frag", "fragcut", "df")}
      frames.append((dict(whole, df=1), r.randint(1, nports)))
      frames.append((dict(whole, frag=r.pick([[1, 0], [0, 5], [1, 5]])),
                     r.randint(1, nports)))
      frames.append((whole, r.randint(1, nports)))
  for i in range(n):
    if frag_run and i == min(n - 1, 2):
      steps.append({"op": "set_config", "flags": 1,
                    "msl": r.pick([0, 64, 1500])})
    k = r.wpick([(5, "flow_mod"), (8, "frame"), (4, "packet_out"),
                 (2, "po_buf"), (3, "port_mod"), (1, "port_stats"),
                 (2, "set_config")])
    if k == "flow_mod":
      fs, port = r.pick(frames)
      key = G.frame_key(fs, port)
      steps.append({"op": "flow_mod",
                    "m": G.match_from_key(key, r, keep=r.pick([0.1, 0.4])),
                    "cmd": r.pick([W.FC_ADD, W.FC_ADD, W.FC_MODIFY]),
                    "prio": r.pick([1, 7, 100]),
                    "acts": [a for a in G.gen_actions(r, nports, rich=True)
                             if not (a[0] == "output" and a[1] == W.OFPP_TABLE)],
                    "cookie": i, "idle": 0, "hard": 0, "flags": 0})
      rfb = Rng(mix(seed, "fmbuf", i))
      if rfb.chance(0.2):
        # the flow_mod also names a buffered packet: whatever the command
        # does to the table (add, modify an entry that is there, fall back
        # to add), the packet leaves through this action list
        steps[-1]["buffer"] = rfb.pick(["last", "last", "first"])
        prev = [st for st in steps[:-1] if st["op"] == "flow_mod"]
        if prev and rfb.chance(0.6):
          old = rfb.pick(prev)
          steps[-1].update(m=old["m"], prio=old["prio"],
                           cmd=rfb.pick([W.FC_MODIFY, W.FC_MODIFY_STRICT]))
    elif k == "frame":
      fs, port = r.pick(frames)
      if r.chance(0.3):
        port = r.randint(1, nports)
      if r.chance(0.08):
        # the spanning-tree group address and its neighbours in the
        # reserved block (only ...:00 is exempt from NO_RECV / subject to
        # NO_RECV_STP)
        fs = dict(fs, dst=r.pick(["0180c2000000", "0180c2000000",
                                  "0180c2000001", "0180c200000e",
                                  "0180c200000f", "0180c2000010"]))
      steps.append({"op": "frame", "port": port, "f": fs,
                    "with_data": r.chance(0.6)})
    elif k == "packet_out":
      fs, port = r.pick(frames)
      acts = G.gen_actions(r, nports, rich=True)
      in_port = r.wpick([(3, W.OFPP_NONE), (3, r.randint(1, nports))])
      if in_port != W.OFPP_NONE and r.chance(0.3):
        # (anywhere in the list: what follows it must not see what the
        # table did to its copy, nor the other way round)
        acts.insert(r.randint(0, len(acts)), ["output", W.OFPP_TABLE, 0])
      steps.append({"op": "packet_out", "in_port": in_port, "acts": acts,
                    "f": fs})
    elif k == "po_buf":
      # release a packet buffered by a table miss or an output:CONTROLLER
      # action through an arbitrary action list (FLOOD/ALL/IN_PORT must
      # still honour the packet's original ingress port)
      steps.append({"op": "packet_out", "in_port": W.OFPP_NONE,
                    "acts": [a for a in G.gen_actions(r, nports, rich=True)
                             if not (a[0] == "output"
                                     and a[1] == W.OFPP_TABLE)],
                    "buffer": r.pick(["last", "last", "first"])})
    elif k == "port_mod":
      steps.append({"op": "port_mod", "port": r.randint(1, nports),
                    "hw_ok": r.chance(0.9),
                    "config": r.pick([0, 0, W.PC_PORT_DOWN, W.PC_NO_FLOOD,
                                      W.PC_NO_FWD, W.PC_NO_RECV,
                                      W.PC_NO_RECV_STP, W.PC_NO_PACKET_IN,
                                      0x7f]),
                    "mask": r.pick([W.PC_PORT_DOWN, W.PC_NO_FLOOD,
                                    W.PC_NO_FWD, W.PC_NO_RECV,
                                    W.PC_NO_RECV_STP, W.PC_NO_PACKET_IN,
                                    0x7f, 0x7f])})
    elif k == "port_stats":
      steps.append({"op": "port_stats"})
    else:
      steps.append({"op": "set_config", "flags": r.pick([0, 1, 1]),
                    "msl": r.pick([0, 64, 1500])})
  G.widen_vlan_args(steps, seed)
  return {"prop": PROP, "seed": seed, "cfg": cfg, "steps": steps}


def run_plan(plan):
  res = swref.run(plan, PROP)
  p = res["probes"]
  res["nontrivial"] = bool((p.get("lookup_hit") or p.get("packet_out_data"))
                           and p.get("port_mod_ok"))
  return res
