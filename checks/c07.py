"""
C07 -- hand-off between threads and the scheduler is race-free; cooperative
locks exclude.

World: THREADS.  Real Scheduler.run on a controlled thread, both hub modes,
2-3 controlled foreign threads, recoco.py traced at line granularity; the
engine decides at every traced line and every blocking primitive who runs.
"""

import gc

from simkit import sim as S
from simkit.rng import Rng, mix
from simkit.check import load_known
from worlds.threads import ThreadsWorld

PROP = "C07"
LEVEL = "exploration"
BUDGET = {"quick": 5000, "thorough": 500000}
RUN_TIMEOUT = 40
RULE = ("Each run picks a workload -- W1: 2-3 foreign threads (and "
        "cooperative tasks) each hand 1-3 functions over with "
        "Scheduler.callLater / core.call_later / core.raiseLater; W2: a task "
        "blocked with `yield False` is woken with scheduler.schedule() from "
        "several threads at once, repeatedly; W3: foreign threads enter "
        "scheduler.synchronized() (also nested) while cooperative tasks run "
        "instrumented steps; W4: 2-4 tasks acquire (blocking / non-blocking) "
        "and release 1-2 cooperative Locks; W5: 1-3 tasks wait in Select for "
        "data that foreign threads supply (the wake-up goes through the "
        "select hub and carries the ready lists) -- a hub mode (inline or threaded) "
        "and a schedule policy (random with switch probability 0.05-0.6, or "
        "PCT with depth 1-4); the engine pre-empts at every traced line of "
        "recoco.py and at every Lock/Event/Queue/select.  Oracles: exactly "
        "once, on the scheduler thread, per-thread submission order, zero "
        "virtual latency (virtual time only moves when every thread is "
        "blocked, so a callback that runs after time moved was rescued by "
        "the 2 s poll); task queued at most once at every yield point; no "
        "cooperative step inside a synchronized section; lock exclusion and "
        "hand-over.  Non-trivial = at least 5 context switches happened "
        "inside recoco.py; distinct = distinct (thread, line) switch-sequence "
        "hash.")
ASSUMPTIONS = [
  "pre-emption is at source-line granularity in recoco.py plus every "
  "intercepted synchronisation primitive; races that live inside a single "
  "source line or inside C code (deque.__contains__) are not explored",
  "threads are real but only one runs at a time (baton passing)",
]
REAL = ["pox.lib.recoco Scheduler (run, cycle, callLater, schedule, "
        "fast_schedule, synchronized), CallLaterTask, ScheduleTask, "
        "SyncTask/Synchronizer, SelectHub (idle, break_idle, _threadProc, "
        "_select), Lock", "pox.core call_later / raiseLater",
        "pox.lib.revent"]
STUBBED = ["threading.Thread/Lock/Event, queue.Queue (simkit.cthreads, "
           "engine-controlled)", "select/time (simkit)", "pinger: half of the "
           "runs the real pox.lib.util PipePinger over a simulated os.pipe "
           "(pre-empted inside ping/pong), the other half a level-triggered "
           "stand-in"]
EXPECT_PROBES = ["w6", "w1", "w2", "w3", "w4", "w5", "hub_inline", "hub_threaded",
                 "policy_random", "policy_pct", "switch_in_recoco",
                 "real_pinger", "loop_on_application_thread",
                 "w2_low_priority_tasks", "scheduler_is_not_the_default"]


def gen_plan(seed, tier):
  r = Rng(seed)
  w = r.wpick([(4, "w1"), (3, "w2"), (3, "w3"), (2, "w4"), (2, "w5")])
  if Rng(mix(seed, "burst")).chance(0.03):
    # W6: a burst of hand-overs while the scheduler is held, sized around
    # the pinger's read size (its own real pinger, no line pre-emption:
    # the point is how many wake-ups are pending when they are drained)
    rb = Rng(mix(seed, "burst2"))
    return {"prop": PROP, "seed": seed,
            "cfg": {"workload": "w6", "threaded_hub": rb.chance(0.5),
                    "policy": "random", "switch_p": 0.2, "pct_depth": 2,
                    "idle_tasks": 0, "real_pinger": True, "app_loop": False,
                    "no_trace": True, "step_cap": 400000},
            "steps": [{"thread": 0,
                       "n": rb.pick([1023, 1024, 1025, 2048, 3, 1024, 4, 6]),
                       # one of the functions raises something that is not
                       # an Exception (sys.exit() in a callback): the ones
                       # behind it in the batch still have to run
                       "boom": rb.pick([None, None, 0, 1, 2])}]}
  cfg = {"workload": w, "threaded_hub": r.chance(0.5),
         "policy": r.pick(["random", "random", "pct"]),
         "switch_p": r.pick([0.05, 0.15, 0.3, 0.6]),
         "pct_depth": r.randint(1, 4),
         "idle_tasks": r.randint(0, 2),
         # keep pox.lib.util's own PipePinger (seam at os.pipe/read/write,
         # pre-emption inside its methods) instead of the level-triggered
         # stand-in
         "real_pinger": r.chance(0.5),
         # Scheduler(startInThread=False) whose run() the application calls
         # on a thread of its own (scheduler._thread stays None)
         "app_loop": r.chance(0.25)}
  steps = []
  if w == "w1":
    for i in range(r.randint(2, 3)):
      forms = ["callLater", "call_later", "raiseLater"]
      if r.chance(0.35):
        # a brand-new task handed to the scheduler from this thread (every
        # form the API offers; "always safe" for a new task)
        forms = forms + ["start", "start_fast", "fast_schedule",
                         "fast_schedule_first", "schedule_first"]
      steps.append({"thread": i, "calls": [r.pick(forms)
                                           for _ in range(r.randint(1, 3))]})
    if r.chance(0.4):
      steps.append({"task": True, "calls": ["callLater"] * r.randint(1, 2)})
      rtb = Rng(mix(seed, "taskburst"))
      if rtb.chance(0.5):
        steps[-1].update(burst=True,
                         calls=[rtb.pick(["callLater", "call_later",
                                          "raiseLater"])
                                for _ in range(rtb.randint(2, 4))])
  elif w == "w2":
    for i in range(r.randint(2, 3)):
      steps.append({"thread": i, "wakes": r.randint(1, 3)})
    cfg["direct"] = r.chance(0.3)     # a cooperative task also wakes it
    if Rng(mix(seed, "w2low")).chance(0.3):
      # two parked tasks, both below normal priority
      cfg["w2_low"] = [r.pick([0.25, 0.5, 0.75]) for _ in range(2)]
  elif w == "w3":
    cfg["w3_nondefault"] = Rng(mix(seed, "w3nd")).chance(0.3)
    rl = Rng(mix(seed, "w3late"))
    if rl.chance(0.35):
      cfg["w3_late"] = rl.randint(1, 2)
      cfg["w3_late_at"] = rl.randint(1, 4)
    for i in range(r.randint(1, 3)):
      steps.append({"thread": i, "sections": r.randint(1, 2),
                    "nested": r.chance(0.4), "inner": r.randint(0, 3),
                    "inner_raises": r.chance(0.5)})
    cfg["coop_tasks"] = r.randint(1, 3)
    cfg["coop_steps"] = r.randint(2, 6)
  elif w == "w5":
    # tasks waiting in Select for data that foreign threads supply: the
    # wake-up goes through the select hub (its own thread, when threaded)
    # and carries a value
    for i in range(r.randint(1, 3)):
      steps.append({"thread": i, "sends": r.randint(1, 4),
                    "timeout": r.pick([None, None, 5.0])})
    cfg["threaded_hub"] = r.chance(0.75)
  else:
    nl = r.randint(1, 2)
    for i in range(r.randint(2, 4)):
      prog = []
      for _ in range(r.randint(1, 5)):
        prog.append([r.pick(["acq", "acq", "try", "rel", "yield"]),
                     r.randrange(nl)])
      steps.append({"task": i, "prog": prog})
    cfg["nlocks"] = nl
    cfg["w4_gc"] = Rng(mix(seed, "w4gc")).chance(0.5)
  return {"prop": PROP, "seed": seed, "cfg": cfg, "steps": steps}


class Violation(Exception):
  def __init__(self, vclass, detail):
    Exception.__init__(self, vclass, detail)
    self.vclass = vclass
    self.detail = detail


def run_plan(plan):
  cfg = plan["cfg"]
  sim = S.Sim(mix(plan["seed"], "run"), calm=plan.get("calm", False))
  rp = bool(cfg.get("real_pinger"))
  S.install(sim, real_pinger=rp)
  res = {"verdict": "ok"}
  world = ThreadsWorld(sim, cfg)
  try:
    if cfg.get("no_trace"):
      eng = world.boot(trace_files=())
      sim.probes["real_pinger"] += 1
    elif rp:
      eng = world.boot(trace_files=("pox/lib/recoco/recoco.py",
                                    "pox/lib/util.py"))
      sim.probes["real_pinger"] += 1
    else:
      eng = world.boot()
    sim.probes[cfg["workload"]] += 1
    sim.probes["hub_threaded" if cfg["threaded_hub"] else "hub_inline"] += 1
    sim.probes["policy_" + cfg["policy"]] += 1
    globals()["_" + cfg["workload"]](sim, world, eng, plan)
  except Violation as v:
    res.update(verdict="violation", vclass=v.vclass, detail=v.detail)
  except S.SimAbort as a:
    if a.vclass == "harness":
      res.update(verdict="error", detail=a.detail)
    else:
      res.update(verdict="violation", vclass=a.vclass, detail=a.detail)
  eng = getattr(world, "eng", None)
  if eng is not None:
    sim.ev("ilv", eng.ilv_hash, eng.switches, eng.steps)
    sim.probes["switch_in_recoco"] += eng.switches
    sim.stats["traced_steps"] += eng.steps
    sim.stats["time_jumps"] += eng.time_jumps
  res["digest"] = sim.digest()
  res["sim_time"] = sim.now - S.T0
  res["steps"] = eng.steps if eng is not None else 0
  res["known"] = []
  res["stats"] = dict(sim.stats)
  res["probes"] = dict(sim.probes)
  res["nontrivial"] = bool(eng is not None and (eng.switches >= 5
                                                or cfg["workload"] == "w6"))
  return res


def _finish_check(sim, world, eng, fin, what):
  """common end-of-run checks"""
  if fin is None or fin[0] == "wall":
    raise S.SimAbort("harness", "engine did not finish: %r" % (fin,))
  if fin[0] == "abort":
    raise S.SimAbort(fin[1], fin[2])
  if fin[0] == "deadlock":
    raise Violation(what + "/deadlock", "all threads blocked for good: %r"
                    % (fin[1],))
  if fin[0] == "cap":
    raise Violation(what + "/livelock", "no quiescence within %d traced "
                    "steps" % fin[1])
  for t in eng.threads:
    if t.error is not None:
      raise Violation(what + "/thread-exception", "thread %s died: %s: %s\n%s"
                      % (t.name, t.error[0], t.error[1], t.error[2][-600:]))
  if sim.task_deaths:
    raise Violation(what + "/task-died", "%r" % (sim.task_deaths[:2],))
  if sim.stats.get("pong_on_empty"):
    raise Violation(what + "/pong-on-empty", "a pinger was drained while "
                    "empty: the real pipe read would block the scheduler")


def _idle_tasks(world, n, sched=None):
  R = world.R

  class Idle(R.Task):
    def run(self_):
      for _ in range(3):
        yield 0
        yield R.Sleep(0.5)
  for _ in range(n):
    Idle().start(sched)


def _controller(sim, world, eng, done_pred, timeout=30.0):
  """a controlled thread that ends the scheduler once done_pred() holds"""
  result = {}

  def ctl():
    ok = eng.block(done_pred, timeout)
    result["ok"] = ok or done_pred()
    result["t_done"] = sim.now
    world.stop_scheduler()
  eng.spawn(ctl, "ctl")
  return result


# ---------------------------------------------------------------------------
# W1: callLater hand-off
# ---------------------------------------------------------------------------

def _w1(sim, world, eng, plan):
  from pox.lib.revent import Event, EventMixin
  cfg = plan["cfg"]
  R = world.R
  core = world.core
  sched = world.sched
  log = []          # (who, j, on_sched_thread, t_exec, t_submit, seq)
  submitted = {}    # (who, j) -> (t_submit, seq)
  unordered = set() # new tasks: no order promised relative to anything
  total = [0]

  class Ev(Event):
    def __init__(self, who, j):
      Event.__init__(self)
      self.who, self.j = who, j

  class Src(EventMixin):
    _eventMixin_events = set([Ev])
  src = Src()

  def cb(who, j):
    log.append((who, j, world.on_sched_thread(), sim.now,
                submitted.get((who, j), (None, None))[0], world.next_seq()))
    sim.ev("cb", who, j)

  src.addListener(Ev, lambda e: cb(e.who, e.j))

  def submit(who, j, how):
    submitted[(who, j)] = (sim.now, world.next_seq())
    if how == "callLater":
      sched.callLater(cb, who, j)
    elif how == "call_later":
      core.call_later(cb, who, j)
    elif how == "raiseLater":
      core.raiseLater(src, Ev, who, j)
    else:
      unordered.add((who, j))
      sim.probes["new_task_from_thread"] += 1

      class One(R.Task):
        def run(self_):
          cb(who, j)
          return
          yield 0
      t = One()
      if how == "start":
        t.start()
      elif how == "start_fast":
        t.start(fast=True)
      elif how == "fast_schedule":
        sched.fast_schedule(t)
      elif how == "fast_schedule_first":
        sched.fast_schedule(t, first=True)
      else:
        sched.schedule(t, True)

  world.start_scheduler()
  _idle_tasks(world, cfg.get("idle_tasks", 0))
  for st in plan["steps"]:
    calls = st["calls"]
    total[0] += len(calls)
    if "thread" in st:
      who = "f%d" % st["thread"]

      def body(who=who, calls=calls):
        for j, how in enumerate(calls):
          submit(who, j, how)
      eng.spawn(body, who)
    else:
      who = "task"

      burst = st.get("burst")

      class Sub(R.Task):
        def run(self_, calls=calls, who=who, burst=burst):
          for j, how in enumerate(calls):
            submit(who, j, how)
            if not burst:
              yield 0
          # (burst: everything handed over within one step, on the
          # scheduler's own thread; it runs later all the same, in order)
          yield 0
      Sub().start()
  res = _controller(sim, world, eng, lambda: len(log) >= total[0])
  fin = eng.run()
  _finish_check(sim, world, eng, fin, "w1")
  seen = {}
  for who, j, on_sched, t_exec, t_sub, seq in log:
    seen[(who, j)] = seen.get((who, j), 0) + 1
    if not on_sched:
      raise Violation("w1/wrong-thread", "callback (%s,%d) ran on a thread "
                      "other than the scheduler's" % (who, j))
  for k in submitted:
    n = seen.get(k, 0)
    if n == 0:
      raise Violation("w1/lost", "function %r handed over with call-later "
                      "never ran (waited %.1f virtual seconds)" % (k, 30.0))
    if n > 1:
      raise Violation("w1/twice", "function %r ran %d times" % (k, n))
  per = {}
  for who, j, on_sched, t_exec, t_sub, seq in log:
    if (who, j) not in unordered:
      per.setdefault(who, []).append(j)
  for who, js in per.items():
    if js != sorted(js):
      raise Violation("w1/order", "thread %s submitted 0..%d in order but "
                      "they ran as %r" % (who, len(js) - 1, js))
  for who, j, on_sched, t_exec, t_sub, seq in log:
    if t_exec - t_sub > S.EPS:
      raise Violation("w1/lost-wakeup", "callback (%s,%d) ran %.3f virtual "
                      "seconds after it was handed over: every thread was "
                      "blocked in between, so the wake-up was not noticed "
                      "until a polling timeout expired"
                      % (who, j, t_exec - t_sub))


# ---------------------------------------------------------------------------
# W5: a wake-up that carries a value (task in Select, data from a thread)
# ---------------------------------------------------------------------------

def _w5(sim, world, eng, plan):
  cfg = plan["cfg"]
  R = world.R
  resumes = []      # (i, value-kind, t, bytes read)
  sent = {}         # i -> [(t, n)]
  got = {}          # i -> bytes read
  bad = []
  state = {"stop": False}
  socks = {}
  nthreads = 0
  done = [0]
  for st in plan["steps"]:
    if "thread" not in st:
      continue
    i = st["thread"]
    a, b = sim.socketpair("w5a%d" % i, "w5b%d" % i)
    socks[i] = (a, b)
    sent[i] = []
    got[i] = 0

    class Waiter(R.Task):
      def run(self_, i=i, a=a, to=st.get("timeout")):
        while not state["stop"]:
          v = yield R.Select([a], [], [], to)
          if v == ([a], [], []):
            d = a.recv(4096)
            got[i] += len(d)
            resumes.append((i, "io", sim.now, len(d)))
          elif v == ([], [], []):
            resumes.append((i, "timeout", sim.now, 0))
          else:
            bad.append((i, repr(v)[:80]))
            return
          sim.ev("w5", i, len(resumes))
    Waiter().start()
  world.start_scheduler()
  _idle_tasks(world, cfg.get("idle_tasks", 0))
  total = 0
  for st in plan["steps"]:
    if "thread" not in st:
      continue
    nthreads += 1
    total += st["sends"]

    def body(i=st["thread"], n=st["sends"]):
      for j in range(n):
        sent[i].append((sim.now, 1 + j))
        socks[i][1].send(b"x" * (1 + j))
      done[0] += 1
    eng.spawn(body, "f%d" % st["thread"])

  def quiet():
    if done[0] < nthreads or bad:
      return bool(bad)
    return all(got[i] == sum(n for _, n in sent[i]) for i in sent)

  _controller(sim, world, eng, quiet, timeout=20.0)
  fin = eng.run()
  state["stop"] = True
  _finish_check(sim, world, eng, fin, "w5")
  if bad:
    raise Violation("w5/resume-value", "a task waiting in Select was resumed "
                    "with %s (task %d): neither the ready lists nor the "
                    "timeout value" % (bad[0][1], bad[0][0]))
  for i in sent:
    want = sum(n for _, n in sent[i])
    if got[i] != want:
      raise Violation("w5/lost-wakeup", "task %d read %d of the %d bytes "
                      "made available to it: a readiness wake-up was lost"
                      % (i, got[i], want))
  for i, kind, t, n in resumes:
    if kind == "io":
      ts = [ts_ for ts_, _ in sent[i] if ts_ <= t + S.EPS]
      if ts and t - max(ts) > S.EPS and t - min(ts) > S.EPS:
        raise Violation("w5/late-wakeup", "task %d saw its data %.3f virtual "
                        "seconds after it was sent: the wake-up waited for a "
                        "polling timeout" % (i, t - max(ts)))


# ---------------------------------------------------------------------------
# W6: a burst of call-later hand-overs while the scheduler is held
# ---------------------------------------------------------------------------

def _w6(sim, world, eng, plan):
  sched = world.sched
  n = plan["steps"][0]["n"]
  ran = []
  done = [False]
  t_release = [None]

  boom = plan["steps"][0].get("boom")

  class Exit(BaseException):
    pass

  def cb(j):
    ran.append((j, world.on_sched_thread(), sim.now))
    if boom is not None and j == boom:
      sim.probes["w6_callback_raises_baseexception"] += 1
      raise Exit("a handed-over function ends with sys.exit()")
  world.start_scheduler()

  def body():
    with sched.synchronized():
      for j in range(n):
        sched.callLater(cb, j)
    t_release[0] = sim.now
    done[0] = True
  eng.spawn(body, "f0")
  _controller(sim, world, eng, lambda: done[0] and len(ran) >= n,
              timeout=20.0)
  fin = eng.run()
  sim.probes["w6_burst_%d" % n] += 1
  _finish_check(sim, world, eng, fin, "w6")
  if [j for j, _, _ in ran] != list(range(n)):
    raise Violation("w6/handed-over-functions", "%d functions handed over in "
                    "one burst; ran: %d, in order: %s"
                    % (n, len(ran),
                       [j for j, _, _ in ran] == sorted(j for j, _, _ in ran)))
  if not all(on for _, on, _ in ran):
    raise Violation("w6/wrong-thread", "a handed-over function ran off the "
                    "scheduler thread")
  late = [t - t_release[0] for _, _, t in ran if t - t_release[0] > S.EPS]
  if late:
    raise Violation("w6/late", "%d of the %d functions ran %.3f virtual "
                    "seconds after the scheduler was let go (a polling "
                    "timeout, not the wake-up)" % (len(late), n, max(late)))


# ---------------------------------------------------------------------------
# W2: waking a blocked task from several threads
# ---------------------------------------------------------------------------

def _w2(sim, world, eng, plan):
  cfg = plan["cfg"]
  R = world.R
  sched = world.sched
  nt = 2 if cfg.get("w2_low") else 1
  resumes = [[] for _ in range(nt)]      # per target: (seq, t)
  wakes = [[] for _ in range(nt)]        # per target: (seq, t)
  state = {"stop": False}

  class Sleeper(R.Task):
    def __init__(self_, k):
      self_.k = k
      R.Task.__init__(self_)

    def run(self_):
      while not state["stop"]:
        parked[self_.k] = True
        yield False
        resumes[self_.k].append((world.next_seq(), sim.now))
        sim.ev("resume", self_.k)
  parked = [False] * nt
  targets = [Sleeper(k) for k in range(nt)]
  if cfg.get("w2_low"):
    # tasks below normal priority: the scheduler draws before running one
    # (seeded), and passes over it when the draw is higher
    sim.probes["w2_low_priority_tasks"] += 1
    sched._random = lambda: sim.ch.below("prio", 8) / 8.0
    for k, t in enumerate(targets):
      t.start(priority=cfg["w2_low"][k])
  else:
    targets[0].start()

  def inv(t, frame):
    for k, target in enumerate(targets):
      n = 0
      for x in sched._ready:
        if x is target:
          n += 1
      if n > 1:
        eng.fail("w2/queued-twice", "the woken task %d is in the ready queue "
                 "%d times" % (k, n))
  eng.on_step = inv
  world.start_scheduler()
  _idle_tasks(world, 0 if cfg.get("w2_low") else cfg.get("idle_tasks", 0))
  nthreads = 0
  total = 0
  done = [0]
  for st in plan["steps"]:
    if "thread" not in st:
      continue
    nthreads += 1
    total += st["wakes"]

    def body(n=st["wakes"], i=st["thread"]):
      if nt > 1:
        # (a wake-up that arrives before the task has run at all merges with
        # its start: wait until every task has parked once)
        eng.block(lambda: all(parked), None)
      for j in range(n):
        k = (i + j) % nt
        wakes[k].append((world.next_seq(), sim.now))
        sched.schedule(targets[k])
      done[0] += 1
    eng.spawn(body, "f%d" % st["thread"])
  if cfg.get("direct"):
    class Waker(R.Task):
      def run(self_):
        yield 0
        while nt > 1 and not all(parked):
          yield 0
        wakes[0].append((world.next_seq(), sim.now))
        sched.schedule(targets[0])
        yield 0
    Waker().start()
    total += 1

  def quiet():
    # all wake calls made, every task has been resumed after the last of
    # its wake calls and nothing is queued
    if done[0] < nthreads or sum(len(w) for w in wakes) < total:
      return False
    for k in range(nt):
      if wakes[k] and not (resumes[k] and resumes[k][-1][0] > wakes[k][-1][0]):
        return False
      if targets[k] in sched._ready:
        return False
    return True

  res = _controller(sim, world, eng, quiet, timeout=20.0)
  fin = eng.run()
  if fin and fin[0] == "abort":
    raise Violation(fin[1], fin[2])
  _finish_check(sim, world, eng, fin, "w2")
  for k in range(nt):
    # the initial run up to the first `yield False` is not a resume
    if len(resumes[k]) > len(wakes[k]):
      raise Violation("w2/spurious-resume", "task %d: %d resumes for %d wake "
                      "calls" % (k, len(resumes[k]), len(wakes[k])))
    if wakes[k]:
      last = wakes[k][-1]
      after = [r for r in resumes[k] if r[0] > last[0]]
      if not after:
        raise Violation("w2/lost-wake", "task %d was woken %d times but "
                        "never resumed after the last wake call"
                        % (k, len(wakes[k])))
      if after[0][1] - last[1] > S.EPS:
        raise Violation("w2/lost-wakeup", "task %d: the resume after the "
                        "last wake call came %.3f virtual seconds later "
                        "(polling timeout)" % (k, after[0][1] - last[1]))


# ---------------------------------------------------------------------------
# W3: synchronized sections
# ---------------------------------------------------------------------------

def _w3(sim, world, eng, plan):
  cfg = plan["cfg"]
  R = world.R
  sched = world.sched
  events = []     # (seq, kind, who)
  done = [0]
  nthreads = 0
  late = cfg.get("w3_late")

  class Coop(R.Task):
    def __init__(self_, name, n):
      self_.nm, self_.n = name, n
      R.Task.__init__(self_)

    def run(self_):
      for i in range(self_.n):
        events.append((world.next_seq(), "step", self_.nm))
        sim.ev("step", self_.nm, i)
        if late:
          # a step that takes a while: other threads get to act while the
          # scheduler thread is in the middle of it
          for _ in range(2):
            eng.preempt()
            events.append((world.next_seq(), "step", self_.nm))
        yield 0
  tasks = [Coop("c%d" % i, cfg.get("coop_steps", 3))
           for i in range(cfg.get("coop_tasks", 1))]
  if cfg.get("w3_nondefault"):
    # the process has another scheduler, and that one is recoco's default:
    # everything here names the scheduler it means
    other = R.Scheduler(isDefaultScheduler=True, startInThread=False,
                        threaded_selecthub=False)
    other._selectHub._select_func = eng.select
    other.runThreaded()
    world.extra_scheds = [other]
    sim.probes["scheduler_is_not_the_default"] += 1
  for t in tasks:
    t.start(sched)
  world.start_scheduler()
  _idle_tasks(world, cfg.get("idle_tasks", 0), sched)
  for st in plan["steps"]:
    if "thread" not in st:
      continue
    nthreads += 1
    who = "f%d" % st["thread"]

    def body(st=st, who=who):
      for s in range(st["sections"]):
        with sched.synchronized():
          events.append((world.next_seq(), "enter", who))
          for _ in range(st["inner"]):
            eng.preempt()
          if st["nested"]:
            try:
              with sched.synchronized():
                events.append((world.next_seq(), "inner", who))
                eng.preempt()
                if st.get("inner_raises"):
                  raise KeyError("inside the inner section")
            except KeyError:
              sim.probes["inner_section_raised"] += 1
            # still inside the outer section
            for _ in range(1 + st["inner"]):
              eng.preempt()
          events.append((world.next_seq(), "exit", who))
      done[0] += 1
    eng.spawn(body, who)

  nlate = [0]
  if late:
    # threads that ask for a section once the scheduler has been told to
    # quit (it may still be in the middle of a task's step, and goes on to
    # finish it): whether they are ever let in is the scheduler's business,
    # but if they are, the section is a section
    sim.probes["section_asked_for_after_quit"] += 1

    def late_body(who):
      eng.block(lambda: sched._hasQuit, None)
      with sched.synchronized():
        nlate[0] += 1
        events.append((world.next_seq(), "enter", who))
        for _ in range(3):
          eng.preempt()
        events.append((world.next_seq(), "exit", who))
    for j in range(late):
      eng.spawn(lambda who="late%d" % j: late_body(who),
                "late%d" % j).may_hang = True

  def quiet():
    nsteps = sum(1 for e in events if e[1] == "step")
    total = sum(t.n for t in tasks) * (3 if late else 1)
    if late:
      # (the quit comes while steps are still being run)
      return done[0] >= nthreads and nsteps >= max(1, late_at * total // 4)
    return done[0] >= nthreads and nsteps >= total
  late_at = cfg.get("w3_late_at", 4)
  res = _controller(sim, world, eng, quiet, timeout=20.0)
  fin = eng.run()
  _finish_check(sim, world, eng, fin, "w3")
  if nlate[0]:
    sim.probes["section_entered_after_quit"] += 1
  inside = None
  for seq, kind, who in events:
    if kind == "enter":
      if inside is not None:
        raise Violation("w3/two-in-section", "threads %s and %s were inside "
                        "synchronized sections at once" % (inside, who))
      inside = who
    elif kind == "exit":
      inside = None
    elif kind == "step" and inside is not None:
      raise Violation("w3/task-ran-in-section", "cooperative task %s ran a "
                      "step while thread %s was inside the scheduler's "
                      "synchronized section" % (who, inside))
  n_enter = sum(1 for e in events if e[1] == "enter") - nlate[0]
  want = sum(st["sections"] for st in plan["steps"] if "thread" in st)
  if n_enter != want or not res.get("ok"):
    raise Violation("w3/section-not-entered", "%d of %d synchronized sections "
                    "were entered within 20 virtual seconds" % (n_enter, want))


# ---------------------------------------------------------------------------
# W4: cooperative locks
# ---------------------------------------------------------------------------

def _w4(sim, world, eng, plan):
  cfg = plan["cfg"]
  R = world.R
  sched = world.sched
  locks = [R.Lock() for _ in range(cfg.get("nlocks", 1))]
  holder = [None] * len(locks)      # model: who holds lock i
  waiting = [0] * len(locks)        # model: tasks blocked on lock i
  finished = [0]
  ntasks = 0
  log = []

  class LT(R.Task):
    def __init__(self_, num, prog):
      self_.num, self_.prog = num, prog
      R.Task.__init__(self_)

    def __hash__(self_):
      return self_.num + 1

    def __eq__(self_, o):
      return self_ is o

    def run(self_):
      me = self_.num
      held = set()
      for op, li in self_.prog:
        L = locks[li]
        if cfg.get("w4_gc"):
          # the tasks are fire-and-forget (nobody but the scheduler and the
          # locks refers to them): a collection must not take any of them
          gc.collect()
        if op == "acq":
          if li in held:
            continue              # would self-deadlock: not a lock bug
          waited = holder[li] is not None
          if waited:
            waiting[li] += 1
          got = yield L.acquire()
          if got is not True:
            eng.fail("w4/acquire-value", "blocking acquire returned %r"
                     % (got,))
          if waited:
            waiting[li] -= 1
            if holder[li] != "pending":
              eng.fail("w4/two-holders", "lock %d granted to waiting task %d "
                       "while the model says holder=%r" % (li, me, holder[li]))
          elif holder[li] is not None:
            eng.fail("w4/two-holders", "lock %d granted to task %d while "
                     "task %r holds it" % (li, me, holder[li]))
          holder[li] = me
          held.add(li)
          sim.ev("acq", me, li)
        elif op == "try":
          if li in held:
            continue
          want = holder[li] is None
          got = yield L.acquire(blocking=False)
          if bool(got) != want:
            eng.fail("w4/try-value", "non-blocking acquire of lock %d "
                     "returned %r while holder is %r" % (li, got, holder[li]))
          if got:
            holder[li] = me
            held.add(li)
          sim.ev("try", me, li, bool(got))
        elif op == "rel":
          if li not in held:
            continue
          # a release with waiters hands the lock to exactly one of them
          holder[li] = "pending" if waiting[li] > 0 else None
          held.discard(li)
          sim.ev("rel", me, li)
          yield L.release()
        else:
          yield 0
      for li in sorted(held):
        holder[li] = "pending" if waiting[li] > 0 else None
        sim.ev("rel", me, li)
        yield locks[li].release()
      finished[0] += 1
  for st in plan["steps"]:
    if "task" in st and "prog" in st:
      ntasks += 1
      LT(st["task"], st["prog"]).start()
  world.start_scheduler()
  res = _controller(sim, world, eng, lambda: finished[0] >= ntasks,
                    timeout=10.0)
  fin = eng.run()
  if fin and fin[0] == "abort":
    raise Violation(fin[1], fin[2])
  _finish_check(sim, world, eng, fin, "w4")
  for i, L in enumerate(locks):
    if holder[i] == "pending" and waiting[i] > 0 and False:
      pass
  if finished[0] < ntasks:
    # some task is still waiting: legitimate only if the lock it waits for
    # is held by a task that is itself blocked (a lock-order deadlock made
    # by the generated programs), never if the lock is free
    for i, L in enumerate(locks):
      if (L._waiting or waiting[i] > 0) and not L._locked:
        # (by the lock's own books, or by the model's: a waiter the lock
        # has forgotten about is as stranded as one it still lists)
        raise Violation("w4/waiter-stranded", "lock %d is free but %d "
                        "task(s) are still blocked on it"
                        % (i, max(len(L._waiting), waiting[i])))
