"""
C15 -- parsing untrusted Ethernet frames with pox.lib.packet never fails.

Fault enumeration over a pure function: a corpus of valid frames of every
parser reachable from pox.lib.packet.ethernet is damaged by the data-plane
fault injector (EOF at every offset = truncation; replacement of the byte at
every offset), plus structure-aware (checksum-repairing) and random
mutation.  Every damaged frame goes through the real event path
(pox.openflow.PacketIn(...).parsed) and is then printed and re-serialised.

One run (= one plan = one forked child) is a BATCH of cases.  The plan names
corpus frames and offset ranges; the corpus is rebuilt deterministically by
corpus() so that plans stay small.
"""

import hashlib
import logging
import os
import signal
import struct
import sys

from simkit.rng import Rng, mix
from simkit.check import load_known
from models import rawframe as F

PROP = "C15"
LEVEL = "fault_enumeration"
BUDGET = {"quick": 400, "thorough": 6000}
RUN_TIMEOUT = 60
RANDOM_PER_RUN = {"quick": 1000, "thorough": 2000}
MAX_LAYERS = 400   # (a 1514-byte frame holds 375 four-byte tags or labels)
LINE_BUDGET = 2000000        # traced lines allowed for one case (hang guard)
CASE_CPU_S = 5.0             # CPU seconds before the traced re-run is made

RULE = ("The canonical case list of a tier is: for every corpus frame (a "
        "valid frame per parser reachable from ethernet: II, 802.1Q, QinQ, "
        "802.3+LLC, SNAP, ARP/RARP, IPv4 plain/options/fragments, UDP, TCP "
        "with all option kinds incl. MPTCP, ICMP, IGMP v1-v3, GRE, DHCP, DNS, "
        "RIP, VXLAN, IPv6 with all extension headers, ICMPv6/NDP/MLD, LLDP, "
        "EAPOL/EAP, MPLS) every truncation length 0..n, and every offset x "
        "{0x00, 0xff, low-bit flip, high-bit flip, 2 fixed pseudo-random "
        "values} (quick) or x all 255 other byte values (thorough); for "
        "frames carrying a checksum the parser verifies (ICMPv6, IGMP) the "
        "same again with the checksum repaired after the damage; and for "
        "every IPv4 / IPv6 frame each shorter layer-3 payload with all the "
        "lengths that describe it made to agree (a short but self-consistent "
        "datagram, which no truncation of the frame produces).  The list is "
        "cut into BUDGET[tier] chunks; run i executes chunk i (exact, the run "
        "index is recovered from the driver's seed) plus a seeded batch of "
        "random cases (multi-byte mutation, length-field extremes, "
        "insert/delete, splice of two frames, valid prefix + random tail, "
        "pure random bytes, and grammar-built frames: DHCP options incl. "
        "repeated codes / long values / overload areas, TCP option lists "
        "filling the option space incl. every MPTCP subtype, IPv4 options, "
        "LLDP TLV lists, NDP option lists, DNS messages with compression "
        "pointers, IGMPv3 group records, IPv6 extension-header chains, VLAN / "
        "MPLS stacks, RIP entry lists; two in three well-formed, the rest with "
        "illegal lengths, counts and pointers).  Oracle per case: PacketIn(...).parsed returns; "
        "the layer chain is finite, made of packet_base objects ending in "
        "bytes/None, and an unparsed layer still holds its bytes; str() of "
        "every layer, dump() and pack() return (pack returns bytes), and so do "
        "effective_ethertype and find() (what pox's own handlers read).  Every "
        "raise is one finding identified by (operation, exception type, "
        "innermost pox/lib/packet file and function).  A run is non-trivial "
        "when at least one case stopped parsing early or took another parser "
        "chain than the pristine frame; distinct = distinct digest of the "
        "ordered (case, chain, outcome) list.  In-system half (one scenario "
        "per run, checks/c15n.py): 1-3 real SoftwareSwitches in a line under "
        "the real controller with l2_learning and/or discovery, "
        "miss_send_len 0..65535 (the switch's own truncation of the "
        "packet-in), buffer pools 0/1/4/100; hosts send 8-30 (thorough: 60) "
        "frames -- the random cases above, corpus frames truncated or with a "
        "byte replaced, forged discovery probes with damaged TLVs -- and the "
        "inter-switch wire truncates or replaces a byte of what crosses it "
        "(flooded frames, discovery's own probes) at rate 0.2/0.5/1.0.  "
        "Oracle: nothing raises out of the switch's receive path or its "
        "re-serialisation on output, no exception is logged by any handler "
        "(revent / Connection.read / switch message wrappers), no task dies, "
        "no control connection is lost or replaced, the oracle above holds "
        "on event.parsed inside a PacketIn listener, and 35 s after the "
        "hostile traffic stops a clean unicast between re-learned hosts is "
        "delivered exactly once (bounded liveness).")
ASSUMPTIONS = [
  "the fault model is the one the property names: truncation at every "
  "offset and single-byte replacement of valid frames, complemented by "
  "sampled (not enumerated) multi-byte and random damage",
  "corpus frames are built by an independent raw builder (models/rawframe "
  "and the builders in this file), a few by pox's own constructors; frame "
  "sizes are <= 400 bytes, so parser behaviour that only appears on larger "
  "frames (e.g. MPLS stacks deeper than 100 labels) is not explored",
  "a finding is identified without its line number, so two different "
  "raising statements of the same exception type inside one function share "
  "an id (the raising lines are listed in the detail)",
  "non-termination is detected by a CPU-time alarm and then confirmed by a "
  "deterministic traced-line budget on the same case",
]
REAL = ["pox.lib.packet.* (all parsers, __str__/_to_str, dump, pack/hdr)",
        "pox.openflow.PacketIn (lazy .parsed)", "pox.lib.addresses"]
REAL += ["in-system half: pox.datapaths.switch (rx_packet, match extraction, "
         "packet-in truncation, output re-serialisation), of_01 controller "
         "stack, forwarding.l2_learning, openflow.discovery PacketIn handlers"]
STUBBED = ["sweep: connection and ofp_packet_in objects handed to PacketIn "
           "(attribute holders), no switch, no controller loop",
           "in-system half: socket/select/time/pinger (simkit), hosts and "
           "links incl. the damaging wire (harness)"]
EXPECT_PROBES = ["mode_trunc", "mode_byte", "mode_bytefix", "mode_truncfix",
                 "mode_random", "early_stop", "chain_changed",
                 "pristine_ok", "grammar_dhcp", "grammar_tcpopt",
                 "grammar_lldp", "grammar_dns", "grammar_ndp", "grammar_nest",
                 "grammar_wellformed_fully_parsed", "mode_insitu",
                 "insitu_packet_in_seen", "insitu_packet_in_cut_by_miss_send_len",
                 "insitu_app_discovery", "insitu_hostile_forged_probe",
                 "insitu_clean_exchange_after_hostile_traffic",
                 "wire_truncated", "wire_byte_replaced"]

_PKT_DIR = os.path.join("pox", "lib", "packet") + os.sep

# ---------------------------------------------------------------------------
# raw builders (independent of pox.lib.packet)
# ---------------------------------------------------------------------------

csum = F.csum
M1, M2, M3 = F.mac(1), F.mac(2), F.mac(3)
BCAST = b"\xff" * 6
A1, A2, A3 = F.ip(10, 0, 0, 1), F.ip(10, 0, 0, 2), F.ip(192, 168, 1, 254)
MC4 = F.ip(224, 0, 0, 22)
V6A = bytes.fromhex("fe80000000000000020000fffe000001")
V6B = bytes.fromhex("20010db8000000000000000000000002")
V6MC = bytes.fromhex("ff0200000000000000000001ff000002")


def _be16(x):
  return struct.pack("!H", x & 0xffff)


def _ip4(proto, payload, src=A1, dst=A2, **kw):
  return F.ipv4(src, dst, proto, payload, **kw)


def _eip(proto, payload, **kw):
  return F.eth(M2, M1, F.ETH_IP, _ip4(proto, payload, **kw))


def _udp(sport, dport, payload, src=A1, dst=A2):
  return F.udp(src, dst, sport, dport, payload)


def _eudp(sport, dport, payload):
  return _eip(17, _udp(sport, dport, payload))


def _tcp(opts, payload=b"GET / HTTP/1.0\r\n", flags=0x18):
  opts = opts + b"\0" * ((-len(opts)) % 4)
  return F.tcp(A1, A2, 40000, 80, payload, seq=0x01020304, ack=0x0a0b0c0d,
               flags=flags, options=opts)


def _igmp(typ, b1, rest):
  h = struct.pack("!BBH", typ, b1, 0) + rest
  return struct.pack("!BBH", typ, b1, csum(h)) + rest


def _gre(flags, proto, payload, key=None, seq=None, routing=None,
         with_csum=False):
  h = b""
  if with_csum or routing is not None:
    h += struct.pack("!HH", 0, 0)
  if key is not None:
    h += struct.pack("!I", key)
  if seq is not None:
    h += struct.pack("!I", seq)
  if routing is not None:
    h += routing
  pkt = struct.pack("!HH", flags, proto) + h + payload
  if with_csum:
    c = csum(pkt)
    pkt = pkt[:4] + _be16(c) + pkt[6:]
  return pkt


def _dhcp(op, options, sname=b"", filef=b"", yiaddr=0, flags=0x8000):
  return (struct.pack("!BBBBIHHIIII", op, 1, 6, 0, 0x3903f326, 1, flags, 0,
                      yiaddr, 0, 0)
          + M1 + b"\0" * 10 + sname.ljust(64, b"\0") + filef.ljust(128, b"\0")
          + b"\x63\x82\x53\x63" + options)


def _dopt(code, val):
  return bytes([code, len(val)]) + val


def _dname(name):
  out = b""
  for lab in name.split("."):
    if lab:
      out += bytes([len(lab)]) + lab.encode()
  return out + b"\0"


def _rr(name, typ, rdata, ttl=300, cls=1):
  return name + struct.pack("!HHIH", typ, cls, ttl, len(rdata)) + rdata


def _dns(ident, flags, qs, ans=(), auth=(), add=()):
  h = struct.pack("!HHHHHH", ident, flags, len(qs), len(ans), len(auth),
                  len(add))
  return h + b"".join(qs) + b"".join(ans) + b"".join(auth) + b"".join(add)


def _rip(cmd, ver, entries):
  out = struct.pack("!BBH", cmd, ver, 0)
  for afi, tag, addr, mask, nh, metric in entries:
    out += struct.pack("!HHIIII", afi, tag, addr, mask, nh, metric)
  return out


def _ip6(nh, payload, src=V6A, dst=V6B, hlim=64, tc=0, flow=0):
  return struct.pack("!IHBB", (6 << 28) | (tc << 20) | flow, len(payload), nh,
                     hlim) + src + dst + payload


def _e6(nh, payload, **kw):
  return F.eth(M2, M1, 0x86dd, _ip6(nh, payload, **kw))


def _ext(nh, body):
  """generic IPv6 extension header, body padded with PadN to 8n octets"""
  pad = (-(2 + len(body))) % 8
  if pad == 1:
    body += b"\0"
  elif pad >= 2:
    body += bytes([1, pad - 2]) + b"\0" * (pad - 2)
  return bytes([nh, (2 + len(body)) // 8 - 1]) + body


def _frag6(nh, off=0, more=False, ident=0x11223344):
  return struct.pack("!BBHI", nh, 0, (off << 3) | (1 if more else 0), ident)


def _l4sum6(src, dst, nh, data):
  return csum(src + dst + struct.pack("!IHBB", len(data), 0, 0, nh) + data)


def _udp6(sport, dport, payload, src=V6A, dst=V6B):
  h = struct.pack("!HHHH", sport, dport, 8 + len(payload), 0)
  c = _l4sum6(src, dst, 17, h + payload) or 0xffff
  return h[:6] + _be16(c) + payload


def _tcp6(opts, payload=b"hello", src=V6A, dst=V6B):
  opts = opts + b"\0" * ((-len(opts)) % 4)
  h = struct.pack("!HHLLBBHHH", 40000, 443, 7, 9, (5 + len(opts) // 4) << 4,
                  0x10, 512, 0, 0) + opts
  c = _l4sum6(src, dst, 6, h + payload)
  return h[:16] + _be16(c) + h[18:] + payload


def _icmp6(typ, code, body, src=V6A, dst=V6B):
  m = struct.pack("!BBH", typ, code, 0) + body
  return m[:2] + _be16(_l4sum6(src, dst, 58, m)) + body


def _ndopt(typ, body):
  assert (2 + len(body)) % 8 == 0
  return bytes([typ, (2 + len(body)) // 8]) + body


def _tlv(typ, val):
  return _be16((typ << 9) | len(val)) + val


def _lldp(tlvs):
  return F.eth(bytes.fromhex("0180c200000e"), M1, F.ETH_LLDP, b"".join(tlvs))


def _eapol(ver, typ, body):
  return F.eth(bytes.fromhex("0180c2000003"), M1, 0x888e,
               struct.pack("!BBH", ver, typ, len(body)) + body)


def _eap(code, ident, typ=None, data=b""):
  body = (b"" if typ is None else bytes([typ])) + data
  return struct.pack("!BBH", code, ident, 4 + len(body)) + body


def _mpls(label, tc, s, ttl):
  return struct.pack("!I", (label << 12) | (tc << 9) | (s << 8) | ttl)


# ---------------------------------------------------------------------------
# checksum repair ("structure-aware" damage): best effort, on bytes
# ---------------------------------------------------------------------------

def _fix_icmp6(b, ip6_off, icmp_off):
  """Recompute the ICMPv6 checksum the way the receiver will slice it."""
  if len(b) < icmp_off + 4 or len(b) < ip6_off + 40:
    return b
  plen = (b[ip6_off + 4] << 8) | b[ip6_off + 5]
  avail = len(b) - ip6_off
  length = plen if plen <= avail else avail
  length -= (icmp_off - ip6_off - 40)
  m = b[icmp_off:icmp_off + max(length, 0)]
  if len(m) < 4:
    return b
  m = m[:2] + b"\0\0" + m[4:]
  c = _l4sum6(b[ip6_off + 8:ip6_off + 24], b[ip6_off + 24:ip6_off + 40], 58, m)
  return b[:icmp_off + 2] + _be16(c) + b[icmp_off + 4:]


def _fix_igmp(b, ip_off, _unused):
  if len(b) < ip_off + 20:
    return b
  hl = (b[ip_off] & 0x0f) * 4
  iplen = (b[ip_off + 2] << 8) | b[ip_off + 3]
  end = ip_off + min(iplen, len(b) - ip_off)
  off = ip_off + hl
  m = b[off:end]
  if len(m) < 8:
    return b
  m = m[:2] + b"\0\0" + m[4:]
  return b[:off + 2] + _be16(csum(m)) + b[off + 4:]


_FIXERS = {"icmp6": _fix_icmp6, "igmp": _fix_igmp}


def apply_fix(name, b):
  fx = corpus_meta().get(name, {}).get("fix")
  if not fx:
    return b
  return _FIXERS[fx[0]](b, fx[1], fx[2])


# ---------------------------------------------------------------------------
# corpus
# ---------------------------------------------------------------------------

_CORPUS = None
_META = None


def _build_corpus():
  C = {}
  M = {}

  def add(name, frame, expect, fix=None):
    assert name not in C, name
    assert len(frame) <= 400, (name, len(frame))
    C[name] = bytes(frame)
    M[name] = {"expect": expect, "fix": fix}

  pay = bytes(range(0x30, 0x30 + 18))

  # --- layer 2 -------------------------------------------------------------
  add("eth_unknown", F.eth(M2, M1, 0x88b5, pay), "ethernet")
  add("eth_hdr_only", F.eth(M2, M1, F.ETH_IP, b""), "ethernet")
  add("vlan_ip_udp", F.eth(M2, M1, F.ETH_IP,
                           _ip4(17, _udp(1234, 9999, pay)), vlan=(100, 3)),
      "ethernet/vlan/ipv4/udp")
  add("vlan_arp", F.eth(BCAST, M1, F.ETH_ARP, F.arp(1, M1, A1, b"\0" * 6, A2),
                        vlan=(4095, 7)), "ethernet/vlan/arp")
  add("qinq_ip", M2 + M1 + struct.pack("!HHHH", 0x8100, 0x2005, 0x8100, 0x0006)
      + _be16(F.ETH_IP) + _ip4(1, F.icmp(8, 0, struct.pack("!HH", 7, 1) + pay)),
      "ethernet/vlan/vlan/ipv4/icmp/echo")
  add("llc_stp", F.llc_plain(bytes.fromhex("0180c2000000"), M1,
                             bytes.fromhex("000000000080000200000000010000000"
                                           "0800002000000000180010000140002000f"
                                           "00")), "ethernet/llc")
  add("llc_iframe", F.llc_plain(M2, M1, b"\x00" + pay, dsap=0xe0, ssap=0xe0,
                                ctrl=0x02), "ethernet/llc")
  add("snap_ip", F.llc_snap(M2, M1, b"\0\0\0", F.ETH_IP,
                            _ip4(17, _udp(1000, 2000, pay))),
      "ethernet/llc/ipv4/udp")
  add("snap_arp", F.llc_snap(BCAST, M1, b"\0\0\0", F.ETH_ARP,
                             F.arp(1, M1, A1, b"\0" * 6, A2)),
      "ethernet/llc/arp")
  add("snap_cdp", F.llc_snap(bytes.fromhex("01000ccccccc"), M1, b"\x00\x00\x0c",
                             0x2000, b"\x02\xb4\x12\x34" + pay),
      "ethernet/llc")
  # --- ARP -----------------------------------------------------------------
  add("arp_request", F.eth(BCAST, M1, F.ETH_ARP,
                           F.arp(1, M1, A1, b"\0" * 6, A2)), "ethernet/arp")
  add("arp_reply_padded", F.eth(M1, M2, F.ETH_ARP,
                                F.arp(2, M2, A2, M1, A1) + b"\0" * 18),
      "ethernet/arp")
  add("rarp_request", F.eth(BCAST, M1, 0x8035, F.arp(3, M1, 0, M1, 0)),
      "ethernet/arp")
  # --- IPv4 ----------------------------------------------------------------
  add("ip_udp", _eudp(1234, 9999, pay), "ethernet/ipv4/udp")
  add("ip_opts_udp", _eip(17, _udp(1234, 9999, pay),
                          options=b"\x94\x04\x00\x00\x01\x01\x01\x00"),
      "ethernet/ipv4/udp")
  add("ip_frag_first", _eip(17, _udp(1234, 9999, pay), flags=1, ident=77),
      "ethernet/ipv4/udp")
  add("ip_frag_later", _eip(17, pay, flags=0, frag=3, ident=77),
      "ethernet/ipv4")
  add("ip_proto_ospf", _eip(89, pay), "ethernet/ipv4")
  add("ip_padded", _eudp(7, 7, b"hi") + b"\0" * 16, "ethernet/ipv4/udp")
  # --- TCP -----------------------------------------------------------------
  add("tcp_plain", _eip(6, _tcp(b"")), "ethernet/ipv4/tcp")
  add("tcp_syn_opts", _eip(6, _tcp(
      b"\x02\x04\x05\xb4" b"\x04\x02" b"\x08\x0a\x00\x01\x02\x03\x00\x00\x00"
      b"\x00" b"\x01" b"\x03\x03\x07", b"", flags=0x02)), "ethernet/ipv4/tcp")
  add("tcp_sack_ts", _eip(6, _tcp(
      b"\x01\x01\x08\x0a\x00\x00\x00\x05\x00\x00\x00\x06"
      b"\x01\x01\x05\x12" + struct.pack("!IIII", 100, 200, 300, 400))),
      "ethernet/ipv4/tcp")
  add("tcp_sack_last", _eip(6, _tcp(
      b"\x01\x01\x05\x0a" + struct.pack("!II", 100, 200), b"")),
      "ethernet/ipv4/tcp")
  add("tcp_unknown_opts_full", _eip(6, _tcp(bytes([99, 4, 1, 2]) * 10)),
      "ethernet/ipv4/tcp")
  add("tcp_mptcp_unknown_full", _eip(6, _tcp(
      b"\x1e\x12\x36" + bytes(range(15)) + bytes([99, 7, 1, 2, 3, 4, 5])
      + b"\x01\x01\x08\x0a" + bytes(range(8)) + b"\x01\x01\x01")),
      "ethernet/ipv4/tcp")
  add("tcp_mptcp_dss_dsn8", _eip(6, _tcp(
      b"\x1e\x14\x20\x0c" + bytes(range(16)) + bytes([63, 12]) + bytes(10)
      + b"\x01" * 8)), "ethernet/ipv4/tcp")
  add("tcp_eol_unknown", _eip(6, _tcp(b"\x22\x06\xaa\xbb\xcc\xdd\x01\x00")),
      "ethernet/ipv4/tcp")
  add("tcp_mp_capable", _eip(6, _tcp(
      b"\x1e\x0c\x00\x81" + bytes(range(1, 9)) + b"\x02\x04\x05\xb4", b"",
      flags=0x02)), "ethernet/ipv4/tcp")
  add("tcp_mp_capable20", _eip(6, _tcp(
      b"\x1e\x14\x00\x81" + bytes(range(1, 17)), b"", flags=0x10)),
      "ethernet/ipv4/tcp")
  add("tcp_mp_join12", _eip(6, _tcp(
      b"\x1e\x0c\x10\x02" + bytes(range(1, 9)), b"", flags=0x02)),
      "ethernet/ipv4/tcp")
  add("tcp_mp_join16", _eip(6, _tcp(
      b"\x1e\x10\x11\x02" + bytes(range(1, 13)), b"", flags=0x12)),
      "ethernet/ipv4/tcp")
  add("tcp_mp_join24", _eip(6, _tcp(
      b"\x1e\x18\x10\x00" + bytes(range(1, 21)), b"", flags=0x10)),
      "ethernet/ipv4/tcp")
  add("tcp_mp_dss", _eip(6, _tcp(
      b"\x1e\x14\x20\x05" + struct.pack("!IIIHH", 11, 22, 33, 5, 0xbeef))),
      "ethernet/ipv4/tcp")
  add("tcp_mp_dss_ack8", _eip(6, _tcp(
      b"\x1e\x0c\x20\x03" + struct.pack("!Q", 0x1122334455667788))),
      "ethernet/ipv4/tcp")
  add("tcp_mp_addaddr", _eip(6, _tcp(b"\x1e\x08\x34\x01\x0a\x00\x00\x09")),
      "ethernet/ipv4/tcp")
  # --- ICMP ----------------------------------------------------------------
  add("icmp_echo", _eip(1, F.icmp(8, 0, struct.pack("!HH", 0x1234, 1) + pay)),
      "ethernet/ipv4/icmp/echo")
  add("icmp_echo_reply", _eip(1, F.icmp(0, 0, struct.pack("!HH", 0x1234, 1)
                                         + pay)), "ethernet/ipv4/icmp/echo")
  inner_udp = _ip4(17, _udp(1234, 9999, pay), src=A2, dst=A1)[:28]
  add("icmp_unreach", _eip(1, F.icmp(3, 3, struct.pack("!HH", 0, 0)
                                      + inner_udp)),
      "ethernet/ipv4/icmp/unreach/ipv4/udp")
  add("icmp_unreach_fragneeded", _eip(1, F.icmp(
      3, 4, struct.pack("!HH", 0, 1400)
      + _ip4(6, _tcp(b"", b""), src=A2, dst=A1)[:28])),
      "ethernet/ipv4/icmp/unreach/ipv4")
  add("icmp_time_exceeded", _eip(1, F.icmp(11, 0, struct.pack("!I", 0)
                                            + inner_udp)),
      "ethernet/ipv4/icmp/time_exceeded/ipv4/udp")
  add("icmp_unreach_short", _eip(1, F.icmp(3, 1, struct.pack("!HH", 0, 0)
                                            + inner_udp[:12])),
      "ethernet/ipv4/icmp/unreach")
  add("icmp_redirect", _eip(1, F.icmp(5, 1, struct.pack("!I", A3)
                                       + inner_udp)), "ethernet/ipv4/icmp")
  # --- IGMP ----------------------------------------------------------------
  ra = b"\x94\x04\x00\x00"
  add("igmp_v2_query", _eip(2, _igmp(0x11, 100, struct.pack("!I", 0)),
                            dst=F.ip(224, 0, 0, 1), ttl=1, options=ra),
      "ethernet/ipv4/igmp", fix=("igmp", 14, 0))
  add("igmp_v1_report", _eip(2, _igmp(0x12, 0, struct.pack("!I",
                                                            F.ip(239, 1, 2, 3))),
                             ttl=1), "ethernet/ipv4/igmp",
      fix=("igmp", 14, 0))
  add("igmp_v2_report", _eip(2, _igmp(0x16, 0, struct.pack("!I",
                                                            F.ip(239, 1, 2, 3))),
                             ttl=1, options=ra), "ethernet/ipv4/igmp",
      fix=("igmp", 14, 0))
  add("igmp_v2_leave", _eip(2, _igmp(0x17, 0, struct.pack("!I",
                                                           F.ip(239, 1, 2, 3))),
                            dst=F.ip(224, 0, 0, 2), ttl=1),
      "ethernet/ipv4/igmp", fix=("igmp", 14, 0))
  add("igmp_v3_query", _eip(2, _igmp(0x11, 100, struct.pack(
      "!IBBHI", F.ip(239, 1, 2, 3), 2, 125, 1, A3)), ttl=1),
      "ethernet/ipv4/igmp", fix=("igmp", 14, 0))
  add("igmp_v3_report", _eip(2, _igmp(0x22, 0, struct.pack("!HH", 0, 2)
      + struct.pack("!BBHI", 4, 0, 0, F.ip(239, 1, 2, 3))
      + struct.pack("!BBHIII", 1, 1, 1, F.ip(239, 9, 9, 9), A3, 0xdeadbeef)),
      dst=MC4, ttl=1, options=ra), "ethernet/ipv4/igmp", fix=("igmp", 14, 0))
  add("igmp_v3_report_nosrc", _eip(2, _igmp(0x22, 0, struct.pack("!HH", 0, 1)
      + struct.pack("!BBHI", 2, 0, 0, F.ip(239, 1, 2, 3))), dst=MC4, ttl=1),
      "ethernet/ipv4/igmp", fix=("igmp", 14, 0))
  # --- GRE -----------------------------------------------------------------
  inner_ip = _ip4(1, F.icmp(8, 0, struct.pack("!HH", 1, 1) + b"abcd"),
                  src=A3, dst=A2)
  inner_eth = F.eth(M3, M1, F.ETH_ARP, F.arp(1, M1, A1, b"\0" * 6, A2))
  add("gre_ip", _eip(47, _gre(0, 0x0800, inner_ip)),
      "ethernet/ipv4/gre/ipv4/icmp/echo")
  add("gre_teb", _eip(47, _gre(0, 0x6558, inner_eth)),
      "ethernet/ipv4/gre/ethernet/arp")
  add("gre_key_seq_csum", _eip(47, _gre(0xb000, 0x6558, inner_eth, key=0x2a,
                                        seq=9, with_csum=True)),
      "ethernet/ipv4/gre/ethernet/arp")
  add("gre_key_ip", _eip(47, _gre(0x2000, 0x0800, inner_ip, key=77)),
      "ethernet/ipv4/gre/ipv4/icmp/echo")
  add("gre_routing", _eip(47, _gre(
      0x4000, 0x880b, pay,
      routing=struct.pack("!HBBI", 0x0800, 0, 4, A3) + b"\0\0\0\0")),
      "ethernet/ipv4/gre")
  add("gre_other", _eip(47, _gre(0, 0x880b, pay)), "ethernet/ipv4/gre")
  # --- DHCP ----------------------------------------------------------------
  add("dhcp_discover", _eudp(68, 67, _dhcp(
      1, _dopt(53, b"\x01") + _dopt(61, b"\x01" + M1) + _dopt(12, b"host1")
      + _dopt(55, bytes([1, 3, 6, 15, 51, 54])) + b"\xff")),
      "ethernet/ipv4/udp/dhcp")
  add("dhcp_offer_overload", _eudp(67, 68, _dhcp(
      2, b"\0\0" + _dopt(53, b"\x02") + _dopt(54, struct.pack("!I", A3))
      + _dopt(51, struct.pack("!I", 3600)) + _dopt(1, b"\xff\xff\xff\0")
      + _dopt(3, struct.pack("!I", A3)) + _dopt(6, struct.pack("!II", A3, A2))
      + _dopt(52, b"\x03") + _dopt(58, struct.pack("!I", 1800)) + b"\xff\0\0",
      sname=_dopt(15, b"example.org") + b"\xff",
      filef=_dopt(28, struct.pack("!I", F.ip(10, 0, 0, 255)))
      + _dopt(59, struct.pack("!I", 3000)) + _dopt(43, b"\x01\x02\x03")
      + b"\xff", yiaddr=A2)), "ethernet/ipv4/udp/dhcp")
  add("bootp_no_options", _eudp(68, 67, _dhcp(1, b"")),
      "ethernet/ipv4/udp/dhcp")
  add("dhcp_request_noend", _eudp(68, 67, _dhcp(
      1, _dopt(53, b"\x03") + _dopt(50, struct.pack("!I", A2))
      + _dopt(56, b"oops"), flags=0)), "ethernet/ipv4/udp/dhcp")
  # --- DNS -----------------------------------------------------------------
  q = _dname("www.example.org") + struct.pack("!HH", 1, 1)
  ptr = b"\xc0\x0c"
  add("dns_query", _eudp(33333, 53, _dns(0xabcd, 0x0100, [q])),
      "ethernet/ipv4/udp/dns")
  add("dns_response", _eudp(53, 33333, _dns(
      0xabcd, 0x8180, [q],
      ans=[_rr(ptr, 5, b"\x03cdn" + b"\xc0\x10"),
           _rr(b"\x03cdn\xc0\x10", 1, struct.pack("!I", A3)),
           _rr(ptr, 28, V6B), _rr(ptr, 16, b"\x05hello\x03abc")],
      auth=[_rr(b"\xc0\x10", 2, b"\x02ns" + b"\xc0\x10"),
            _rr(b"\xc0\x10", 6, b"\x02ns\xc0\x10" + b"\x04root\xc0\x10"
                + struct.pack("!IIIII", 1, 2, 3, 4, 5))],
      add=[_rr(b"\xc0\x10", 15, _be16(10) + b"\x04mail\xc0\x10"),
           _rr(_dname("4.3.2.1.in-addr.arpa"), 12, b"\x01h\xc0\x10")])),
      "ethernet/ipv4/udp/dns")
  add("mdns_query", F.eth(bytes.fromhex("01005e0000fb"), M1, F.ETH_IP, _ip4(
      17, _udp(5353, 5353, _dns(0, 0, [_dname("_http._tcp.local")
                                       + struct.pack("!HH", 12, 1)]),
               dst=F.ip(224, 0, 0, 251)), dst=F.ip(224, 0, 0, 251), ttl=255)),
      "ethernet/ipv4/udp/dns")
  add("dns_empty_root", _eudp(33333, 53, _dns(1, 0, [b"\0"
                                                     + struct.pack("!HH", 2, 1)]
                                              )), "ethernet/ipv4/udp/dns")
  # --- RIP -----------------------------------------------------------------
  add("rip_v1_request", _eudp(520, 520, _rip(1, 1, [(0, 0, 0, 0, 0, 16)])),
      "ethernet/ipv4/udp/rip")
  add("rip_v2_response", F.eth(bytes.fromhex("01005e000009"), M1, F.ETH_IP,
      _ip4(17, _udp(520, 520, _rip(2, 2, [
          (2, 1, F.ip(10, 1, 0, 0), 0xffff0000, 0, 1),
          (2, 0, F.ip(192, 168, 7, 0), 0xffffff00, A3, 15)]),
          dst=F.ip(224, 0, 0, 9)), dst=F.ip(224, 0, 0, 9), ttl=1)),
      "ethernet/ipv4/udp/rip")
  # --- VXLAN ---------------------------------------------------------------
  add("vxlan_arp", _eudp(50000, 4789, b"\x08\0\0\0\x00\x12\x34\0" + inner_eth),
      "ethernet/ipv4/udp/vxlan/ethernet/arp")
  add("vxlan_noflag_ip", _eudp(50000, 4789, b"\0\0\0\0\0\0\0\0" + F.eth(
      M3, M1, F.ETH_IP, inner_ip)),
      "ethernet/ipv4/udp/vxlan/ethernet/ipv4/icmp/echo")
  # --- IPv6 ----------------------------------------------------------------
  add("ip6_udp", _e6(17, _udp6(1234, 9999, pay)), "ethernet/ipv6/udp")
  add("ip6_tcp", _e6(6, _tcp6(b"\x02\x04\x05\xa0\x01\x03\x03\x02")),
      "ethernet/ipv6/tcp")
  add("ip6_hbh_udp", _e6(0, _ext(17, b"\x05\x02\x00\x00")
                         + _udp6(1234, 9999, pay)), "ethernet/ipv6/udp")
  add("ip6_routing_tcp", _e6(43, _ext(6, b"\x00\x01\x00\x00\x00\x00" + V6B)
                             + _tcp6(b"")), "ethernet/ipv6/tcp")
  add("ip6_frag_udp", _e6(44, _frag6(17) + _udp6(1234, 9999, pay + pay + pay)),
      "ethernet/ipv6/udp")
  add("ip6_frag_small", _e6(44, _frag6(17, off=0, more=True)
                            + _udp6(1234, 9999, b"ab")), "ethernet/ipv6/udp")
  add("ip6_dstopts_echo", _e6(60, _ext(58, b"\x01\x04\0\0\0\0")
      + _icmp6(128, 0, struct.pack("!HH", 5, 6) + pay)),
      "ethernet/ipv6/icmpv6/echo", fix=("icmp6", 14, 14 + 40 + 8))
  # hop-by-hop -> destination options -> routing -> fragment -> destination
  # options -> UDP
  add("ip6_all_ext_udp", _e6(0, _ext(60, b"\x05\x02\x00\x00")
      + _ext(43, b"\x01\x04\0\0\0\0")
      + _ext(44, b"\x00\x00\x00\x00\x00\x00")
      + _frag6(60) + _ext(17, b"\x01\x0c" + b"\0" * 12)
      + _udp6(1234, 9999, pay)), "ethernet/ipv6/udp")
  add("ip6_nonext", _e6(59, b""), "ethernet/ipv6")
  add("ip6_unknown_nh", _e6(132, pay), "ethernet/ipv6")
  add("ip6_dns", _e6(17, _udp6(40000, 53, _dns(7, 0x0100, [
      _dname("example.org") + struct.pack("!HH", 28, 1)]))),
      "ethernet/ipv6/udp/dns")
  # --- ICMPv6 --------------------------------------------------------------
  fx6 = ("icmp6", 14, 54)

  def add6(name, typ, code, body, expect, src=V6A, dst=V6B):
    add(name, F.eth(M2, M1, 0x86dd, _ip6(58, _icmp6(typ, code, body, src, dst),
                                         src=src, dst=dst, hlim=255)),
        "ethernet/ipv6/icmpv6" + expect, fix=fx6)

  add6("icmp6_echo", 128, 0, struct.pack("!HH", 5, 6) + pay, "/echo")
  add6("icmp6_echo_reply", 129, 0, struct.pack("!HH", 5, 6) + pay, "/echo")
  add6("icmp6_ns", 135, 0, b"\0" * 4 + V6B + _ndopt(1, M1),
       "/NDNeighborSolicitation", dst=V6MC)
  add6("icmp6_na", 136, 0, b"\x60\0\0\0" + V6B + _ndopt(2, M2),
       "/NDNeighborAdvertisement")
  add6("icmp6_na_noopt", 136, 0, b"\xe0\0\0\0" + V6B,
       "/NDNeighborAdvertisement")
  add6("icmp6_rs", 133, 0, b"\0" * 4 + _ndopt(1, M1), "/NDRouterSolicitation")
  add6("icmp6_ra", 134, 0, struct.pack("!BBHII", 64, 0xc0, 1800, 30000, 1000)
       + _ndopt(1, M1) + _ndopt(5, struct.pack("!HI", 0, 1500))
       + _ndopt(3, struct.pack("!BBIII", 64, 0xc0, 86400, 14400, 0)
                + V6B[:8] + b"\0" * 8)
       + _ndopt(25, b"\0\0" + struct.pack("!I", 600) + V6B),
       "/NDRouterAdvertisement")
  add6("icmp6_mld_query", 130, 0, struct.pack("!HH", 1000, 0) + b"\0" * 16, "")
  add6("icmp6_mld_report", 131, 0, struct.pack("!HH", 0, 0) + V6MC, "")
  add6("icmp6_mld_done", 132, 0, struct.pack("!HH", 0, 0) + V6MC, "")
  add6("icmp6_mld2_report", 143, 0, struct.pack("!HH", 0, 1)
       + struct.pack("!BBH", 4, 0, 0) + V6MC, "")
  inner6 = _ip6(17, _udp6(1234, 9999, pay, V6B, V6A), V6B, V6A)
  add6("icmp6_unreach", 1, 4, b"\0" * 4 + inner6, "/unreach/ipv6/udp")
  add6("icmp6_unreach_short", 1, 0, b"\0" * 4 + inner6[:20], "/unreach")
  add6("icmp6_too_big", 2, 0, struct.pack("!I", 1280) + inner6,
       "/PacketTooBig")
  add6("icmp6_time_exceeded", 3, 0, b"\0" * 4 + inner6, "/TimeExceeded")
  add6("icmp6_param_problem", 4, 1, struct.pack("!I", 40) + inner6, "")
  add6("icmp6_redirect", 137, 0, b"\0" * 4 + V6B + V6A + _ndopt(2, M2), "")
  # --- LLDP ----------------------------------------------------------------
  add("lldp_basic", _lldp([_tlv(1, b"\x04" + M1), _tlv(2, b"\x02" + b"3"),
                           _tlv(3, _be16(120)), _tlv(0, b"")]),
      "ethernet/lldp")
  add("lldp_full", _lldp([
      _tlv(1, b"\x07dpid:0000000000000001"), _tlv(2, b"\x03" + M1),
      _tlv(3, _be16(120)), _tlv(4, b"eth0 uplink"), _tlv(5, b"switch-1"),
      _tlv(6, b"POX test switch"), _tlv(7, struct.pack("!HH", 0x14, 0x04)),
      _tlv(8, b"\x05\x01" + struct.pack("!I", A3) + b"\x02"
           + struct.pack("!I", 7) + b"\x03\x2b\x06\x01"),
      _tlv(127, b"\x00\x12\x0f\x01" + b"\x03\x6c\x00\x00\x10"),
      _tlv(127, b"\x00\x26\xe1\x00" + b"dpid:1"), _tlv(9, b"\x01\x02"),
      _tlv(0, b"")]), "ethernet/lldp")
  add("lldp_padded", _lldp([_tlv(1, b"\x04" + M1), _tlv(2, b"\x07" + b"p1"),
                            _tlv(3, _be16(1)), _tlv(0, b""), b"\0" * 20]),
      "ethernet/lldp")
  # --- EAPOL / EAP ---------------------------------------------------------
  add("eapol_start", _eapol(1, 1, b""), "ethernet/eapol")
  add("eapol_logoff", _eapol(2, 2, b""), "ethernet/eapol")
  add("eapol_eap_req_identity", _eapol(1, 0, _eap(1, 1, 1, b"who?")),
      "ethernet/eapol/eap")
  add("eapol_eap_resp_md5", _eapol(1, 0, _eap(2, 2, 4, b"\x10"
                                               + bytes(range(16)))),
      "ethernet/eapol/eap")
  add("eapol_eap_success", _eapol(1, 0, _eap(3, 2)), "ethernet/eapol/eap")
  add("eapol_eap_failure", _eapol(1, 0, _eap(4, 2)), "ethernet/eapol/eap")
  add("eapol_key", _eapol(2, 3, b"\x02" + bytes(range(40))), "ethernet/eapol")
  # --- MPLS ----------------------------------------------------------------
  add("mpls_uc_1", F.eth(M2, M1, 0x8847, _mpls(1000, 0, 1, 64) + inner_ip),
      "ethernet/mpls")
  add("mpls_uc_2", F.eth(M2, M1, 0x8847, _mpls(1000, 5, 0, 64)
                         + _mpls(16, 0, 1, 63) + inner_ip),
      "ethernet/mpls/mpls")
  add("mpls_mc_2", F.eth(bytes.fromhex("01005e100001"), M1, 0x8848,
                         _mpls(0xfffff, 7, 0, 255) + _mpls(3, 0, 1, 1)
                         + inner_ip), "ethernet/mpls/mpls")
  add("mpls_short", F.eth(M2, M1, 0x8847, _mpls(17, 0, 0, 1) + b"\x01\x02"),
      "ethernet/mpls")
  _pox_built(add)
  return C, M


def _pox_built(add):
  """A few frames produced by pox's own constructors + pack() (what the
  controller itself emits); failures to build are ignored here and show up
  in corpus_selfcheck() as missing names."""
  import pox.lib.packet as P
  from pox.lib.addresses import EthAddr, IPAddr

  def build(name, fn, expect, fix=None):
    try:
      b = fn()
      assert isinstance(b, bytes)
    except Exception:
      return
    add(name, b, expect, fix)

  def e(typ, payload):
    return P.ethernet(dst=EthAddr(M2), src=EthAddr(M1), type=typ,
                      payload=payload)

  def ip(proto, payload):
    return P.ipv4(srcip=IPAddr("10.0.0.1"), dstip=IPAddr("10.0.0.2"),
                  protocol=proto, id=4242, payload=payload)

  build("pox_arp", lambda: e(0x0806, P.arp(
      opcode=1, hwsrc=EthAddr(M1), protosrc=IPAddr("10.0.0.1"),
      protodst=IPAddr("10.0.0.2"))).pack(), "ethernet/arp")
  build("pox_udp", lambda: e(0x0800, ip(17, P.udp(
      srcport=1111, dstport=2222, payload=b"payload-bytes"))).pack(),
      "ethernet/ipv4/udp")

  def tcpf():
    t = P.tcp(srcport=1111, dstport=80, seq=1, ack=2, win=100,
              payload=b"data")
    t.SYN = True
    t.options = [P.tcp_opt(P.tcp_opt.MSS, 1460), P.tcp_opt(P.tcp_opt.NOP, None),
                 P.tcp_opt(P.tcp_opt.WSOPT, 7),
                 P.tcp_opt(P.tcp_opt.SACKPERM, None),
                 P.tcp_opt(P.tcp_opt.TSOPT, (1, 2))]
    return e(0x0800, ip(6, t)).pack()
  build("pox_tcp_opts", tcpf, "ethernet/ipv4/tcp")

  def icmpf():
    ec = P.ICMP.echo(id=9, seq=3, payload=b"ping-data")
    ic = P.icmp(type=8, code=0, payload=ec)
    return e(0x0800, ip(1, ic)).pack()
  build("pox_icmp_echo", icmpf, "ethernet/ipv4/icmp/echo")

  def vlanf():
    v = P.vlan(id=10, pcp=2, eth_type=0x0800,
               payload=ip(17, P.udp(srcport=5, dstport=6, payload=b"xy")))
    return e(0x8100, v).pack()
  build("pox_vlan_udp", vlanf, "ethernet/vlan/ipv4/udp")

  def lldpf():
    # what pox.openflow.discovery sends
    cid = P.chassis_id(subtype=P.chassis_id.SUB_LOCAL, id=b"dpid:1")
    pid = P.port_id(subtype=P.port_id.SUB_PORT, id=b"3")
    t = P.ttl(ttl=120)
    sd = P.system_description(payload=b"dpid:1")
    l = P.lldp()
    l.tlvs = [cid, pid, t, sd, P.end_tlv()]
    eth = P.ethernet(type=0x88cc, src=EthAddr(M1),
                     dst=EthAddr(bytes.fromhex("0180c200000e")), payload=l)
    return eth.pack()
  build("pox_lldp_discovery", lldpf, "ethernet/lldp")

  def mplsf():
    m = P.mpls(label=99, tc=1, s=1, ttl=9, payload=b"\x45\x00rest")
    return e(0x8847, m).pack()
  build("pox_mpls", mplsf, "ethernet/mpls")


def corpus():
  """name -> valid frame bytes (deterministic)."""
  global _CORPUS, _META
  if _CORPUS is None:
    _CORPUS, _META = _build_corpus()
  return _CORPUS


def corpus_meta():
  corpus()
  return _META


# ---------------------------------------------------------------------------
# one case: parse through PacketIn, walk, print, re-serialise
# ---------------------------------------------------------------------------

class _Hang(BaseException):
  """CPU alarm fired inside a case."""


class _Budget(BaseException):
  """Traced-line budget exhausted (deterministic non-termination verdict)."""


class _Conn(object):
  dpid = 1


class _Ofp(object):
  __slots__ = ("in_port", "data", "buffer_id", "total_len", "reason")

  def __init__(self, data):
    self.in_port = 1
    self.data = data
    self.buffer_id = None
    self.total_len = len(data)
    self.reason = 0


_CONN = _Conn()
_pox = {}


def _load_pox():
  if not _pox:
    from pox.openflow import PacketIn
    from pox.lib.packet.ethernet import ethernet
    from pox.lib.packet.packet_base import packet_base
    _pox.update(PacketIn=PacketIn, ethernet=ethernet, packet_base=packet_base)
  return _pox


def _exc_name(e):
  t = type(e)
  if t.__module__ == "builtins":
    return t.__name__
  return t.__module__.rsplit(".", 1)[-1] + "." + t.__name__


def _where(tb):
  """(file, function, line) of the innermost pox/lib/packet frame of a
  traceback; innermost pox frame otherwise; innermost frame as last resort."""
  inner = anypox = last = None
  while tb is not None:
    co = tb.tb_frame.f_code
    fn = co.co_filename
    here = (os.path.basename(fn)[:-3] if fn.endswith(".py")
            else os.path.basename(fn),
            getattr(co, "co_qualname", co.co_name), tb.tb_lineno)
    if _PKT_DIR in fn:
      inner = here
    elif os.sep + "pox" + os.sep in fn:
      anypox = here
    last = here
    tb = tb.tb_next
  return inner or anypox or last or ("?", "?", 0)


def _finding(op, e):
  fil, func, line = _where(e.__traceback__)
  name = _exc_name(e)
  fid = "C15-%s-%s-%s-%s" % (op, name, fil, func)
  try:
    msg = str(e)[:160]
  except Exception:
    msg = "<unprintable>"
  return {"id": fid, "op": op, "exc": name, "file": fil + ".py",
          "func": func, "line": line, "msg": msg}


def _oracle_finding(op, kind, layer, msg):
  cls = type(layer).__name__
  mod = type(layer).__module__.rsplit(".", 1)[-1]
  return {"id": "C15-%s-%s-%s-%s" % (op, kind, mod, cls), "op": op,
          "exc": kind, "file": mod + ".py", "func": cls, "line": 0,
          "msg": msg}


def run_case(b, state=None, direct=False):
  """
  Apply the oracle to one frame.  Returns (chain, findings) where chain is a
  short string naming the layers reached ('+' parsed, '-' not) and findings
  is a list of finding dicts (empty = the property held on this frame).
  `state` (a dict) receives the name of the operation in progress so that a
  hang can be attributed.
  """
  px = _load_pox()
  pb = px["packet_base"]
  out = []
  if state is None:
    state = {}
  state["op"] = "parse"
  try:
    p = px["PacketIn"](_CONN, _Ofp(b)).parsed
  except Exception as e:
    out.append(_finding("parse", e))
    p = None
  if direct or p is None:
    # the same through the constructor the property names
    try:
      q = px["ethernet"](raw=b)
    except Exception as e:
      f = _finding("parse", e)
      if not any(x["id"] == f["id"] for x in out):
        out.append(f)
      q = None
    if (p is None) != (q is None):
      out.append(_oracle_finding("parse", "PathsDisagree", q or p,
                                 "PacketIn.parsed and ethernet(raw=) differ"))
  if p is None:
    return "!", out

  # -- chain ---------------------------------------------------------------
  state["op"] = "chain"
  layers = []
  names = []
  seen = set()
  x = p
  while x is not None:
    if isinstance(x, bytes):
      names.append("B")
      break
    if not isinstance(x, pb):
      out.append(_oracle_finding(
          "chain", "BadLayerType", layers[-1] if layers else p,
          "next is a %s, neither packet nor bytes" % type(x).__name__))
      names.append("?")
      break
    if id(x) in seen or len(layers) >= MAX_LAYERS:
      out.append(_oracle_finding("chain", "Unbounded", x,
                                 "layer chain does not end"))
      break
    seen.add(id(x))
    layers.append(x)
    missing = [a for a in ("parsed", "next", "raw") if not hasattr(x, a)]
    if missing:
      # a layer object that was never initialised as a packet_base
      out.append(_oracle_finding(
          "chain", "MissingAttr", x, "layer has no attribute %s"
          % "/".join(missing)))
    parsed = getattr(x, "parsed", False) is True
    names.append(type(x).__name__ + ("+" if parsed else "-"))
    raw = getattr(x, "raw", None)
    if raw is not None and not isinstance(raw, bytes):
      out.append(_oracle_finding("chain", "RawNotBytes", x,
                                 ".raw is a %s" % type(raw).__name__))
    nxt = getattr(x, "next", None)
    if not parsed and not missing and not isinstance(raw, bytes) \
        and not isinstance(nxt, bytes):
      out.append(_oracle_finding(
          "chain", "LostBytes", x,
          "unparsed layer keeps neither .raw nor a bytes payload"))
    x = nxt
  chain = "/".join(names)

  # -- the accessors pox's own handlers use on a parse result --------------
  state["op"] = "access"
  for what, fn in (("effective_ethertype", lambda: p.effective_ethertype),
                   ("find", lambda: (p.find("ipv4"), p.find("lldp"),
                                     p.find("arp"), p.find("tcp")))):
    try:
      fn()
    except Exception as e:
      f = _finding("access", e)
      if not any(y["id"] == f["id"] for y in out):
        out.append(f)
  # -- print ---------------------------------------------------------------
  state["op"] = "str"
  for L in layers:
    try:
      s = str(L)
      if not isinstance(s, str):
        out.append(_oracle_finding("str", "NotStr", L, "str() gave non-str"))
    except Exception as e:
      f = _finding("str", e)
      if not any(y["id"] == f["id"] for y in out):
        out.append(f)
  state["op"] = "dump"
  try:
    p.dump()
  except Exception as e:
    f = _finding("dump", e)
    # dump() prints every layer with str(); a layer whose str() raises has
    # already been reported under the operation 'str' -- one defect, one id
    if not any(y["op"] == "str" and y["id"] == f["id"].replace(
        "C15-dump-", "C15-str-", 1) for y in out):
      out.append(f)
  # -- re-serialise --------------------------------------------------------
  state["op"] = "pack"
  try:
    w = p.pack()
    if not isinstance(w, bytes):
      out.append(_oracle_finding("pack", "NotBytes", p,
                                 "pack() returned %s" % type(w).__name__))
  except Exception as e:
    out.append(_finding("pack", e))
  state["op"] = "done"
  return chain, out


def _traced_case(b):
  """Re-run a case under a deterministic line budget.  Returns
  (chain, findings); a budget overrun is a finding 'Hang'."""
  state = {}
  n = [0]
  last = [("?", "?", 0)]

  def tracer(frame, event, arg):
    if event == "line":
      n[0] += 1
      if n[0] > LINE_BUDGET:
        f = frame
        while f is not None:
          co = f.f_code
          if _PKT_DIR in co.co_filename:
            last[0] = (os.path.basename(co.co_filename)[:-3],
                       getattr(co, "co_qualname", co.co_name), f.f_lineno)
            break
          f = f.f_back
        raise _Budget()
    return tracer

  sys.settrace(tracer)
  try:
    chain, fs = run_case(b, state)
    return chain, fs
  except _Budget:
    fil, func, line = last[0]
    op = state.get("op", "parse")
    return "!hang", [{"id": "C15-%s-Hang-%s-%s" % (op, fil, func), "op": op,
                      "exc": "Hang", "file": fil + ".py", "func": func,
                      "line": line,
                      "msg": "more than %d traced lines" % LINE_BUDGET}]
  finally:
    sys.settrace(None)


def _on_vtalrm(signum, frame):
  raise _Hang()


def guarded_case(b, direct=False):
  """run_case under the CPU alarm; on alarm, deterministic traced re-run."""
  signal.setitimer(signal.ITIMER_VIRTUAL, CASE_CPU_S, 1.0)
  try:
    try:
      return run_case(b, None, direct)
    finally:
      signal.setitimer(signal.ITIMER_VIRTUAL, 0)
  except _Hang:
    signal.setitimer(signal.ITIMER_VIRTUAL, 0)
    return _traced_case(b)


# ---------------------------------------------------------------------------
# the canonical case list and its partition into chunks
# ---------------------------------------------------------------------------

def qvalues(name, k, orig):
  """the quick tier's replacement values for offset k (without the original
  value): 0x00, 0xff, low-bit flip, high-bit flip, two fixed pseudo-random"""
  vs = [0x00, 0xff, orig ^ 0x01, orig ^ 0x80,
        mix("C15v", name, k, 1) & 0xff, mix("C15v", name, k, 2) & 0xff]
  out = []
  for v in vs:
    if v != orig and v not in out:
      out.append(v)
  return out


def step_values(name, k, spec):
  orig = corpus()[name][k]
  if spec == "q":
    return qvalues(name, k, orig)
  if spec == "all":
    return [v for v in range(256) if v != orig]
  return [int(v) for v in spec]


_UNITS = {}


def _l3_of(f):
  """(kind, offset of the layer-3 header) of an Ethernet frame, looking
  through 802.1Q tags; None when it is neither IPv4 nor IPv6"""
  if len(f) < 14:
    return None
  et = (f[12] << 8) | f[13]
  off = 14
  while et == 0x8100 and len(f) >= off + 4:
    et = (f[off + 2] << 8) | f[off + 3]
    off += 4
  if et == 0x0800 and len(f) >= off + 20 and f[off] >> 4 == 4 \
      and (f[off] & 0xf) >= 5 and len(f) >= off + (f[off] & 0xf) * 4:
    return ("ip4", off)
  if et == 0x86dd and len(f) >= off + 40:
    return ("ip6", off)
  return None


def inner_len(f):
  """bytes of layer-3 payload in a frame (0 when not IPv4 / IPv6)"""
  l3 = _l3_of(f)
  if l3 is None:
    return 0
  kind, off = l3
  hl = (f[off] & 0xf) * 4 if kind == "ip4" else 40
  return max(0, len(f) - off - hl)


def inner_cut(name, f, k):
  """the frame with its layer-3 payload shortened to k bytes and every
  length that describes it made to agree (IP total / payload length, header
  checksum, the UDP length of a directly following UDP header, and the
  frame's registered checksum fix): a short but self-consistent datagram, as
  opposed to a truncated frame"""
  kind, off = _l3_of(f)
  if kind == "ip4":
    hl = (f[off] & 0xf) * 4
    b = bytearray(f[:off + hl + k])
    b[off + 2:off + 4] = _be16(hl + k)
    b[off + 10:off + 12] = b"\0\0"
    b[off + 10:off + 12] = _be16(F.csum(bytes(b[off:off + hl])))
    proto, l4 = f[off + 9], off + hl
    frag = ((f[off + 6] << 8) | f[off + 7]) & 0x3fff
  else:
    b = bytearray(f[:off + 40 + k])
    b[off + 4:off + 6] = _be16(k)
    proto, l4, frag = f[off + 6], off + 40, 0
  if proto == 17 and not frag and k >= 8:
    b[l4 + 4:l4 + 6] = _be16(k)
  return apply_fix(name, bytes(b))


def units(tier):
  """ordered list of (frame, mode, offset, cost) of the tier's enumerable
  space; cost = number of cases of the unit"""
  if tier in _UNITS:
    return _UNITS[tier]
  C = corpus()
  Mt = corpus_meta()
  out = []
  for name in sorted(C):
    f = C[name]
    n = len(f)
    modes = [("trunc", "byte")]
    if Mt[name]["fix"]:
      modes.append(("truncfix", "bytefix"))
    for tm, bm in modes:
      for k in range(n + 1 if tm == "trunc" else n):
        out.append((name, tm, k, 1))
      for k in range(n):
        c = len(qvalues(name, k, f[k])) if tier == "quick" else 255
        out.append((name, bm, k, c))
    for k in range(inner_len(f)):
      out.append((name, "innercut", k, 1))
  _UNITS[tier] = out
  return out


def space_size(tier):
  return sum(u[3] for u in units(tier))


def chunk_steps(tier, chunk, nchunks):
  """plan steps of chunk `chunk` of `nchunks` (contiguous, by cost)"""
  us = units(tier)
  total = sum(u[3] for u in us)
  lo = chunk * total // nchunks
  hi = (chunk + 1) * total // nchunks
  steps = []
  acc = 0
  spec = "q" if tier == "quick" else "all"
  for name, mode, k, c in us:
    start = acc
    acc += c
    if start < lo:
      continue
    if start >= hi:
      break
    last = steps[-1] if steps else None
    if last and last["frame"] == name and last["mode"] == mode \
        and last["range"][1] == k:
      last["range"][1] = k + 1
    else:
      st = {"frame": name, "mode": mode, "range": [k, k + 1]}
      if mode in ("byte", "bytefix"):
        st["values"] = spec
      steps.append(st)
  return steps


_INDEX = {}


def _index_of(seed):
  """The driver derives the plan seed of run i as mix(base_seed, PROP, i) and
  does not pass i.  The mapping is inverted by table so that run i can take
  chunk i exactly; an unknown seed (other driver, other range) returns None
  and the caller falls back to seed % nchunks."""
  if not _INDEX:
    env = os.environ.get("VERIF_SEED", "0")
    try:
      base = int(env)
    except ValueError:
      base = mix(env)
    for i in range(max(BUDGET.values()) * 2 + 64):
      _INDEX[mix(base, PROP, i)] = i
  return _INDEX.get(seed)


def gen_plan(seed, tier):
  nch = BUDGET[tier]
  i = _index_of(seed)
  chunk = (i if i is not None else seed) % nch
  steps = chunk_steps(tier, chunk, nch)
  steps.append({"mode": "random", "seed": mix(seed, "rnd"),
                "range": [0, RANDOM_PER_RUN[tier]]})
  # the in-system half: one scenario of hostile frames travelling through a
  # running network (checks/c15n.py)
  from checks import c15n
  steps.append(c15n.gen_step(seed, tier, sorted(corpus())))
  return {"prop": PROP, "seed": seed,
          "cfg": {"tier": tier, "complete_chunk": [chunk, nch],
                  "index_exact": i is not None},
          "steps": steps}


# ---------------------------------------------------------------------------
# random damage
# ---------------------------------------------------------------------------

_ETYPES = [0x0800, 0x0806, 0x8035, 0x8100, 0x88cc, 0x888e, 0x8847, 0x8848,
           0x86dd, 0x0026, 0x05dc, 0x0003, 0x9100, 0x88b5]
_EXTREMES = [0, 1, 2, 3, 4, 5, 6, 7, 8, 0x0f, 0x10, 0x3f, 0x40, 0x7f, 0x80,
             0xc0, 0xfe, 0xff]


# ---------------------------------------------------------------------------
# grammar-built frames: containers whose repeated elements (options, TLVs,
# records, extension headers, label/tag stacks) are drawn at random, with
# repetition of the same element type and boundary lengths.  The corpus damage
# above changes one place of a fixed frame; conditions met only by a particular
# *sequence* of elements (the same option twice, a total above 255, a pointer
# to a later name, a full option space) are reached from here.  Two frames in
# three are well-formed throughout (so the parsers run to the end and pack()
# sees every element); the rest also draw illegal lengths, counts and pointers.
# ---------------------------------------------------------------------------

_LENS = [0, 1, 2, 3, 4, 6, 8, 16, 40, 100, 128, 200, 254, 255]
_DHCP_CODES = [1, 3, 6, 12, 15, 43, 50, 51, 53, 54, 55, 56, 60, 61, 77, 81, 82]


def _g_dhcp_opts(r, budget, hostile):
  codes = [r.pick(_DHCP_CODES) for _ in range(r.randint(1, 3))]
  out = b""
  for _ in range(r.randint(0, 7)):
    n = r.pick(_LENS)
    if len(out) + 2 > budget:
      break
    n = max(0, min(n, budget - len(out) - 2))
    k = r.wpick([(6, r.pick(codes)), (1, 0), (1, r.randrange(1, 255))])
    if k == 0:
      out += b"\0"
      continue
    if k == 52:
      k = 53
    out += _dopt(k, r.randbytes(n))
    if hostile and r.chance(0.1):
      if r.chance(0.5) or not n:
        out = out[:-1]
      else:
        out = out[:-n - 1] + bytes([min(n + 3, 255)]) + out[-n:]
  return out


def _g_dhcp(r, hostile):
  over = r.wpick([(5, 0), (1, 1), (1, 2), (1, 3)])
  opts = bytes([53, 1, r.randint(1, 8)]) if r.chance(0.7) else b""
  if over:
    opts += bytes([52, 1, over])
  opts += _g_dhcp_opts(r, 700, hostile)
  if r.chance(0.85):
    opts += b"\xff"
  sname = filef = b""
  if over & 2:
    sname = _g_dhcp_opts(r, 62, hostile) + (b"\xff" if r.chance(0.7) else b"")
  if over & 1:
    filef = _g_dhcp_opts(r, 126, hostile) + (b"\xff" if r.chance(0.7) else b"")
  op = r.pick([1, 2])
  return _eudp(68 if op == 1 else 67, 67 if op == 1 else 68,
               _dhcp(op, opts, sname=sname[:64], filef=filef[:128]))


def _g_mptcp(r):
  st = r.pick([0, 1, 2, 2, 3, 4, 5, 6, 7, 15])
  if st == 0:
    n = r.pick([12, 20])
    return bytes([30, n, 0x00, r.pick([0x81, 0x01])]) + r.randbytes(n - 4)
  if st == 1:
    n = r.pick([12, 16, 24])
    return bytes([30, n, 0x10 | r.randrange(2), r.randrange(256)]) \
        + r.randbytes(n - 4)
  if st == 2:
    fl = r.pick([0x00, 0x01, 0x03, 0x04, 0x05, 0x0c, 0x0f, 0x07, 0x1d])
    n = 4
    if fl & 1:
      n += 8 if fl & 2 else 4
    if fl & 4:
      n += (8 if fl & 8 else 4) + 8
    return bytes([30, n, 0x20, fl]) + r.randbytes(n - 4)
  n = r.pick([3, 4, 8, 10, 16])
  return bytes([30, n, (st << 4) | r.randrange(16)]) + r.randbytes(n - 3)


def _g_tcpopts(r, hostile):
  out = b""
  fill = r.chance(0.4)          # aim at a completely full option space
  for _ in range(r.randint(0, 6) if not fill else 40):
    k = r.pick([0, 1, 1, 2, 3, 4, 5, 8, 30, 30, 30, 99, 253, r.randrange(9, 256)])
    if k == 0 and fill:
      k = 1
    if k in (0, 1):
      o = bytes([k])
    elif k == 30:
      o = _g_mptcp(r)
    else:
      std = {2: 4, 3: 3, 4: 2, 8: 10}.get(k)
      if k == 5:
        std = 2 + 8 * r.randint(1, 4)
      ln = std if std is not None else r.pick([2, 3, 4, 6, 8, 18, 38, 40])
      if hostile and r.chance(0.2):
        ln = r.randint(0, 12)
      o = bytes([k, ln]) + r.randbytes(max(ln - 2, 0))
    if len(out) + len(o) > 40:
      if not fill:
        break
      o = b"\x01" * (40 - len(out))
      if not o:
        break
    out += o
    if k == 0:
      break
  if hostile and r.chance(0.3):
    out = out[:r.randrange(len(out) + 1)]
  return out[:40]


def _g_tcp(r, hostile):
  if r.chance(0.15):
    # a bare segment whose header ends flush in a two-byte option (length
    # byte 2, nothing behind it: no value, no padding, no payload)
    kind = r.pick([4, 30, 30, 30, 2, 3, 5, 8, 99, 254, r.randrange(2, 256)])
    pre = r.pick([b"\x01\x01", b"\x02\x04\x05\xb4\x01\x01",
                  b"\x01\x01\x01\x01\x01\x01"])
    opts = pre + bytes([kind, 2])
    if r.chance(0.3):
      return _e6(6, _tcp6(opts, payload=b""))
    return _eip(6, _tcp(opts, payload=b"", flags=r.pick([0x02, 0x10, 0x12])))
  if r.chance(0.3):
    return _e6(6, _tcp6(_g_tcpopts(r, hostile)))
  return _eip(6, _tcp(_g_tcpopts(r, hostile),
                      payload=r.randbytes(r.pick([0, 1, 20]))))


def _g_ip4opts(r, hostile):
  out = b""
  for _ in range(r.randint(1, 6)):
    k = r.pick([0, 1, 1, 7, 68, 131, 137, 148, r.randrange(2, 256)])
    if k == 0:
      break
    if k == 1:
      out += bytes([k])
    else:
      ln = r.pick([2, 3, 4, 7, 11, 39, 40])
      if hostile and r.chance(0.3):
        ln = r.pick([0, 1, 41, 255])
      out += bytes([k, ln]) + r.randbytes(max(min(ln, 40) - 2, 0))
    if len(out) >= 40:
      break
  out = out[:40]
  out += b"\0" * ((-len(out)) % 4)
  proto, pay = r.pick([(17, _udp(1234, 4321, b"abcd")),
                       (2, _igmp(0x11, 0, struct.pack("!I", 0))),
                       (1, struct.pack("!BBHHH", 8, 0, 0xf7ff, 0, 0)),
                       (6, _tcp(b"", payload=b""))])
  return F.eth(M2, M1, F.ETH_IP, _ip4(proto, pay, options=out))


def _g_lldp(r, hostile):
  def ident(t):
    st = r.randint(1, 7) if not hostile else r.randint(0, 9)
    n = r.pick([1, 4, 6, 6, 16, 255])
    if st == 4 or (t == 2 and st == 3):
      n = 6
    if st == 5:
      # network address: a family octet and an address -- of the length the
      # family calls for, or (a sloppy or hostile sender) of any other
      n = r.pick([5, 17, 5, 17, 1, 4, 8, 17, 255])
      fam = 1 if n == 5 else 2
      if r.chance(0.4):
        fam = r.pick([1, 1, 2, 6, 0])
      return _tlv(t, bytes([st, fam]) + r.randbytes(n - 1))
    return _tlv(t, bytes([st]) + r.randbytes(n))
  tl = [ident(1), ident(2), _tlv(3, r.randbytes(2))]
  if hostile and r.chance(0.5):
    del tl[r.randrange(3)]
  for _ in range(r.randint(0, 8)):
    t = r.pick([4, 5, 6, 7, 8, 8, 9, 50, 126, 127, 127])
    if t == 7:
      v = r.randbytes(4)
    elif t == 8:
      al = r.pick([1, 5, 7, 17, 31])
      ol = r.pick([0, 0, 1, 9, 128])
      v = (bytes([al, r.pick([1, 2, 6, 0])]) + r.randbytes(al - 1)
           + bytes([r.randint(1, 3)]) + r.randbytes(4) + bytes([ol])
           + r.randbytes(ol))
    elif t == 127:
      v = r.randbytes(3) + bytes([r.randrange(256)]) + r.randbytes(
        r.pick([0, 1, 2, 9, 255, 507]))
    else:
      v = r.randbytes(r.pick([0, 1, 2, 12, 32, 255, 256, 511]))
    if hostile and r.chance(0.3):
      v = r.randbytes(r.pick([0, 1, 2, 3, 5, 9]))
      t = r.pick([0, 1, 2, 3, 7, 8, 127])
    tl.append(_tlv(t, v))
  if hostile and r.chance(0.3):
    r.shuffle(tl)
  if not hostile or r.chance(0.7):
    tl.append(_tlv(0, b""))
  return _lldp(tl)[:1514]


def _g_ndp(r, hostile):
  typ = r.pick([133, 134, 134, 135, 135, 136, 136, 137, 1, 2, 3, 4, 128, 129,
                130, 143])
  fixed = {133: 4, 134: 12, 135: 20, 136: 20, 137: 36, 1: 4, 2: 4, 3: 4, 4: 4,
           128: 4, 129: 4, 130: 20, 143: 4}[typ]
  body = r.randbytes(fixed)
  if hostile and r.chance(0.3):
    body = r.randbytes(r.randint(0, fixed + 4))
  if typ >= 133 and typ <= 137:
    for _ in range(r.randint(0, 5)):
      t = r.pick([1, 2, 3, 3, 5, 14, 24, 25, 31, 99])
      units8 = {1: 1, 2: 1, 3: 4, 5: 1}.get(t, r.pick([1, 2, 3, 31]))
      if hostile and r.chance(0.3):
        units8 = r.pick([0, 1, 2, 5, 255])
      if units8 == 0:
        body += bytes([t, 0]) + r.randbytes(r.pick([0, 6]))
        continue
      ob = r.randbytes(min(units8, 40) * 8 - 2)
      if t == 3:
        ob = bytes([r.pick([0, 1, 64, 64, 128, 129, 255])]) + ob[1:]
      body += bytes([t, units8]) + ob
  elif typ in (1, 2, 3, 4) and r.chance(0.8):
    body = body[:4] + _ip6(r.pick([17, 6, 58, 0, 43, 59]),
                           r.randbytes(r.pick([0, 4, 8, 24])))
  elif typ in (128, 129):
    body += r.randbytes(r.pick([0, 8, 56]))
  return _e6(58, _icmp6(typ, 0 if not hostile else r.randint(0, 4),
                        body[:1200]))


def _g_dnsname(r, here, hostile, first):
  out = b""
  for _ in range(r.randint(0, 4)):
    k = r.wpick([(6, "lab"), (2, "ptr"), (1 if hostile else 0, "bad")])
    if k == "lab":
      n = r.pick([1, 2, 3, 7, 63])
      alpha = b"abcxyz019-" if not hostile else b"abcxyz-_.\x00\xff"
      out += bytes([n]) + bytes(r.pick(alpha) for _ in range(n))
    elif k == "ptr":
      if hostile:
        tgt = r.pick([0, 12, 13, here, here + len(out), here + len(out) + 2,
                      r.randrange(0x3fff), 0x3fff])
      elif first is None or first >= here:
        continue
      else:
        tgt = first
      return out + struct.pack("!H", 0xc000 | (tgt & 0x3fff))
    else:
      return out + bytes([r.pick([0x40, 0x80, 0xbf])]) + r.randbytes(2)
  return out + (b"\0" if not hostile or r.chance(0.8) else b"")


def _g_dns(r, hostile):
  body = b""
  counts = []
  off = 12
  first = None
  nq = r.randint(0, 3)
  for _ in range(nq):
    nm = _g_dnsname(r, off + len(body), hostile, first)
    if first is None and nm[0:1] not in (b"\0", b"") and nm[0] < 64:
      first = off + len(body)
    body += nm + struct.pack("!HH", r.pick([1, 12, 28, 255]),
                             r.pick([1, 255, 0x8001]))
  for sect in range(3):
    n = r.randint(0, 3)
    counts.append(n)
    for _ in range(n):
      name = _g_dnsname(r, off + len(body), hostile, first)
      t = r.pick([1, 1, 2, 5, 6, 12, 15, 16, 28, 28, 33, 41, 47, 99])
      rdoff = off + len(body) + len(name) + 10
      if t == 1:
        rd = r.randbytes(4 if not hostile else r.pick([4, 0, 3, 5]))
      elif t == 28:
        rd = r.randbytes(16 if not hostile else r.pick([16, 0, 15, 17]))
      elif t in (2, 5, 12):
        rd = _g_dnsname(r, rdoff, hostile, first)
      elif t == 15:
        rd = r.randbytes(2 if not hostile else r.pick([0, 1, 2])) \
            + _g_dnsname(r, rdoff + 2, hostile, first)
      elif t == 6:
        rd = (_g_dnsname(r, rdoff, hostile, first)
              + _g_dnsname(r, rdoff, hostile, first)
              + r.randbytes(20 if not hostile else r.pick([20, 0, 19])))
      else:
        rd = r.randbytes(r.pick([0, 1, 7, 40, 255]))
      cls = r.pick([1, 1, 1, 0x8001, 255, 254])
      if r.chance(0.12):
        # RFC 2136 update / prerequisite records: no rdata at all
        rd = b""
        cls = r.pick([254, 255, 255, 1])
      rdl = len(rd)
      if hostile and r.chance(0.3):
        rdl = r.pick([0, 1, len(rd) + 1, len(rd) + 200, 0xffff])
      body += name + struct.pack("!HHIH", t, cls,
                                 r.pick([0, 300, 0xffffffff]), rdl) + rd
  if hostile and r.chance(0.4):
    counts[r.randrange(3)] += r.pick([1, 50, 0xfff0])
    counts = [c & 0xffff for c in counts]
  if hostile and r.chance(0.2):
    nq = r.pick([nq + 1, 0xffff])
  h = struct.pack("!HHHHHH", r.randrange(65536),
                  r.pick([0x0100, 0x8180, 0x8400, 0xffff, 0]), nq, *counts)
  port = r.pick([53, 53, 5353])
  if r.chance(0.25):
    return _e6(17, _udp6(port, port, (h + body)[:1200]))
  return _eudp(r.pick([port, 40000]), port, (h + body)[:1200])


def _g_igmp3(r, hostile):
  recs = b""
  n = r.randint(0, 5)
  for _ in range(n):
    ns = r.pick([0, 0, 1, 2, 3, 40])
    aux = r.pick([0, 0, 0, 1, 2, 5, 63, 64, 100, 255])
    cnt = ns
    if hostile and r.chance(0.3):
      cnt = r.pick([ns + 1, 0xffff])
    recs += struct.pack("!BBH", r.pick([1, 2, 3, 4, 5, 6, 0, 99]), aux, cnt)
    recs += struct.pack("!I", MC4) + r.randbytes(4 * ns + 4 * aux)
  cnt = n
  if hostile and r.chance(0.4):
    cnt = r.pick([n + 1, 0, 0xffff])
  if r.chance(0.3):
    ns = r.pick([0, 1, 3])
    body = (struct.pack("!I", MC4) + bytes([r.randrange(16), r.randrange(256)])
            + _be16(ns if not hostile else ns + r.pick([0, 2]))
            + r.randbytes(4 * ns))
    m = _igmp(0x11, r.randrange(256), body)
  else:
    m = _igmp(0x22, 0, struct.pack("!HH", 0, cnt) + recs[:1400])
  opts = bytes([0x94, 4, 0, 0]) if r.chance(0.6) else b""
  return F.eth(M2, M1, F.ETH_IP, _ip4(2, m, dst=MC4, ttl=1, options=opts))


def _g_ip6ext(r, hostile):
  kinds = [r.pick([0, 43, 60, 60, 44, 0, 43] + ([51, 135, 139] if hostile
                                                else []))
           for _ in range(r.randint(1, 5))]
  upper = r.pick([17, 6, 58, 59, 41, 253])
  if upper == 17:
    pay = _udp6(1234, 4321, b"data")
  elif upper == 6:
    pay = _tcp6(b"")
  elif upper == 58:
    pay = _icmp6(128, 0, struct.pack("!HH", 1, 1) + b"ping")
  elif upper == 41:
    pay = _ip6(59, b"")
  else:
    pay = r.randbytes(r.pick([0, 8]))
  chain = pay
  nh = upper
  for k in reversed(kinds):
    if k == 44:
      h = _frag6(nh, off=r.pick([0, 0, 1, 100]), more=r.chance(0.3))
    elif k == 51:
      n = r.pick([1, 2, 4])
      h = bytes([nh, n, 0, 0]) + r.randbytes(4 * (n + 2) - 4)
    else:
      body = b""
      for _ in range(r.randint(0, 4)):
        t = r.pick([0, 1, 1, 5, 0xc2, 0x63, 0xff])
        if t == 0:
          body += b"\0"
        else:
          ln = r.pick([0, 1, 2, 4, 6, 14])
          dl = ln
          if hostile and r.chance(0.3):
            dl = r.pick([ln + 1, 255])
          body += bytes([t, dl]) + r.randbytes(ln)
      if k == 43:
        n = r.pick([0, 1, 2])
        body = bytes([r.pick([0, 2, 3, 4]), n]) + r.randbytes(4 + 16 * n)
      h = _ext(nh, body)
      if hostile and r.chance(0.3):
        h = bytes([h[0], r.pick([0, h[1] + 1, 255])]) + h[2:]
    chain = h + chain
    nh = k
  return _e6(nh, chain[:1300])


def _g_stack(r, hostile):
  inner_t, inner = r.pick([
    (0x0800, _ip4(17, _udp(1, 2, b"x"))), (0x86dd, _ip6(59, b"")),
    (0x0806, F.arp(1, M1, A1, b"\0" * 6, A2)),
    (0x88cc, _tlv(1, b"\x04" + M1) + _tlv(2, b"\x02p1") + _tlv(3, b"\0\x78")
     + _tlv(0, b"")),
    (0x0026, b"\x42\x42\x03" + b"\0" * 35)])
  kind = r.pick(["vlan", "mpls", "mixed"])
  out = inner
  et = inner_t
  # mostly a few levels; sometimes as many as fit a 1514-byte frame
  depth = r.wpick([(8, r.randint(1, 6)), (1, r.randint(7, 120)),
                   (1, r.randint(300, 375))])
  if kind == "mpls" or (kind == "mixed" and r.chance(0.5)):
    lab = b""
    for i in range(depth):
      s_bit = 1 if i == depth - 1 else 0
      if hostile and r.chance(0.2):
        s_bit ^= 1
      lab += _mpls(r.pick([0, 1, 2, 3, 16, 0xfffff]), r.randrange(8), s_bit,
                   r.pick([0, 1, 64, 255]))
    out = lab + (out if inner_t in (0x0800, 0x86dd) else r.randbytes(4))
    et = r.pick([0x8847, 0x8848])
    depth = r.randint(0, 2) if kind == "mixed" else 0
  if kind != "mpls":
    for _ in range(depth):
      tci = (r.randrange(8) << 13) | (r.randrange(2) << 12) | r.pick(
        [0, 1, 100, 4095])
      out = _be16(tci) + _be16(et if et >= 0x600 else len(out)) + out
      et = 0x8100 if depth > 6 else r.pick([0x8100, 0x8100, 0x8100, 0x88a8,
                                            0x9100])
  if et < 0x600:
    et = len(out)
  return F.eth(M2, M1, et, out)


def _g_rip(r, hostile):
  n = r.pick([0, 1, 2, 25]) if not hostile else r.pick([0, 1, 26, 40])
  ents = [(r.pick([2, 2, 0, 0xffff, 0xffff, 10]),
           r.pick([0, 1, 2, 2, 3, r.randrange(65536)]),
           r.randrange(2**32),
           r.pick([0, 0xffffff00, 0xffffffff, 0x00ffff00]), r.randrange(2**32),
           r.pick([0, 1, 15, 16, 17, 2**32 - 1])) for _ in range(n)]
  body = _rip(r.pick([1, 2, 2]) if not hostile else r.pick([3, 0, 9]),
              r.pick([1, 2, 2]) if not hostile else r.pick([0, 3]), ents)
  if hostile and r.chance(0.5) and len(body) > 24:
    body = body[:len(body) - r.randint(1, 19)]
  return _eudp(520, 520, body)


_KNOWN_TYPES = [0x0800, 0x0806, 0x8035, 0x8100, 0x86dd, 0x8847, 0x8848,
                0x88cc, 0x888e, 0x6558, 0x88a8, 0x9100, 0x0026, 0x05dc]


def _g_gre(r, hostile):
  """GRE with every flag combination and every payload type a tunnel
  carries"""
  flags = 0
  kw = {}
  if r.chance(0.3):
    flags |= 0x2000
    kw["key"] = r.randrange(2**32)
  if r.chance(0.3):
    flags |= 0x1000
    kw["seq"] = r.randrange(2**32)
  if r.chance(0.2):
    flags |= 0x8000
    kw["with_csum"] = True
  if hostile:
    flags |= r.pick([0, 0x4000, 0x0800, 0x0007, 0x00f8])
  proto = r.pick(_KNOWN_TYPES + [r.randrange(65536)])
  inner = r.pick([
    _ip4(17, _udp(1234, 4321, b"tunnelled")),
    _ip6(17, _udp6(1234, 4321, b"tunnelled")),
    _ip6(58, _icmp6(128, 0, struct.pack("!HH", 1, 1) + b"ping")),
    F.eth(M2, M1, F.ETH_IP, _ip4(17, _udp(1, 2, b"x"))),
    _mpls(16, 0, 1, 64) + _ip4(17, _udp(1, 2, b"x")),
    b"", r.randbytes(r.pick([1, 3, 20]))])
  if hostile and r.chance(0.5):
    inner = inner[:r.randrange(len(inner) + 1)]
  return _eip(47, _gre(flags, proto, inner, **kw))


def _g_nest(r, hostile):
  """headers nested as deep as the frame is long: runs of VLAN tags broken
  up by SNAP headers, tunnels in tunnels, ICMP errors quoting ICMP errors --
  up to jumbo-frame sizes (a packet_in can carry 64 KiB)"""
  size = r.wpick([(3, 400), (4, 1514), (2, 4000), (3, 9000), (1, 20000)])
  mix_ = r.pick([["vlansnap"], ["vlansnap"], ["gre"], ["greeth"], ["unreach"],
                 ["vxlan"], ["unreach6"],
                 ["gre", "unreach", "vxlan", "greeth"]])
  v6 = mix_ == ["unreach6"]
  cur = _ip6(17, _udp6(1, 2, b"x")) if v6 else _ip4(17, _udp(1, 2, b"x"))
  if hostile and r.chance(0.5):
    cur = r.randbytes(r.pick([0, 1, 8, 20]))
  if mix_ == ["vlansnap"]:
    et, out = (0x86dd if v6 else 0x0800), cur
    while len(out) + 14 + 72 <= size:
      for _ in range(r.pick([1, 3, 15, 15, 16, 17])):
        out = _be16(r.pick([0, 1, 100, 4095])) + _be16(et) + out
        et = 0x8100
      out = b"\xaa\xaa\x03\0\0\0" + _be16(et) + out
      out = _be16(1) + _be16(min(len(out), 1500)) + out
      et = 0x8100
    return F.eth(M2, M1, et, out)
  while True:
    k = r.pick(mix_)
    if k == "gre":
      new = _ip4(47, _gre(0, 0x0800, cur))
    elif k == "greeth":
      new = _ip4(47, _gre(0, 0x6558, F.eth(M2, M1, F.ETH_IP, cur)))
    elif k == "unreach":
      new = _ip4(1, F.icmp(3, r.pick([0, 1, 3, 4]), b"\0\0\0\0" + cur))
    elif k == "vxlan":
      new = _ip4(17, _udp(4789, 4789, struct.pack("!II", 0x08000000, 7 << 8)
                          + F.eth(M2, M1, F.ETH_IP, cur)))
    else:
      new = _ip6(58, _icmp6(1, 0, b"\0\0\0\0" + cur))
    if len(new) + 14 > size:
      break
    cur = new
  return F.eth(M2, M1, 0x86dd if v6 else F.ETH_IP, cur)


_GRAMMARS = [("nest", _g_nest), ("gre", _g_gre), ("dhcp", _g_dhcp), ("tcpopt", _g_tcp), ("ip4opt", _g_ip4opts),
             ("lldp", _g_lldp), ("ndp", _g_ndp), ("dns", _g_dns),
             ("igmp3", _g_igmp3), ("ip6ext", _g_ip6ext), ("stack", _g_stack),
             ("rip", _g_rip)]


def grammar_case(r):
  name, fn = r.pick(_GRAMMARS)
  hostile = r.chance(0.33)
  b = fn(r, hostile)
  if name != "nest":
    b = b[:1514]
  return b, name + ("!" if hostile else "")


def random_case(stepseed, j):
  """(frame bytes, description) of random case j of a random step"""
  r = Rng(mix(stepseed, j))
  C = corpus()
  names = sorted(C)
  kind = r.wpick([(5, "multi"), (4, "extreme"), (3, "insdel"), (3, "splice"),
                  (3, "truncbyte"), (3, "tail"), (2, "typed"), (2, "bytes"),
                  (6, "grammar")])
  if kind == "grammar":
    b, g = grammar_case(r)
    return b, "grammar/" + g
  name = r.pick(names)
  f = bytearray(C[name])
  fix = False
  if kind == "multi":
    for _ in range(r.randint(2, 5)):
      f[r.randrange(len(f))] = r.randrange(256)
    fix = r.chance(0.5)
  elif kind == "extreme":
    for _ in range(r.randint(1, 3)):
      k = r.randrange(14, len(f)) if len(f) > 14 else r.randrange(len(f))
      if r.chance(0.5) and k + 1 < len(f):
        v = r.pick([0, 1, 7, 8, 20, 28, 0xff, 0x100, 0x1ff, 0x7fff, 0x8000,
                    0xfffe, 0xffff, len(f), len(f) - k, len(f) - k - 1]
                   + _KNOWN_TYPES)
        f[k] = (v >> 8) & 0xff
        f[k + 1] = v & 0xff
      else:
        f[k] = r.pick(_EXTREMES)
    fix = r.chance(0.5)
  elif kind == "insdel":
    a = r.randrange(len(f) + 1)
    if r.chance(0.5):
      b = min(len(f), a + r.randint(1, 12))
      del f[a:b]
    else:
      ins = (r.randbytes(r.randint(1, 12)) if r.chance(0.5)
             else bytes(f[a:a + r.randint(1, 12)]))
      f[a:a] = ins
    fix = r.chance(0.3)
  elif kind == "splice":
    g = C[r.pick(names)]
    a = r.randrange(len(f) + 1)
    b = r.randrange(len(g) + 1)
    f = bytearray(bytes(f[:a]) + g[b:])
  elif kind == "truncbyte":
    k = r.randrange(1, len(f) + 1)
    del f[k:]
    f[r.randrange(len(f))] = r.randrange(256)
    fix = r.chance(0.5)
  elif kind == "tail":
    k = r.randrange(12, len(f) + 1) if len(f) > 12 else len(f)
    f = bytearray(bytes(f[:k]) + r.randbytes(r.randint(0, 60)))
  elif kind == "typed":
    f = bytearray(M2 + M1 + _be16(r.pick(_ETYPES))
                  + r.randbytes(r.randint(0, 120)))
    name = "-"
  else:
    f = bytearray(r.randbytes(r.wpick([(1, 0), (2, r.randint(1, 13)),
                                       (6, r.randint(14, 200))])))
    name = "-"
  b = bytes(f[:400])
  if fix and name != "-":
    b = apply_fix(name, b)
  return b, "%s/%s%s" % (kind, name, "/fix" if fix else "")


# ---------------------------------------------------------------------------
# plan execution
# ---------------------------------------------------------------------------

def iter_cases(step):
  """yield (case id, group, frame name or None, bytes, (mode, offset, value))
  for every case of a plan step, in canonical order"""
  mode = step["mode"]
  lo, hi = step["range"]
  if mode == "random":
    for j in range(lo, hi):
      b, what = random_case(step["seed"], j)
      yield ("rnd:%d:%d" % (step["seed"], j), "random", None, b,
             ("random:" + what, j, None))
    return
  name = step["frame"]
  f = corpus()[name]
  if mode in ("trunc", "truncfix"):
    for k in range(lo, min(hi, len(f) + 1)):
      b = f[:k]
      if mode == "truncfix":
        b = apply_fix(name, b)
      yield ("%s:%s:%d" % (name, mode, k), "trunc", name, b, (mode, k, None))
  elif mode == "innercut":
    for k in range(lo, min(hi, inner_len(f))):
      yield ("%s:%s:%d" % (name, mode, k), "trunc", name,
             inner_cut(name, f, k), (mode, k, None))
  elif mode in ("byte", "bytefix"):
    for k in range(lo, min(hi, len(f))):
      for v in step_values(name, k, step.get("values", "q")):
        b = f[:k] + bytes([v]) + f[k + 1:]
        if mode == "bytefix":
          b = apply_fix(name, b)
        yield ("%s:%s:%d:%d" % (name, mode, k, v), "byte", name, b,
               (mode, k, v))
  else:
    raise ValueError("unknown step mode %r" % (mode,))


def run_plan(plan):
  logging.disable(logging.CRITICAL)
  signal.signal(signal.SIGVTALRM, _on_vtalrm)
  known = load_known(PROP)
  h = hashlib.sha256()
  stats = {}
  probes = {}
  extra = {"cases": 0, "cases_trunc": 0, "cases_byte": 0, "cases_random": 0}
  hit_known = set()
  unknown = []          # (finding, case id, descr, bytes) first per id
  unknown_ids = {}
  pristine = {}
  nontrivial = False
  ncase = 0

  def bump(d, k, n=1):
    d[k] = d.get(k, 0) + n

  insitu = [st for st in plan["steps"]
            if isinstance(st, dict) and st.get("mode") == "insitu"]
  for step in plan["steps"]:
    if not isinstance(step, dict) or step.get("mode") == "insitu":
      continue
    bump(probes, "mode_" + step["mode"], 0)
    for cid, group, name, b, descr in iter_cases(step):
      ncase += 1
      extra["cases"] += 1
      extra["cases_" + group] += 1
      bump(probes, "mode_" + step["mode"])
      chain, fs = guarded_case(b, direct=(ncase % 8 == 0))
      if group == "random" and descr[0].startswith("random:grammar/"):
        g = descr[0][15:]
        bump(probes, "grammar_" + g.rstrip("!")
             + ("_hostile" if g.endswith("!") else ""))
        if not g.endswith("!") and "-" not in chain:
          bump(probes, "grammar_wellformed_fully_parsed")
      if name is not None:
        if name not in pristine:
          pristine[name] = run_case(corpus()[name])[0]
        if chain != pristine[name]:
          bump(probes, "chain_changed")
          nontrivial = True
        if descr[0] == "trunc" and descr[1] == len(corpus()[name]) and not fs:
          bump(probes, "pristine_ok")
      if "-" in chain or chain.startswith("!"):
        bump(probes, "early_stop")
        nontrivial = True
      bump(probes, "layers_total", chain.count("/") + 1)
      if fs:
        bump(stats, "cases_raising")
      ids = []
      for f in fs:
        ids.append(f["id"])
        bump(stats, "raise_" + f["op"])
        bump(extra, "sig:" + f["id"])
        if f["id"] in known:
          hit_known.add(f["id"])
        elif f["id"] not in unknown_ids:
          unknown_ids[f["id"]] = len(unknown)
          unknown.append((f, cid, descr, b))
      h.update(("%s|%s|%s\n" % (cid, chain, ",".join(ids))).encode())

  # in-system scenarios last: they install the simulator's seams in this
  # (forked, single-use) process
  sim_time = 0.0
  for step in insitu:
    from checks import c15n
    bump(probes, "mode_insitu")
    try:
      fs, pr, stt, dig, st_, nfr = c15n.run(step, calm=plan.get("calm", False))
    finally:
      logging.disable(logging.CRITICAL)
    sim_time += st_
    extra["cases_insitu"] = extra.get("cases_insitu", 0) + nfr
    ncase += nfr
    for k, v in pr.items():
      bump(probes, "insitu_" + k if not k.startswith("insitu_") else k, v)
    for k, v in stt.items():
      if k.startswith(("wire_", "switch_rx", "egress_", "control_")):
        bump(stats, k, v)
    if nfr:
      nontrivial = True
    ids = []
    for f in fs:
      ids.append(f["id"])
      bump(stats, "raise_insitu_" + f["op"])
      bump(extra, "sig:" + f["id"])
      if f["id"] in known:
        hit_known.add(f["id"])
      elif f["id"] not in unknown_ids:
        unknown_ids[f["id"]] = len(unknown)
        unknown.append((f, "insitu:%d" % step["seed"],
                        ("insitu", f.get("where"), None),
                        bytes.fromhex(f.get("frame_hex", ""))))
    h.update(("insitu|%s|%s\n" % (dig, ",".join(ids))).encode())

  extra["tier_" + str(plan.get("cfg", {}).get("tier", "quick"))] = 1
  cc = plan.get("cfg", {}).get("complete_chunk")
  if cc and cc[1] == BUDGET.get(plan["cfg"].get("tier"), -1) \
      and not plan.get("narrowed"):
    extra["chunk_%d" % cc[0]] = 1
  res = {"verdict": "ok", "digest": h.hexdigest()[:32], "stats": stats,
         "probes": probes, "extra": extra, "nontrivial": nontrivial,
         "sim_time": sim_time, "steps": ncase, "known": sorted(hit_known)}
  if unknown:
    f, cid, descr, b = unknown[0]
    res["verdict"] = "violation"
    res["vclass"] = f["id"]
    res["detail"] = {
      "case": cid, "frame": cid.split(":")[0] if not cid.startswith("rnd:")
      else None, "mode": descr[0], "offset": descr[1], "value": descr[2],
      "operation": f["op"], "exception": f["exc"], "message": f["msg"],
      "raised_in": "%s:%d %s" % (f["file"], f["line"], f["func"]),
      "other_unknown_findings_in_batch": [
        {"id": g["id"], "case": c, "at": "%s:%d" % (g["file"], g["line"]),
         "message": g["msg"][:80]} for g, c, _, _ in unknown[1:40]],
      "frame_len": len(b), "frame_hex": b[:200].hex(),
    }
  return res


# ---------------------------------------------------------------------------
# minimisation and evidence
# ---------------------------------------------------------------------------

def minimise_hint(plan):
  """candidates that halve one step's offset range or value list, so that a
  failing batch shrinks to one (frame, offset, value)"""
  out = []
  steps = plan.get("steps", [])
  for i, st in enumerate(steps):
    if not isinstance(st, dict):
      continue
    lo, hi = st["range"]
    if st["mode"] not in ("random", "insitu"):
      hi = min(hi, len(corpus()[st["frame"]])
               + (1 if st["mode"] in ("trunc", "truncfix") else 0))
    if hi - lo > 1:
      mid = (lo + hi) // 2
      for a, b in ((lo, mid), (mid, hi)):
        c = dict(plan, narrowed=True)
        c["steps"] = steps[:i] + [dict(st, range=[a, b])] + steps[i + 1:]
        out.append(c)
    elif st["mode"] in ("byte", "bytefix") and hi - lo == 1:
      vs = step_values(st["frame"], lo, st.get("values", "q"))
      if len(vs) > 1:
        mid = len(vs) // 2
        for part in (vs[:mid], vs[mid:]):
          c = dict(plan, narrowed=True)
          c["steps"] = (steps[:i] + [dict(st, range=[lo, lo + 1], values=part)]
                        + steps[i + 1:])
          out.append(c)
  return out


def corpus_selfcheck():
  """Parse every pristine corpus frame; report which expected parser chains
  are not reached with .parsed True on this tree."""
  logging.disable(logging.CRITICAL)
  unreached = {}
  reached = set()
  for name in sorted(corpus()):
    chain, fs = run_case(corpus()[name], None, True)
    got = "/".join(x[:-1] for x in chain.split("/") if x.endswith("+"))
    for x in got.split("/"):
      if x:
        reached.add(x)
    exp = corpus_meta()[name]["expect"]
    if got != exp:
      unreached[name] = {"expected": exp, "got": chain,
                         "raises": [f["id"] for f in fs]}
  logging.disable(logging.NOTSET)
  return sorted(reached), unreached


def extra_evidence(agg):
  ex = dict(agg.extra)
  covered = sorted(int(k[6:]) for k in ex if k.startswith("chunk_"))
  tier = "thorough" if ex.get("tier_thorough") else "quick"
  nch = BUDGET[tier]
  sigs = {k[4:]: v for k, v in ex.items() if k.startswith("sig:")}
  compact = {k: v for k, v in ex.items()
             if not k.startswith(("chunk_", "sig:", "tier_"))}
  reached, unreached = corpus_selfcheck()
  complete = len(set(covered)) == nch
  return {
    "extra": compact,
    "exhaustive": bool(complete),
    "enumerated_space": {
      "tier": tier, "corpus_frames": len(corpus()),
      "corpus_bytes": sum(len(v) for v in corpus().values()),
      "cases_in_space": space_size(tier), "chunks": nch,
      "chunks_covered": len(set(covered)),
      "chunks_missing": [c for c in range(nch) if c not in set(covered)][:50],
      "complete": bool(complete),
      "note": "exhaustive refers to the enumerated sub-space (every "
              "truncation length and every offset x value set of the tier, "
              "of every corpus frame); random cases are sampled on top",
    },
    "findings_seen": dict(sorted(sigs.items())),
    "parsers_reached_on_pristine_corpus": reached,
    "corpus_frames_not_fully_parsed": unreached,
  }


def setup():
  """called once by the driver before forking: warm the caches the children
  inherit"""
  corpus()
  _load_pox()
  # (loaded before the children fork, so that install() finds their clocks)
  import pox.forwarding.l3_learning
  import pox.proto.dns_spy
  import pox.host_tracker.host_tracker
  _index_of(0)
  for t in BUDGET:
    units(t)
