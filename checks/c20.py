"""
C20 -- the send path preserves the byte stream under partial writes and
back-pressure (controller Connection.send + DeferredSender thread; switch
IOWorker.send/_do_send/send_fast).

Worlds: THREADS+CTL for the controller side (the real DeferredSender.run
loop on an engine-controlled thread, of_01.py traced at line granularity),
a minimal IO-loop world for the switch side.
"""

from simkit import sim as S
from simkit.rng import Rng, mix
from simkit.check import load_known
from worlds.threads import ThreadsWorld
from worlds.ctl import CTLWorld
from models import of10wire as W
from models import rawframe as F

PROP = "C20"
LEVEL = "exploration"
BUDGET = {"quick": 4000, "thorough": 400000}
RUN_TIMEOUT = 40
RULE = ("Each run picks a side.  Controller: 1-2 fully handshaken "
        "connections; a cooperative task queues 2-10 messages (8-6000 bytes) "
        "with Connection.send while the real DeferredSender thread flushes; "
        "each controller-side socket follows a seeded script of per-call "
        "outcomes {accept all, accept k of n, EAGAIN, fatal error}; the "
        "engine pre-empts at every traced line of of_01.py and every lock/"
        "select.  Switch: a RecocoIOWorker under the real IO loop with the "
        "same kind of script, messages queued with send / send_fast; in a "
        "sixth of the runs (swt) the worker is fed by a foreign controlled "
        "thread while the loop thread flushes, pre-empted at every line of "
        "ioworker/__init__.py, half of the sends aimed at the moment the "
        "loop is inside _do_send.  "
        "Invariant at every yield point: the bytes accepted by each socket "
        "are a prefix of the concatenation of the messages queued on it; at "
        "quiescence after the script ends they are the whole concatenation; "
        "after a fatal error the connection is reported closed exactly once.  "
        "Non-trivial = at least one short write or EAGAIN happened with a "
        "later message queued behind it; distinct = distinct event-log "
        "digest.")
ASSUMPTIONS = [
  "pre-emption at line granularity in of_01.py (ioworker/__init__.py for "
  "swt) plus every intercepted primitive; scripts are sampled, not "
  "enumerated; IOWorker.send's `send_buf += data` against _consume_send_buf's "
  "slice assignment is a read-modify-write race below line granularity in "
  "the unchanged tree and is not explored",
  "a send attempt on a socket that already failed fatally is not counted as "
  "'written' (nothing can be accepted by it)",
]
REAL = ["pox.openflow.of_01 Connection.send / disconnect, DeferredSender "
        "(send, _sliceup, run), OpenFlow_01_Task loop", "pox.lib.ioworker "
        "IOWorker.send/_do_send/_consume_send_buf, RecocoIOWorker.send_fast/"
        "close, RecocoIOLoop", "recoco scheduler"]
STUBBED = ["socket (scripted outcomes), select, pinger, time, threading "
           "primitives (simkit)", "switch peers / controller peer (scripted)"]
EXPECT_PROBES = ["side_ctl", "side_sw", "tx_script_part", "tx_script_eagain",
                 "tx_script_fatal", "deferred_used", "send_fast_used",
                 "side_swt", "send_while_flushing",
                 "exceptional_with_backlog", "ctl_overlapping_backlogs",
                 "send_from_connection_down_handler"]


def _script(r, n, fatal_ok=True):
  out = []
  for _ in range(n):
    k = r.wpick([(4, "ok"), (4, "part"), (3, "eagain"),
                 (1 if fatal_ok else 0, "fatal")])
    if k == "part":
      out.append(["part", r.randint(1, 255)])
    elif k == "fatal":
      # ECONNRESET, EPIPE, ETIMEDOUT, EHOSTUNREACH, ENETDOWN
      out.append(["fatal", r.pick([104, 32, 104, 32, 110, 113, 100])])
      break
    else:
      out.append([k])
  return out


def gen_plan(seed, tier):
  r = Rng(seed)
  side = r.wpick([(3, "ctl"), (2, "sw"), (1, "swt")])
  cfg = {"side": side}
  steps = []
  if side == "swt":
    # the switch-side worker fed from a foreign thread (IOWorker.send is
    # fire-and-forget with a pinger: made to be called from elsewhere) while
    # the IO loop flushes, pre-empted at every line of ioworker and recoco
    cfg.update({"threaded_hub": r.chance(0.3),
                "policy": r.pick(["random", "random", "pct"]),
                "switch_p": r.pick([0.1, 0.3, 0.6]),
                "pct_depth": r.randint(1, 3), "step_cap": 300000,
                "script": _script(r, r.randint(0, 8), fatal_ok=False)})
    for i in range(r.randint(2, 8)):
      steps.append({"n": r.pick([8, 9, 40, 200, 1500]),
                    "gap": r.pick([0, 0, 0, 1]), "aim": r.chance(0.5)})
    return {"prop": PROP, "seed": seed, "cfg": cfg, "steps": steps}
  if side == "ctl":
    cfg.update({"ncon": r.randint(1, 2), "threaded_hub": r.chance(0.3),
                "policy": r.pick(["random", "random", "pct"]),
                "switch_p": r.pick([0.05, 0.15, 0.3]),
                "pct_depth": r.randint(1, 3), "step_cap": 400000})
    cfg["scripts"] = [_script(r, r.randint(0, 8), fatal_ok=r.chance(0.3))
                      for _ in range(cfg["ncon"])]
    cfg["down_handler_sends"] = Rng(mix(seed, "dhs")).chance(0.5)
    cfg["dpid0"] = Rng(mix(seed, "dpid0")).chance(0.25)
    # select reports an exceptional condition (urgent data) on a connection's
    # socket right after this step's message was queued, while the deferred
    # sender holds a backlog for it: the OpenFlow task treats that as the end
    # of the connection; the stream up to then must stay a prefix
    cfg["exc_at"] = Rng(mix(seed, "ctlexc")).pick([None, None, None, None,
                                                   0, 1, 2, 4])
    for i in range(r.randint(2, 10)):
      steps.append({"con": r.randrange(cfg["ncon"]),
                    # (4096 = the deferred sender's slice size: exact
                    # multiples and their neighbours)
                    "n": r.pick([8, 9, 40, 200, 1500, 4095, 4096, 4097, 6000,
                                 8191, 8192, 8193, 12288, 16384]),
                    "gap": r.pick([0, 0, 0, 1])})
    ro = Rng(mix(seed, "overlap"))
    if ro.chance(0.12):
      # two connections with a backlog in the deferred sender at the same
      # time, one of which drains while the other's socket keeps refusing:
      # the one flag that sends every write through the sender belongs to
      # both of them
      cfg["ncon"] = 2
      cfg["down_handler_sends"] = False
      cfg["exc_at"] = None
      cfg["overlap"] = True
      a = ro.randrange(2)
      sa = [["part", ro.randint(1, 7)]] + [["ok"]] * ro.randint(0, 2)
      # (the other's first message is queued without a socket call, the flag
      # being up; its socket then refuses the sender thread's first attempt,
      # or the first few)
      sb = [["eagain"]] * ro.pick([1, 1, 1, 2, 3]) + \
          [ro.pick([["ok"], ["part", 3]])] * ro.randint(0, 2)
      cfg["scripts"] = [sa, sb] if a == 0 else [sb, sa]
      del steps[:]
      order = [a, 1 - a, 1 - a] + [ro.pick([a, 1 - a, 1 - a])
                                   for _ in range(ro.randint(1, 5))]
      for ci in order:
        steps.append({"con": ci, "n": ro.pick([8, 9, 24, 40, 200]),
                      "gap": ro.pick([0, 0, 1])})
  else:
    cfg["script"] = _script(r, r.randint(0, 10), fatal_ok=r.chance(0.3))
    cfg["recv_mode"] = "all"
    # the owner asks for an orderly shutdown of the sending side after some
    # message (what is queued by then must still go out, then SHUT_WR)
    cfg["shutdown_after"] = r.pick([None, None, None, 0, 1, 2, 4])
    # select reports an exceptional condition on the worker's socket (urgent
    # data) right after this message was queued, i.e. while it is unsent:
    # for the IO loop that is the end of the connection
    cfg["exc_after"] = Rng(mix(seed, "exc")).pick([None, None, None, None,
                                                   0, 1, 3])
    cfg["connecting"] = Rng(mix(seed, "conn")).pick([None, None, None, "ok",
                                                     "fail"])
    # ... or the peer resets the connection while a backlog waits
    cfg["rst_after"] = Rng(mix(seed, "rstb")).pick([None, None, None, 0, 1,
                                                    3])
    for i in range(r.randint(2, 12)):
      steps.append({"n": r.pick([1, 8, 40, 200, 1500, 8192, 9000]),
                    "fast": r.chance(0.4),
                    "after": r.pick(["none", "none", "settle", "advance"])})
  return {"prop": PROP, "seed": seed, "cfg": cfg, "steps": steps}


class Violation(Exception):
  def __init__(self, vclass, detail):
    Exception.__init__(self, vclass, detail)
    self.vclass = vclass
    self.detail = detail


def _payload(i, n):
  """message #i of n bytes: an echo request whose body encodes (i, offset)
  so that any loss, duplication or reordering changes the byte stream"""
  n = max(8, n)
  body = bytes(((i * 31 + k * 7) & 0xff) for k in range(n - 8))
  return W.enc_echo_request(0x4000 + i, body)


def run_plan(plan):
  cfg = plan["cfg"]
  sim = S.Sim(mix(plan["seed"], "run"), calm=plan.get("calm", False))
  S.install(sim)
  known = load_known(PROP)
  hit = []
  res = {"verdict": "ok"}
  steps = 0
  try:
    sim.probes["side_" + cfg["side"]] += 1
    if cfg["side"] == "ctl":
      steps = _drive_ctl(sim, plan, known, hit)
    elif cfg["side"] == "swt":
      steps = _drive_swt(sim, plan, known, hit)
    else:
      steps = _drive_sw(sim, plan, known, hit)
  except Violation as v:
    res.update(verdict="violation", vclass=v.vclass, detail=v.detail)
  except S.SimAbort as a:
    if a.vclass == "harness":
      res.update(verdict="error", detail=a.detail)
    else:
      res.update(verdict="violation", vclass=a.vclass, detail=a.detail)
  res["digest"] = sim.digest()
  res["sim_time"] = sim.now - S.T0
  res["steps"] = steps
  res["known"] = sorted(set(hit))
  res["stats"] = dict(sim.stats)
  res["probes"] = dict(sim.probes)
  res["nontrivial"] = bool(sim.stats.get("tx_script_part")
                           or sim.stats.get("tx_script_eagain"))
  return res


# ---------------------------------------------------------------------------
# switch side (single thread)
# ---------------------------------------------------------------------------

def _drive_sw(sim, plan, known, hit):
  import pox.lib.ioworker as IOW
  from pox.core import core
  cfg = plan["cfg"]
  sched = S.new_scheduler(sim)
  core.running = True
  loop = IOW.RecocoIOLoop()
  loop.start()
  a, b = sim.socketpair("worker-sock", "peer")
  b.recv_all = True
  worker = loop.new_worker(socket=a)
  closes = []
  at_close = []     # (send() calls, bytes accepted) when close was reported

  def on_close(w):
    closes.append(sim.now)
    at_close.append((a.send_calls, len(a.accepted)))
  worker.close_handler = on_close
  conn = cfg.get("connecting")
  connects = []
  if conn:
    # the worker is an outgoing connection still being set up (what
    # PersistentIOWorker does): the first readiness report decides whether
    # the connect worked, and the owner may have queued data already
    worker._connecting = True
    worker.connect_handler = lambda w: connects.append(sim.now)
    sim.probes["worker_connecting_" + conn] += 1
    if conn == "fail":
      first = _payload(99, 40)
      worker.send(first)
      a.inject_reset()        # the connect failed: error pending on the fd
      sim.settle()
      sim.advance(6.0)
      if a.send_calls:
        raise Violation("sw/write-after-failed-connect", "the connect "
                        "failed, yet send() was called %d time(s) on the "
                        "socket" % a.send_calls)
      if len(closes) != 1 or not worker.closed or connects:
        raise Violation("sw/close-count", "failed connect: close handler ran "
                        "%d time(s), connect handler %d time(s), closed=%r"
                        % (len(closes), len(connects), worker.closed))
      return 1
  sim.settle()
  if conn and len(connects) != 1:
    raise Violation("sw/connect-not-reported", "connect handler ran %d "
                    "time(s) for a connection that came up" % len(connects))
  a.tx_script = [tuple(x) for x in cfg.get("script", [])]
  has_fatal = any(x[0] == "fatal" for x in a.tx_script)
  queued = b""
  shut = False
  exc_hit = False
  shut_at = []      # bytes accepted when the worker called shutdown(SHUT_WR)
  orig_shutdown = a.shutdown

  def rec_shutdown(how):
    if how in (1, 2):
      shut_at.append(len(a.accepted))
    return orig_shutdown(how)
  a.shutdown = rec_shutdown

  def check(ctx):
    acc = bytes(a.accepted)
    if shut_at and shut_at[0] != len(queued):
      raise Violation("sw/shutdown-before-flush", "%s: the sending side was "
                      "shut down (SHUT_WR) after %d of the %d queued bytes"
                      % (ctx, shut_at[0], len(queued)))
    if not queued.startswith(acc):
      i = next((k for k in range(min(len(acc), len(queued)))
                if acc[k] != queued[k]), min(len(acc), len(queued)))
      raise Violation("sw/stream-corrupted", "%s: after %d bytes the socket "
                      "accepted something that is not the queued stream "
                      "(accepted %d bytes, queued %d; first difference at %d)"
                      % (ctx, i, len(acc), len(queued), i),)

  for i, st in enumerate(plan["steps"]):
    sim.ch.reseed(mix(plan["seed"], "step", i))
    data = _payload(i, st["n"])
    if worker.closed:
      break
    exc_now = cfg.get("exc_after") == i and not has_fatal
    rst_now = (cfg.get("rst_after") == i and not has_fatal
               and cfg.get("exc_after") is None)
    if exc_now or rst_now:
      a.tx_script = []
      a.tx_credit = 0         # the peer's window is closed: a backlog forms
    queued += data
    try:
      if st.get("fast"):
        sim.probes["send_fast_used"] += 1
        worker.send_fast(data)
      else:
        worker.send(data)
    except Exception as e:
      raise Violation("sw/send-raised", "%s(%d bytes) raised %s: %s"
                      % ("send_fast" if st.get("fast") else "send", len(data),
                         type(e).__name__, e))
    check("after queueing message %d" % i)
    if exc_now or rst_now:
      # the loop is now waiting for the socket to become writable again;
      # it does, and select reports the exceptional condition with it (or:
      # the peer has reset the connection, so the socket is readable -- with
      # the error -- and writable in the same round)
      sim.settle()
      if worker.send_buf and not worker.closed:
        a.tx_credit = None
        if exc_now:
          a.exc_flag = True
          sim.probes["exceptional_with_backlog"] += 1
        else:
          a.inject_reset()
          sim.probes["reset_with_backlog"] += 1
        exc_hit = True
        sim._poke()
        sim.settle()
        break
      a.tx_credit = None
    if cfg.get("shutdown_after") == i and not has_fatal:
      worker.shutdown()
      sim.probes["shutdown_requested_with_backlog"] += int(
        len(worker.send_buf) > 0)
      shut = True
      break
    if st.get("after") == "settle":
      sim.settle()
    elif st.get("after") == "advance":
      sim.advance(0.5)
    check("after step %d" % i)
  sim.settle()
  sim.advance(12.0)       # more than the loop's 5 s select timeout
  check("at the end")
  if sim.task_deaths:
    raise Violation("sw/task-died", "%r" % (sim.task_deaths[:2],))
  if at_close and (a.send_calls, len(a.accepted)) != at_close[0]:
    raise Violation("sw/write-after-close", "the connection was reported "
                    "closed after %d send() call(s) / %d accepted byte(s); "
                    "at the end the socket had seen %d call(s) / %d byte(s)"
                    % (at_close[0] + (a.send_calls, len(a.accepted))))
  if a.tx_dead or exc_hit:
    if len(closes) != 1:
      raise Violation("sw/close-count", "after a fatal socket error the "
                      "worker's close handler ran %d time(s)" % len(closes))
    if not worker.closed:
      raise Violation("sw/not-closed", "fatal socket error but the worker is "
                      "not closed")
  else:
    if closes:
      raise Violation("sw/spurious-close", "worker closed without a fatal "
                      "error")
    if bytes(a.accepted) != queued:
      raise Violation("sw/bytes-lost", "script exhausted and system "
                      "quiescent: socket accepted %d of %d queued bytes"
                      % (len(a.accepted), len(queued)))
    if bytes(b.take()) != queued:
      raise Violation("sw/peer-mismatch", "peer received a different stream")
  return len(plan["steps"])


def _drive_swt(sim, plan, known, hit):
  import pox.lib.ioworker as IOW
  cfg = plan["cfg"]
  tw = ThreadsWorld(sim, cfg)
  eng = tw.boot(trace_files=("pox/lib/recoco/recoco.py",
                             "pox/lib/ioworker/__init__.py"))
  loop = IOW.RecocoIOLoop()
  loop.start()
  a, b = sim.socketpair("worker-sock", "peer")
  b.recv_all = True
  worker = loop.new_worker(socket=a)
  closes = []
  worker.close_handler = lambda w: closes.append(sim.now)
  a.tx_script = [tuple(x) for x in cfg.get("script", [])]
  queued = []
  tw.start_scheduler()

  where = {}        # controlled thread -> function it is executing

  def on_step(t, frame):
    if frame is not None:
      where[t.idx] = frame.f_code.co_name
  eng.on_step = on_step

  def flushing():
    return any(v == "_do_send" for v in where.values())

  def sender():
    for i, st in enumerate(plan["steps"]):
      data = _payload(i, st["n"])
      if st.get("aim") and queued:
        # place this send inside an operation with in-flight state: wait
        # (bounded) until the IO loop is in the middle of flushing
        if eng.block(flushing, 0.5):
          sim.probes["send_while_flushing"] += 1
      queued.append(data)
      worker.send(data)
      if st.get("gap"):
        eng.block(None, 0.01)
    total = sum(len(d) for d in queued)
    for _ in range(120):
      if len(a.accepted) >= total or worker.closed:
        break
      eng.block(None, 0.25)
    tw.stop_scheduler()
  eng.spawn(sender, "sender")
  fin = eng.run(wall_timeout=30.0)
  sim.probes["threaded_switches"] += eng.switches
  sim.stats["traced_steps"] += eng.steps
  if fin is None or fin[0] == "wall":
    raise S.SimAbort("harness", "engine did not finish: %r" % (fin,))
  if fin[0] == "abort":
    raise Violation("swt/" + fin[1], fin[2])
  if fin[0] == "deadlock":
    raise Violation("swt/deadlock", "%r" % (fin[1],))
  if fin[0] == "cap":
    raise Violation("swt/livelock", "no quiescence within %d traced steps"
                    % fin[1])
  for t in eng.threads:
    if t.error is not None:
      raise Violation("swt/thread-died", "thread %s: %s: %s"
                      % (t.name, t.error[0], t.error[1]))
  if sim.task_deaths:
    raise Violation("swt/task-died", "%r" % (sim.task_deaths[:2],))
  want = b"".join(queued)
  acc = bytes(a.accepted)
  if closes:
    raise Violation("swt/spurious-close", "worker closed without a fatal "
                    "error")
  if acc != want:
    i = next((k for k in range(min(len(acc), len(want)))
              if acc[k] != want[k]), min(len(acc), len(want)))
    raise Violation("swt/stream-corrupted", "messages sent from a foreign "
                    "thread while the IO loop was flushing: the socket "
                    "accepted %d bytes, %d were queued; first difference at "
                    "%d" % (len(acc), len(want), i))
  return len(plan["steps"])


# ---------------------------------------------------------------------------
# controller side (threads)
# ---------------------------------------------------------------------------

PORT = {"port_no": 1, "hw_addr": F.mac(9), "name": "p1", "config": 0,
        "state": 0}


def _drive_ctl(sim, plan, known, hit):
  cfg = plan["cfg"]
  tw = ThreadsWorld(sim, cfg)
  eng = tw.boot(trace_files=("pox/openflow/of_01.py",))
  sim.select = eng.select
  world = CTLWorld(sim)
  world.boot(real_deferred_sender=True, sched=tw.sched, eng=eng)
  O1 = world.O1
  core = world.core
  R = tw.R
  tw.start_scheduler()
  ncon = cfg["ncon"]
  if cfg.get("overlap"):
    sim.probes["ctl_overlapping_backlogs"] += 1
  peers = []
  queued = [b""] * ncon
  base = [0] * ncon
  state = {"go": False, "sent_all": False, "viol": None}
  exc_on = set()      # connections whose socket reported an exceptional cond.
  ds = O1.deferredSender
  orig_ds_send = ds.send

  def ds_send(con, data):
    sim.probes["deferred_used"] += 1
    return orig_ds_send(con, data)
  ds.send = ds_send

  def check_prefix(t=None, frame=None):
    if not state["go"]:
      return
    for i, p in enumerate(peers):
      acc = bytes(p.srv.accepted[base[i]:])
      q = queued[i]
      if len(acc) > len(q) or q[:len(acc)] != acc:
        k = next((j for j in range(min(len(acc), len(q)))
                  if acc[j] != q[j]), min(len(acc), len(q)))
        eng.fail("ctl/stream-corrupted", "connection %d: the socket accepted "
                 "%d bytes that are not a prefix of the %d queued bytes "
                 "(first difference at offset %d)" % (i, len(acc), len(q), k))
  eng.on_step = check_prefix

  def slow_down_handler(event):
    # a ConnectionDown handler that takes a while (cleans up flows,
    # topology...): other threads get to run while it does
    if eng.me() is not None:
      for _ in range(3):
        eng.preempt()
    sim.probes["slow_down_handler_ran"] += 1
    if cfg.get("down_handler_sends") and len(peers) == 2:
      # ... and tells the neighbour switch about it: a send on the other
      # connection, from whichever thread noticed the loss (possibly the
      # deferred sender's own, in the middle of its flush round)
      # (connection 1 is written by this handler only: one writer per
      # connection, as everywhere in this check)
      oi = [1] if event.connection is peers[0].con else []
      if len(oi) == 1 and peers[oi[0]].con is not None \
          and not peers[oi[0]].con.disconnected:
        data = _payload(900 + oi[0], 24)
        queued[oi[0]] += data
        sim.probes["send_from_connection_down_handler"] += 1
        peers[oi[0]].con.send(data)
  world.nexus.addListenerByName("ConnectionDown", slow_down_handler,
                                priority=100)

  class Sender(R.Task):
    def run(self_):
      while not state["go"]:
        yield 0.01
      for i, st in enumerate(plan["steps"]):
        ci = st["con"] % ncon
        if cfg.get("down_handler_sends"):
          ci = 0
        con = peers[ci].con
        data = _payload(i, st["n"])
        if not con.disconnected:
          queued[ci] += data
          con.send(data)
          sim.ev("queued", ci, len(data))
          if cfg.get("exc_at") == i and not con.disconnected \
              and con in ds._dataForConnection and not peers[ci].srv.tx_dead:
            peers[ci].srv.exc_flag = True
            exc_on.add(ci)
            sim.probes["ctl_exceptional_with_backlog"] += 1
            if st.get("n", 0) % 2 == 0 and eng.me() is not None:
              # the sending handler is not done yet: its next message follows
              # in the same slice, while the sender thread gets to run (the
              # OpenFlow task, a task like this one, does not)
              for _ in range(300):
                if con not in ds._dataForConnection:
                  break
                eng.preempt()
              sim.probes["ctl_exceptional_then_send_in_same_slice"] += 1
              continue
        if cfg.get("overlap") and i == 1 and eng.me() is not None \
            and st.get("n", 0) != 9:
          # the handler that sends these is not done: its next message (to
          # the same switch) follows in this slice, while the sender thread
          # gets on with the other connection's backlog
          other = peers[plan["steps"][0]["con"] % ncon].con
          for _ in range(300):
            if other not in ds._dataForConnection:
              break
            eng.preempt()
          sim.probes["ctl_overlap_send_in_same_slice"] += 1
          continue
        if st.get("gap"):
          yield 0.05
        else:
          yield 0
      state["sent_all"] = True
  Sender().start()

  def harness():
    # connect and handshake every peer
    if not eng.block(lambda: 6633 in sim.listeners, 20):
      raise S.SimAbort("harness", "controller did not listen")
    for i in range(ncon):
      peers.append(world.new_peer("p%d" % i))
    for i, p in enumerate(peers):
      p.send(W.enc_hello(0))

      def saw(typ, p=p):
        p.pump()
        return any(d["type"] == typ for d in p.rx)
      if not eng.block(lambda: saw(W.FEATURES_REQUEST), 20):
        raise S.SimAbort("harness", "no features request")
      # (datapath id 0 is a datapath id)
      p.send(W.enc_features_reply(1, 0 if cfg.get("dpid0") and i == 0
                                  else 0x50 + i, [PORT]))
      if not eng.block(lambda: saw(W.BARRIER_REQUEST), 20):
        raise S.SimAbort("harness", "no barrier request")
      bx = [d["xid"] for d in p.rx if d["type"] == W.BARRIER_REQUEST][-1]
      p.send(W.enc_barrier_reply(bx))
      if not eng.block(lambda: bool(p.con_id is not None and
                                    world.events_for(p.con_id, "ConnectionUp",
                                                     "nexus")), 20):
        raise S.SimAbort("harness", "no ConnectionUp")
    for i, p in enumerate(peers):
      base[i] = len(p.srv.accepted)
      p.srv.tx_script = [tuple(x) for x in cfg["scripts"][i]]
    state["go"] = True

    def quiet():
      if not state["sent_all"]:
        return False
      for i, p in enumerate(peers):
        if p.srv.tx_dead:
          if not world.events_for(p.con_id, "ConnectionDown", "nexus"):
            return False
        elif i in exc_on and world.events_for(p.con_id, "ConnectionDown",
                                              "nexus"):
          pass
        elif len(p.srv.accepted) - base[i] < len(queued[i]):
          return False
      return True
    ok = eng.block(quiet, 60.0)
    state["quiet"] = ok or quiet()
    # let a possible second ConnectionDown or late write show up
    eng.block(None, 6.0)
    core.running = False
    ds._waker.ping()
    tw.stop_scheduler()
  eng.spawn(harness, "harness")
  fin = eng.run(wall_timeout=30.0)
  core.running = True
  if fin is None or fin[0] == "wall":
    raise S.SimAbort("harness", "engine did not finish: %r" % (fin,))
  if fin[0] == "abort":
    if fin[1] == "harness":
      raise S.SimAbort("harness", fin[2])
    raise Violation(fin[1], fin[2])
  if fin[0] == "deadlock":
    raise Violation("ctl/deadlock", "all threads blocked for good: %r"
                    % (fin[1],))
  if fin[0] == "cap":
    raise Violation("ctl/livelock", "no quiescence within %d traced steps"
                    % fin[1])
  for t in eng.threads:
    if t.error is not None:
      raise Violation("ctl/thread-died", "thread %s died with %s: %s\n%s"
                      % (t.name, t.error[0], t.error[1], t.error[2][-500:]))
  if sim.task_deaths:
    raise Violation("ctl/task-died", "%r" % (sim.task_deaths[:2],))
  for i, p in enumerate(peers):
    acc = bytes(p.srv.accepted[base[i]:])
    downs = world.events_for(p.con_id, "ConnectionDown", "nexus")
    downs_c = world.events_for(p.con_id, "ConnectionDown", p.con_id)
    if p.srv.tx_dead:
      sim.probes["fatal_seen"] += 1
      if len(downs) != 1 or len(downs_c) != 1:
        raise Violation("ctl/down-count", "connection %d hit a fatal socket "
                        "error: ConnectionDown raised %d time(s) on the "
                        "nexus, %d on the connection" % (i, len(downs),
                                                         len(downs_c)))
      if not queued[i].startswith(acc):
        raise Violation("ctl/stream-corrupted", "connection %d" % i)
      if p.srv.sends_after_fatal:
        raise Violation("ctl/write-after-fatal", "connection %d: %d send() "
                        "call(s) on the socket after it had reported a "
                        "fatal error" % (i, p.srv.sends_after_fatal))
    elif i in exc_on and (downs or downs_c):
      # the exceptional condition ended the connection (what the OpenFlow
      # task does with it): once, and what was accepted is a prefix
      sim.probes["ctl_exceptional_ended_connection"] += 1
      if len(downs) != 1 or len(downs_c) != 1:
        raise Violation("ctl/down-count", "connection %d ended on an "
                        "exceptional condition: ConnectionDown raised %d "
                        "time(s) on the nexus, %d on the connection"
                        % (i, len(downs), len(downs_c)))
      if not queued[i].startswith(acc):
        raise Violation("ctl/stream-corrupted", "connection %d" % i)
    else:
      if downs or downs_c:
        raise Violation("ctl/spurious-down", "connection %d was reported "
                        "down without a socket error" % i)
      if acc != queued[i]:
        raise Violation("ctl/bytes-lost", "connection %d: script exhausted "
                        "and 60 virtual seconds passed: socket accepted %d "
                        "of %d queued bytes" % (i, len(acc), len(queued[i])))
  sim.ev("ilv", eng.ilv_hash, eng.switches)
  sim.stats["traced_steps"] += eng.steps
  return eng.steps
