"""
C10 -- malformed OpenFlow input is contained to the offending connection.

Worlds: CTL (victim connection + sibling connections through the real task
loop) and MultiSW (victim switch + sibling switch on one real IO loop).
The faults are corruptions of a valid byte stream: header length / type /
version fields, arbitrary 16-bit words (embedded lengths), truncation + EOF,
random byte flips, fully random streams.
"""

import struct

from simkit import sim as S
from simkit.rng import Rng, mix
from simkit.budget import LineBudget
from simkit.check import load_known
from worlds.ctl import CTLWorld, handshake_script
from worlds.sw import MultiSW
from models import of10wire as W
from models import rawframe as F
from checks import c02 as G

PROP = "C10"
LEVEL = "fault_enumeration"
BUDGET = {"quick": 6000, "thorough": 400000}
RUN_TIMEOUT = 40
RULE = ("Each run: a valid stream of 1-8 messages for one victim connection "
        "(controller side: switch-to-controller types after a completed "
        "handshake; switch side: controller-to-switch types) is damaged by "
        "one seeded fault -- header length set to any value 0..len+8, type "
        "byte 0..255, version byte, any aligned 16-bit word of the body "
        "(covers embedded action/queue/stats lengths) set to 0/1/4/7/8/"
        "0xffff/len+-k, truncation at any offset followed by EOF, 1-6 random "
        "byte flips, or a fully random stream -- placed before/between/after "
        "valid traffic, segmented, while 1-2 sibling connections carry "
        "known-good echo traffic.  Oracle: processing stays within a "
        "deterministic traced-line budget; loop tasks survive; every sibling "
        "gets exactly its replies; a fresh connection still handshakes; on "
        "the victim every delivered/answered message is a declared-length "
        "frame of the damaged stream, in order; (switch side) every declared "
        "valid echo request is answered unless the connection was closed.  "
        "Non-trivial = the fault changed how the stream is framed or decoded "
        "(an error, a close, or a skipped frame was observed); distinct = "
        "distinct event-log digest.")
ASSUMPTIONS = [
  "the single-field faults are sampled per run; thorough runs cover each "
  "(message type, field, value) class many times but the enumeration is "
  "not proven complete",
  "termination is judged by a traced-line budget of 300k + 1500 lines per "
  "stream byte per injection in of_01/switch/libopenflow_01/ioworker/"
  "recoco/revent",
  "a switch that answers a malformed frame with an error and keeps going, "
  "or that closes, are both acceptable",
]
REAL = ["pox.openflow.of_01 Connection.read / OpenFlow_01_Task.run",
        "pox.datapaths.switch OFConnection.read/_error_handler, "
        "SoftwareSwitch handlers", "pox.lib.ioworker RecocoIOLoop/"
        "RecocoIOWorker/_call_safe", "libopenflow_01 unpackers",
        "pox.datapaths.OpenFlowWorker reconnect (BackoffWorker timers)",
        "recoco scheduler"]
STUBBED = ["socket/select/time/pinger (simkit)", "peers (scripted)"]
EXPECT_PROBES = ["side_ctl", "side_sw", "fault_len", "fault_type",
                 "fault_version", "fault_word", "fault_trunc", "fault_flip",
                 "fault_random", "victim_closed", "victim_survived",
                 "len_zero", "len_short", "len_long", "victim_slow_reader",
                 "victim_had_unsent_replies", "late_sentinels_sent",
                 "victim_before_hello", "close_callback_raised",
                 "victim_reset_after",
                 "victim_mid_handshake_features",
                 "victim_mid_handshake_barrier",
                 "victim_mid_handshake_barrier_x",
                 "victim_switch_has_second_connection"]

PORT = G.PORT


def gen_plan(seed, tier):
  r = Rng(seed)
  side = r.pick(["ctl", "sw"])
  mk = G._msg_to_controller if side == "ctl" else G._msg_to_switch
  n = r.randint(1, 8)
  msgs = []
  for i in range(n):
    m = mk(r, 0x200 + i)
    if len(m) > 3000:
      m = mk(r, 0x200 + i)
    msgs.append(m)
  k = r.randrange(n)
  if r.chance(0.06):
    # a message near the 16-bit length limit, completely delivered: whatever
    # is reported about it has to fit a message of its own
    T = r.pick([65535, 65534, 65524, 65523, 65500, 40000, 32768])
    if side == "sw" and r.chance(0.4):
      # well-formed, but refused: names a buffer that does not exist
      msgs[k] = W.enc_packet_out(0x200 + k, 0x7777, W.OFPP_NONE,
                                 [("output", 1, 0)], r.randbytes(T - 24))
    else:
      msgs[k] = W.enc_echo_request(0x200 + k, r.randbytes(T - 8))
  L = len(msgs[k])
  kind = r.wpick([(6, "len"), (4, "type"), (2, "version"), (6, "word"),
                  (4, "trunc"), (3, "flip"), (2, "random")])
  fault = {"kind": kind, "msg": k}
  if kind == "len":
    fault["value"] = r.wpick([(3, 0), (3, r.randint(1, 7)), (2, 8),
                              (3, r.randint(0, L + 8)), (2, L - 1), (2, L + 1),
                              (1, L + 8), (1, 0xffff)])
  elif kind == "type":
    fault["value"] = r.wpick([(5, r.randrange(256)), (2, r.randrange(22)),
                              (1, 22), (1, 255)])
  elif kind == "version":
    fault["value"] = r.pick([0, 2, 4, 0x80, 0xff])
  elif kind == "word":
    fault["off"] = 8 + 2 * r.randrange(max(1, (L - 8) // 2)) if L > 9 else 8
    fault["value"] = r.pick([0, 1, 4, 7, 8, 9, 0xffff, 0x8000, L, L + 8,
                             max(0, L - 8)])
  elif kind == "trunc":
    tot = sum(len(m) for m in msgs)
    fault["at"] = r.randrange(0, tot + 1)
  elif kind == "flip":
    fault["flips"] = [[r.randrange(L), r.randrange(1, 256)]
                      for _ in range(r.randint(1, 6))]
  else:
    fault["data"] = r.randbytes(r.pick([1, 7, 8, 9, 40, 300])).hex()
  cfg = {"side": side, "nsib": r.randint(1, 2),
         "segment": r.chance(0.5), "recv_mode": r.pick(["all", "choose",
                                                         "dribble"]),
         "shuffle_ready": r.chance(0.3),
         "sentinels": r.randint(0, 3),
         # back-pressure: the peer reads the victim's replies late, so what
         # the victim queued is still unsent while the rest of the damaged
         # stream arrives (None = reads at once, else bytes accepted early)
         "slow_reader": r.pick([None, None, 0, 16, 100]),
         # the sentinel requests follow in a later write of the peer
         "late_sentinels": r.chance(0.5),
         # the damaged stream is the first thing the victim ever receives
         # (no hello from the peer before it)
         "before_hello": r.chance(0.2),
         # the application's close callback of the victim's worker fails
         "close_cb_raises": r.chance(0.3),
         # when the slow reader finally reads, the victim's socket also
         # reports an exceptional condition (urgent data) in the same select
         "oob_when_unblocked": r.chance(0.3),
         # controller side: the victim is still in its handshake when the
         # damaged stream arrives (features / barrier reply outstanding);
         # "barrier_x" = it starts with a well-formed BARRIER_REPLY that
         # carries somebody else's xid
         "second_controller": (side == "sw"
                               and Rng(mix(seed, "2nd")).chance(0.15)),
         "mid_handshake": (r.pick(["features", "barrier", "barrier_x",
                                   "barrier_x"])
                           if side == "ctl" and r.chance(0.2) else None),
         # controller side: the peer does not close after its damaged
         # stream, it resets (crash, SO_LINGER 0): the controller's socket
         # is then dead in every respect, shutdown() included
         "reset_after": (side == "ctl"
                         and Rng(mix(seed, "rst")).chance(0.25))}
  if max(len(m) for m in msgs) > 20000 and cfg["recv_mode"] == "dribble":
    cfg["recv_mode"] = "choose"
  rb = Rng(mix(seed, "burst"))
  if side == "sw" and kind != "trunc" and rb.chance(0.015):
    cfg.update(burst=rb.pick([4500, 5000]), recv_mode="all", segment=False,
               slow_reader=None, late_sentinels=False, before_hello=False,
               second_controller=False)
  return {"prop": PROP, "seed": seed, "cfg": cfg,
          "steps": [{"m": m.hex()} for m in msgs], "fault": fault}


def minimise_hint(plan):
  out = []
  if plan["cfg"].get("nsib", 1) > 1:
    out.append(dict(plan, cfg=dict(plan["cfg"], nsib=1)))
  if plan["cfg"].get("segment") or plan["cfg"].get("recv_mode") != "all":
    out.append(dict(plan, cfg=dict(plan["cfg"], segment=False,
                                   recv_mode="all", shuffle_ready=False)))
  if plan["cfg"].get("sentinels"):
    out.append(dict(plan, cfg=dict(plan["cfg"], sentinels=0)))
  if plan["cfg"].get("slow_reader") is not None:
    out.append(dict(plan, cfg=dict(plan["cfg"], slow_reader=None)))
  if plan["cfg"].get("late_sentinels"):
    out.append(dict(plan, cfg=dict(plan["cfg"], late_sentinels=False)))
  if plan["cfg"].get("before_hello"):
    out.append(dict(plan, cfg=dict(plan["cfg"], before_hello=False)))
  if plan["cfg"].get("mid_handshake"):
    out.append(dict(plan, cfg=dict(plan["cfg"], mid_handshake=None)))
  return out


def damaged_stream(plan):
  """returns (bytes, eof_after) for the victim"""
  msgs = [bytearray(bytes.fromhex(s["m"])) for s in plan["steps"]]
  f = plan.get("fault") or {"kind": "none"}
  k = min(f.get("msg", 0), len(msgs) - 1) if msgs else 0
  kind = f["kind"]
  eof = False
  if not msgs:
    msgs = [bytearray(W.enc_echo_request(0x2ff, b""))]
  if kind == "len":
    struct.pack_into("!H", msgs[k], 2, f["value"] & 0xffff)
  elif kind == "type":
    msgs[k][1] = f["value"]
  elif kind == "version":
    msgs[k][0] = f["value"]
  elif kind == "word":
    off = f["off"]
    if off + 2 <= len(msgs[k]):
      struct.pack_into("!H", msgs[k], off, f["value"] & 0xffff)
  elif kind == "flip":
    for off, x in f["flips"]:
      if off < len(msgs[k]):
        msgs[k][off] ^= x
  elif kind == "random":
    msgs[k] = bytearray(bytes.fromhex(f["data"]))
  stream = b"".join(bytes(m) for m in msgs)
  nb = plan["cfg"].get("burst")
  if nb:
    # thousands of minimal messages of a type nobody has, in one go: each
    # is answered with an error (and each answer wakes the IO loop)
    stream = b"".join(W.msg(0x63, 0x100000 + i, b"") for i in range(nb)) \
        + stream
  if kind == "trunc":
    stream = stream[:f["at"]]
    eof = True
  return stream, eof


class Violation(Exception):
  def __init__(self, vclass, detail):
    Exception.__init__(self, vclass, detail)
    self.vclass = vclass
    self.detail = detail


def run_plan(plan):
  cfg = plan["cfg"]
  sim = S.Sim(mix(plan["seed"], "run"), calm=plan.get("calm", False))
  S.install(sim, real_pinger=bool(cfg.get("burst")))
  if cfg.get("burst"):
    # the real pipe pinger, on a pipe of one page (what Linux hands out once
    # a user's pipe pages are past the soft limit)
    sim.pipe_capacity = 4096
  sim.budget = LineBudget()
  sim.budget.install()
  nbytes = sum(len(s["m"]) // 2 for s in plan["steps"]) + 200
  # generous and proportional: a one-byte-at-a-time reader costs a few
  # hundred traced lines per byte; an endless loop exceeds any such bound
  sim.budget_lines = 300000 + 1500 * nbytes
  sim.net_segment = cfg.get("segment", False)
  sim.recv_mode = cfg.get("recv_mode", "all")
  sim.shuffle_ready = cfg.get("shuffle_ready", False)
  known = load_known(PROP)
  hit = []
  res = {"verdict": "ok"}
  try:
    if cfg["side"] == "ctl":
      _drive_ctl(sim, plan, known, hit)
    else:
      _drive_sw(sim, plan, known, hit)
  except Violation as v:
    res.update(verdict="violation", vclass=v.vclass, detail=v.detail)
  except S.SimAbort as a:
    if a.vclass == "harness":
      res.update(verdict="error", detail=a.detail)
    else:
      res.update(verdict="violation",
                 vclass=cfg["side"] + "/" + a.vclass, detail=a.detail)
  res["digest"] = sim.digest()
  res["sim_time"] = sim.now - S.T0
  res["steps"] = len(plan["steps"])
  res["known"] = sorted(set(hit))
  res["stats"] = dict(sim.stats)
  res["probes"] = dict(sim.probes)
  p = sim.probes
  res["nontrivial"] = bool(p.get("victim_closed") or p.get("error_sent")
                           or p.get("frame_skipped"))
  return res


def _note_fault(sim, plan):
  f = plan.get("fault") or {"kind": "none"}
  sim.probes["fault_" + f["kind"]] += 1
  if f["kind"] == "len":
    L = len(bytes.fromhex(plan["steps"][min(f["msg"],
                                            len(plan["steps"]) - 1)]["m"])) \
        if plan["steps"] else 8
    v = f["value"]
    if v == 0:
      sim.probes["len_zero"] += 1
    elif v < 8:
      sim.probes["len_short"] += 1
    elif v < L:
      sim.probes["len_under"] += 1
    elif v > L:
      sim.probes["len_long"] += 1


def _declared(stream):
  frames, rest, bad = W.split_stream(stream)
  out = []
  for fr in frames:
    out.append((fr[1], struct.unpack_from("!L", fr, 4)[0], fr))
  return out, rest, bad


def _drain(sim, what):
  with sim.budget.window(sim.budget_lines, what):
    sim.drain()


def _subsequence(have, want):
  """have must appear in want in order; returns index of first offender"""
  j = 0
  for i, h in enumerate(have):
    while j < len(want) and want[j] != h:
      j += 1
    if j >= len(want):
      return i
    j += 1
  return None


def _drive_ctl(sim, plan, known, hit):
  cfg = plan["cfg"]
  sim.probes["side_ctl"] += 1
  _note_fault(sim, plan)
  world = CTLWorld(sim)
  world.boot()
  victim = world.new_peer("victim")
  sibs = [world.new_peer("sib%d" % i) for i in range(cfg["nsib"])]
  sim.settle()
  stage = cfg.get("mid_handshake")
  lead = b""
  if not stage:
    if not handshake_script(victim, 0x10, [PORT]):
      raise S.SimAbort("harness", "victim handshake failed")
  else:
    sim.probes["victim_mid_handshake_" + stage] += 1
    victim.send(W.enc_hello(0))
    sim.drain()
    fr = [d for d in victim.take() if d["type"] == W.FEATURES_REQUEST]
    if not fr:
      raise S.SimAbort("harness", "no features request for the victim")
    if stage != "features":
      victim.send(W.enc_features_reply(fr[0]["xid"], 0x10, [PORT]))
      sim.drain()
      br = [d for d in victim.take() if d["type"] == W.BARRIER_REQUEST]
      if not br:
        raise S.SimAbort("harness", "no barrier request for the victim")
      if stage == "barrier_x":
        lead = W.enc_barrier_reply(br[0]["xid"] ^ 0x10000)
  for i, sp in enumerate(sibs):
    if not handshake_script(sp, 0x20 + i, [PORT]):
      raise S.SimAbort("harness", "sibling handshake failed")
  vcon = victim.con
  vbase = len(world.delivered[vcon.ID])
  sbase = {sp: len(world.delivered[sp.con.ID]) for sp in sibs}
  sent_sib = {sp: [] for sp in sibs}
  sx = [0x7000]

  def sib_round():
    for sp in sibs:
      for _ in range(2):
        sx[0] += 1
        sp.send(W.enc_echo_request(sx[0], b"sib"))
        sent_sib[sp].append(sx[0])

  stream, eof = damaged_stream(plan)
  stream = lead + stream
  sentinels = []
  for i in range(cfg.get("sentinels", 0)):
    sentinels.append(W.enc_echo_request(0x6000 + i, b"s"))
  if not eof:
    stream_all = stream + b"".join(sentinels)
  else:
    stream_all = stream
  sib_round()
  victim.send(stream_all)
  if cfg.get("reset_after"):
    sim.probes["victim_reset_after"] += 1
    victim.reset()
    eof = True
  elif eof:
    victim.close()
  sib_round()
  _drain(sim, "controller read")
  sim.advance(0.25)
  _drain(sim, "controller read")
  sib_round()
  _drain(sim, "controller read")
  # --- oracle ---------------------------------------------------------
  if sim.task_deaths:
    raise Violation("ctl/task-died", "the OpenFlow task was de-scheduled by "
                    "an exception: %r" % (sim.task_deaths[:2],))
  if 6633 not in sim.listeners:
    raise Violation("ctl/listener-gone", "controller stopped listening")
  for sp in sibs:
    got = [x for t, x, _ in world.delivered[sp.con.ID][sbase[sp]:]
           if t == W.ECHO_REQUEST]
    if got != sent_sib[sp]:
      raise Violation("ctl/sibling-affected", "sibling %s: delivered echo "
                      "requests %r, sent %r" % (sp.name, got, sent_sib[sp]))
    reps = [d["xid"] for d in sp.take() if d["type"] == W.ECHO_REPLY]
    if reps != sent_sib[sp]:
      raise Violation("ctl/sibling-unanswered", "sibling %s: echo replies "
                      "%r, sent %r" % (sp.name, reps, sent_sib[sp]))
    if sp.eof_from_controller:
      raise Violation("ctl/sibling-closed", "sibling %s was closed"
                      % sp.name)
  decl, rest, bad = _declared(stream_all)
  have = [(t, x) for t, x, _ in world.delivered[vcon.ID][vbase:]]
  want = [(t, x) for t, x, _ in decl]
  bad_i = _subsequence(have, want)
  if bad_i is not None:
    raise Violation("ctl/delivered-not-a-declared-frame", "victim: delivered "
                    "message #%d (type=%d xid=%#x) is not a declared-length "
                    "frame of the damaged stream (declared: %r)"
                    % (bad_i, have[bad_i][0], have[bad_i][1] or 0,
                       [(t, hex(x)) for t, x in want][:12]))
  # a delivered message is built from its own frame: what it re-serialises
  # to cannot be longer than the frame declared
  j = 0
  for t, x, n in world.delivered[vcon.ID][vbase:]:
    while j < len(decl) and (decl[j][0], decl[j][1]) != (t, x):
      j += 1
    if j >= len(decl):
      break
    if n > len(decl[j][2]):
      raise Violation("ctl/delivered-larger-than-declared", "victim: the "
                      "delivered message type=%d xid=%#x re-serialises to %d "
                      "bytes, its frame declared %d: it holds bytes of its "
                      "neighbour" % (t, x or 0, n, len(decl[j][2])))
    j += 1
  closed = victim.eof_from_controller or vcon.disconnected
  sim.probes["victim_closed" if closed else "victim_survived"] += 1
  if len(have) < len(want):
    sim.probes["frame_skipped"] += 1
  if not closed and not eof:
    # everything declared and well-formed up to the residue must have been
    # delivered: in particular the sentinels, if framing landed on them
    for t, x, fr in decl:
      if fr in sentinels and (t, x) not in have:
        raise Violation("ctl/stalled", "victim connection stayed open but "
                        "the declared echo request xid=%#x after the damaged "
                        "frame was never delivered" % x)
  # a fresh connection still completes its handshake
  fresh = world.new_peer("fresh")
  sim.settle()
  ok = handshake_script(fresh, 0x30, [PORT])
  ups = world.events_for(fresh.con_id, "ConnectionUp", "nexus") \
      if fresh.con_id is not None else []
  if not ok or len(ups) != 1:
    raise Violation("ctl/fresh-connection-fails", "after the fault a new "
                    "connection could not complete its handshake")


def _drive_sw(sim, plan, known, hit):
  cfg = plan["cfg"]
  sim.probes["side_sw"] += 1
  _note_fault(sim, plan)
  world = MultiSW(sim, 1 + cfg["nsib"])
  world.boot()
  v = world.ends[0]
  sibs = world.ends[1:]
  if cfg.get("close_cb_raises"):
    def bad_close(worker):
      sim.probes["close_callback_raised"] += 1
      raise RuntimeError("application close callback fails")
    world.workers[0].close_handler = bad_close
  early = bool(cfg.get("before_hello"))
  if early:
    sim.probes["victim_before_hello"] += 1
  for e in world.ends:
    if not (early and e is v):
      e.send(W.enc_hello(0))
  sim.drain()
  for e in world.ends:
    if early and e is v:
      continue
    got = e.take()
    if not got or got[0]["type"] != W.HELLO:
      raise S.SimAbort("harness", "no hello from a switch")
  v2 = None
  if cfg.get("second_controller") and not early:
    # the victim switch is given a second control connection (a fail-over
    # controller) while the first stays open: what arrives on the first is
    # still the first's business
    from pox.datapaths import OpenFlowWorker
    n0 = len(world.accepted)
    w2 = OpenFlowWorker.begin(loop=world.loop, addr="127.0.0.1", port=6633,
                              switch=world.switches[0], max_retry_delay=16)
    sim.settle()
    if len(world.accepted) == n0 + 1:
      from worlds.sw import End
      v2 = End(world.accepted[-1])
      v2.send(W.enc_hello(0))
      sim.drain()
      v2.take()
      sim.probes["victim_switch_has_second_connection"] += 1
  sx = [0x7000]
  sent_sib = {id(e): [] for e in sibs}

  def sib_round():
    for e in sibs:
      for _ in range(2):
        sx[0] += 1
        e.send(W.enc_echo_request(sx[0], b"sib"))
        sent_sib[id(e)].append(sx[0])

  stream, eof = damaged_stream(plan)
  sentinels = [W.enc_echo_request(0x6000 + i, b"s")
               for i in range(cfg.get("sentinels", 0))]
  stream_all = stream if eof else stream + b"".join(sentinels)
  sib_round()
  slow = cfg.get("slow_reader")
  if slow is not None and not eof:
    v.sock.peer.tx_credit = slow
    sim.probes["victim_slow_reader"] += 1
  late = bool(cfg.get("late_sentinels")) and not eof and sentinels
  v.send(stream if late else stream_all)
  if eof:
    v.sock.close()
  sib_round()
  _drain(sim, "switch read")
  if late:
    sim.advance(0.125)
    _drain(sim, "switch read")
    try:
      v.send(b"".join(sentinels))
      sim.probes["late_sentinels_sent"] += 1
    except OSError:
      sim.probes["late_sentinels_refused"] += 1
    _drain(sim, "switch read")
  sim.advance(0.25)
  _drain(sim, "switch read")
  if slow is not None and not eof:
    if v.sock.peer.tx_credit is not None and not v.sock.peer.closed:
      sim.probes["victim_had_unsent_replies"] += int(
        v.sock.peer.tx_credit == 0)
    v.sock.peer.tx_credit = None
    if cfg.get("oob_when_unblocked") and not v.sock.peer.closed:
      v.sock.peer.exc_flag = True
      sim.probes["exceptional_condition_with_unsent_output"] += 1
    _drain(sim, "switch read")
    sim.advance(0.25)
    _drain(sim, "switch read")
  sib_round()
  _drain(sim, "switch read")
  if sim.task_deaths:
    raise Violation("sw/task-died", "a loop task was de-scheduled by an "
                    "exception: %r" % (sim.task_deaths[:2],))
  if not world.loop.running or world.loop not in _live_tasks(world, sim):
    raise Violation("sw/io-loop-dead", "the switch IO loop task has ended")
  for e in sibs:
    reps = [d["xid"] for d in e.take() if d["type"] == W.ECHO_REPLY]
    if reps != sent_sib[id(e)]:
      raise Violation("sw/sibling-unanswered", "sibling switch: echo replies "
                      "%r, sent %r" % (reps, sent_sib[id(e)]))
    if e.eof:
      raise Violation("sw/sibling-closed", "sibling switch's connection was "
                      "closed")
  decl, rest, bad = _declared(stream_all)
  replies = v.take()
  if v2 is not None:
    # (which of its connections a switch answers on is not C10's business)
    replies = replies + v2.take()
  closed = v.eof
  sim.probes["victim_closed" if closed else "victim_survived"] += 1
  dx = set(x for t, x, _ in decl)
  want_echo = [(x, fr[8:]) for t, x, fr in decl
               if t == W.ECHO_REQUEST and fr[0] == 1]
  have_echo = [(d["xid"], d["body"]) for d in replies
               if d["type"] == W.ECHO_REPLY]
  for d in replies:
    if d["type"] == W.ERROR:
      sim.probes["error_sent"] += 1
    if d["type"] in (W.PACKET_IN, W.PORT_STATUS, W.FLOW_REMOVED, W.HELLO):
      continue
    if (d["type"] == W.ERROR and len(rest) >= 8
        and d["xid"] == struct.unpack_from("!L", rest, 4)[0]):
      # an error about the point where framing was lost (wrong version,
      # impossible length): its xid is whatever stands there
      sim.probes["error_about_unframed_rest"] += 1
      continue
    if d["xid"] not in dx and d["xid"] != 0:
      raise Violation("sw/reply-to-undeclared-frame", "victim switch wrote "
                      "%s xid=%#x which answers no declared frame of the "
                      "damaged stream" % (d["name"], d["xid"]))
  if v.bad:
    raise Violation("sw/garbage-written", "victim switch wrote an unframeable "
                    "stream")
  if have_echo != want_echo[:len(have_echo)]:
    raise Violation("sw/echo-mismatch", "victim switch's echo replies %r are "
                    "not a prefix of the declared echo requests %r"
                    % ([hex(x) for x, _ in have_echo],
                       [hex(x) for x, _ in want_echo]))
  if len(have_echo) < len(want_echo):
    sim.probes["frame_skipped"] += 1
    if not closed and not eof:
      raise Violation("sw/stalled", "victim switch kept the connection open "
                      "but did not answer declared echo request xid=%#x "
                      "(answered %d of %d)"
                      % (want_echo[len(have_echo)][0], len(have_echo),
                         len(want_echo)))


def _live_tasks(world, sim):
  """tasks the scheduler or the select hub still knows about"""
  sched = world.sched
  out = set(sched._ready)
  out.update(sched._selectHub._tasks.keys())
  q = sched._selectHub._incoming
  try:
    out.update(item[0] for item in list(q.queue))
  except Exception:
    pass
  return out
