"""
C06 -- cooperative scheduler semantics (single-threaded half: inline hub).

World: a real recoco Scheduler + SelectHub (inline, i.e. select on the
scheduler's own thread) wired to the simulator's clock, select and sockets.
Small task programs over the whole yield vocabulary are run by ONE
interpreter generator; every step, wake-up and timer firing is checked
on-line against what the property statement demands.

Findings are recognised by narrow signatures and tolerated only while
listed as open in known_findings.json:
  C06-SEND-WOULDBLOCK-NAMEERROR   Send._sendReturnFunc: undefined `scheduler`
  C06-AGAIN-EMPTY-STOPITERATION   AgainTask: sub-function that ends before
                                  its first yield -> StopIteration thrown
                                  into the caller
  C06-TASK-TARGET-EXCEPTION-NOT-FORWARDED
                                  Task.run (target=...) never forwards a
                                  thrown exception to the target generator
  C06-SEND-ERROR-SPIN             (latent, masked by the first) Send on a
                                  socket with a fatal error retries for ever

Plan layout (every element of plan["steps"] can be deleted on its own):
  ["s",  tno, op, args]     one step of task program <tno> (list order is
                            program order)
  ["tm", no, spec]          a recoco Timer
  ["h",  tick, kind, args]  a harness event at T0 + tick*TICK
"""

import sys

import pox.lib.recoco.recoco as R

import errno
from simkit import sim as S
from simkit.rng import Rng, mix
from simkit.check import load_known

PROP = "C06"
LEVEL = "exploration"
BUDGET = {"quick": 10000, "thorough": 1000000}
RULE = ("Each run: 1-6 seeded task programs (Task subclasses and "
        "Task(target=...)) of 1-12 steps (yield 0 / float / "
        "Sleep relative+absolute / block+schedule() / Select / Recv / Send "
        "with back-pressure and resets / Lock / Again+task_function nested "
        "to depth 3 / raise / exit), 0-3 Timers (one-shot, recurring, "
        "cancelled, self-stopping, absolute, late start), priorities below 1, "
        "CPU cost per cycle and harness events at seeded virtual times, "
        "executed by the real Scheduler/SelectHub (inline hub; select or, in "
        "a fifth of the runs, the epoll backend) on the "
        "simulated clock/select/sockets; every resumption is checked for "
        "order, exactly-once, not-early, value received and bounded "
        "lateness, and at the end every task must have finished or be "
        "legitimately blocked. Non-trivial = at least 2 tasks and 4 distinct "
        "step kinds ran; distinct = distinct event-log digest.")
ASSUMPTIONS = [
  "single OS thread, inline select hub only (the threaded hub is checked "
  "elsewhere)",
  "the simulated select never returns early and never reports a non-ready fd",
  "every simulated socket is read by one task and written by one task (in "
  "most runs the same one; with cfg cross, task A sends on the socket task "
  "B reads); the other end belongs to the harness",
  "a fifth of the runs use the hub's epoll backend (pox.lib.epoll_select on "
  "a simulated, level-triggered epoll object): it documents that it ignores "
  "exceptional-condition lists, so those plans have none; a socket error / "
  "hang-up is then reported to Recv and Send as an exceptional condition "
  "(they list the socket there) and ends them, which is accepted",
  "schedule() is only applied to tasks blocked by `yield False`/Sleep(None) "
  "(waking a task that sleeps in the hub is API misuse)",
  "where the property is silent both behaviours are accepted: a timeout "
  "reported although I/O is ready, Select(timeout=0) not polling, the order "
  "among simultaneously ready tasks, which waiter receives a released lock, "
  "a sub-task killed by an error raised inside its blocking operation "
  "(caller then stays blocked), Send on a socket with a fatal error",
  "a Task(target=...) whose generator simply ends is reported by the "
  "scheduler as having raised (RuntimeError: generator raised "
  "StopIteration); the task is over either way, so this is only counted "
  "(probe target_end_reported_as_exception)",
  "task programs and readiness patterns are sampled, not enumerated",
]
REAL = ["pox.lib.recoco.recoco Scheduler.cycle/schedule/fast_schedule",
        "BaseTask.execute, Task", "SelectHub (inline) _select/_return/"
        "registerSelect/registerTimer", "Sleep/Select/Recv/Send",
        "Lock", "Again/AgainTask/task_function", "Timer"]
STUBBED = ["time/select/socket/pinger (simkit)",
           "Scheduler._random (seeded chooser)",
           "BaseTask.execute wrapped by an observing shim (calls the real "
           "one)", "AgainTask.__hash__ (task id, for reproducible set order)"]
EXPECT_PROBES = ["op_y0", "op_fsleep", "op_sleep", "op_sleepabs", "op_block",
                 "op_select", "op_recv", "op_send", "op_acq", "op_rel",
                 "op_again", "op_raise", "op_exit", "wake_ok", "wake_dup",
                 "select_timeout", "select_io", "recv_data", "recv_none",
                 "send_full", "send_partial_progress", "tx_spurious_eagain",
                 "lock_wait",
                 "lock_handoff", "lock_nonblock_false", "again_val",
                 "again_exc", "again_none", "again_depth3", "timer_fire",
                 "timer_cancelled_before_fire", "timer_selfstop",
                 "timer_recurring_fire", "prio_draw", "task_death_expected",
                 "sleep_immediate", "sleep_via_hub", "hub_epoll",
                 "timer_callback_returns_falsy"]

T0 = S.T0
TICK = S.TICK
EPS = S.EPS
CYCLE_MAX = 2.0           # recoco.CYCLE_MAXIMUM, restated independently

KF_SEND = "C06-SEND-WOULDBLOCK-NAMEERROR"
KF_EMPTY = "C06-AGAIN-EMPTY-STOPITERATION"
KF_SPIN = "C06-SEND-ERROR-SPIN"
KF_TARGET = "C06-TASK-TARGET-EXCEPTION-NOT-FORWARDED"


# ---------------------------------------------------------------------------
# plan generation
# ---------------------------------------------------------------------------

def _dur(r):
  return r.wpick([(2, 0.0), (2, TICK), (1, 0.001), (1, 0.1), (3, 0.25),
                  (3, 0.5), (3, 1.0), (2, 1.5), (2, 2.0), (1, 2.5),
                  (1, 3.0)])


def _tick(r):
  k = r.wpick([(3, 0), (1, 1), (2, 2)])
  if k == 0:
    t = 256 * r.randint(0, 32)
  elif k == 1:
    t = 256 * r.randint(0, 32) + r.pick([-1, 1])
  else:
    t = r.randint(0, 8192)
  return max(0, t)


def _timeout(r):
  return r.wpick([(3, None), (1, 0.0), (1, TICK), (2, 0.25), (2, 0.5),
                  (2, 1.0), (1, 2.5)])


def _sel_args(r, socks, now=()):
  a = {"r": [], "w": [], "x": []}
  for s in socks:
    if r.chance(0.6):
      a["r"].append(s)
    if r.chance(0.25) and s not in now:
      a["w"].append(s)
    if r.chance(0.15):
      a["x"].append(s)
  to = _timeout(r)
  if not (a["r"] or a["w"] or a["x"]) and to is None:
    to = 0.5
  a["to"] = to
  a["form"] = r.randrange(3)
  if r.chance(0.3):
    a["consume"] = True
  return a


class _Gen(object):
  def __init__(self, r, ntask, nlock, w, cross=None):
    self.r = r
    self.ntask = ntask
    self.nlock = nlock
    self.w = w
    self.events = []
    self.serial = 0
    # cross = (A, B): task A does all its sending on task B's first socket,
    # which B only ever reads from (one connection, one task per direction)
    self.cross = cross

  def io_event(self, op, a):
    """Harness events that make the wait of this step end (most of the
    time); without them the final sweep ends it."""
    r = self.r
    if op == "select":
      for s in a["r"]:
        if r.chance(0.7):
          self.events.append(["h", _tick(r), r.wpick(
              [(12, "data"), (2, "eof"), (1, "reset")]),
              {"s": s, "n": r.pick([1, 3, 10])}])
      for s in a["w"]:
        if r.chance(0.5):
          self.events.append(["h", _tick(r), "credit",
                              {"s": s, "n": r.pick([1, 4, None])}])
      for s in a["x"]:
        if r.chance(0.5):
          self.events.append(["h", _tick(r), "exc", {"s": s}])
    elif op == "recv":
      if r.chance(0.8):
        self.events.append(["h", _tick(r), r.wpick(
            [(14, "data"), (2, "eof"), (1, "reset"), (2, "exc")]),
            {"s": a["s"], "n": r.pick([1, 3, 10])}])
    elif op == "send":
      for _ in range(r.randint(0, 3)):
        self.events.append(["h", _tick(r), r.wpick(
            [(16, "credit"), (2, "drop"), (1, "reset")]),
            {"s": a["s"], "n": r.pick([1, 2, 4, 16, None])}])

  def common(self, op, tno, depth):
    """args of the ops that exist at every nesting depth"""
    r = self.r
    socks = [2 * tno, 2 * tno + 1]
    if op == "sleep":
      return {"d": -0.5 if r.chance(0.04) else _dur(r)}
    if op == "sleepabs":
      return {"at": (_tick(r) - r.pick([0, 0, 2048])) * TICK,
              "kw": r.chance(0.5)}
    cross = self.cross
    if op == "select":
      a = _sel_args(r, socks,
                    now=(2 * tno,) if cross and tno == cross[1] else ())
      self.io_event(op, a)
      return a
    if op == "recv":
      a = {"s": r.pick(socks), "n": r.pick([1, 2, 5, 64]),
           "to": _timeout(r)}
      self.io_event(op, a)
      return a
    if op == "send":
      if cross and tno == cross[0]:
        socks = [2 * cross[1]]
      elif cross and tno == cross[1]:
        socks = [2 * tno + 1]
      a = {"s": r.pick(socks), "n": r.pick([1, 3, 8, 20]),
           "to": r.wpick([(4, None), (1, 0.5), (1, 1.0)]),
           "bs": r.pick([None, None, 4]),
           "eg": r.pick([0, 0, 0, 1, 2])}
      self.io_event(op, a)
      return a
    if op == "acq":
      return {"l": r.randrange(self.nlock), "b": r.chance(0.75)}
    if op == "rel":
      return {"l": r.randrange(self.nlock)}
    if op == "again":
      self.serial += 1
      a = {"tf": r.chance(0.5), "sub": self.sub(tno, depth + 1)}
      if r.chance(0.3):
        a["prop"] = True
      if not a["sub"] and r.chance(0.3):
        a["plain"] = r.pick([None, 5, "p"])
      return a
    return {}

  def sub(self, tno, depth):
    r = self.r
    n = r.wpick([(1, 0), (3, 1), (3, 2), (2, 3), (1, 4)])
    out = []
    held = None
    for i in range(n):
      ops = [(3, "sleep"), (1, "sleepabs"), (1, "block"), (2, "select"),
             (2, "recv"), (2, "send"), (1, "raise"), (1, "acq")]
      if depth < 3:
        ops.append((3, "again"))
      if i == n - 1:
        ops.append((6, "ret"))
      op = r.wpick(ops)
      if op == "ret":
        self.serial += 1
        out.append(["ret", {"v": r.pick([None, False, 0, 7, 2.5,
                                         "r%d" % self.serial])}])
      elif op == "raise":
        out.append(["raise", {}])
      elif op == "block":
        out.append(["block", {"v": "none"}])
        self.events.append(["h", _tick(r), "wake", {"t": tno}])
      elif op == "acq":
        a = self.common("acq", tno, depth)
        out.append(["acq", a])
        held = a["l"]
      else:
        out.append([op, self.common(op, tno, depth)])
      if held is not None and op != "acq" and r.chance(0.6):
        out.append(["rel", {"l": held, "cond": True}])
        held = None
    if held is not None:
      out.append(["rel", {"l": held, "cond": True}])
    return out

  def program(self, tno):
    r = self.r
    w = self.w
    n = r.randint(1, 12)
    out = []
    held = None
    ops = [(4 * w["cpu"], "y0"), (3, "fsleep"), (3, "sleep"),
           (2, "sleepabs"), (2 * w["blk"], "block"), (4 * w["io"], "select"),
           (3 * w["io"], "recv"), (3 * w["io"], "send"),
           (3 * w["lock"], "acq"), (0.3 * w["lock"], "rel"),
           (3 * w["again"], "again"), (0.5, "raise"), (0.3, "exit"),
           (1.5 * w["blk"], "wake")]
    for _ in range(n):
      op = r.wpick(ops)
      if op == "y0":
        a = {"f": True} if r.chance(0.2) else {}
      elif op == "fsleep":
        a = {"d": r.wpick([(8, _dur(r)), (1, 1), (1, 2), (1, -0.5)])}
      elif op == "block":
        a = {"v": r.pick(["false", "none"])}
        if r.chance(0.85):
          ev = ["h", _tick(r), "wake", {"t": tno}]
          if r.chance(0.2):
            ev[3]["twice"] = True
          self.events.append(ev)
      elif op == "wake":
        a = {"t": r.randrange(self.ntask)}
        if r.chance(0.2):
          a["twice"] = True
      elif op == "acq":
        a = self.common(op, tno, 0)
        if held is None:
          held = a["l"]
      else:
        a = self.common(op, tno, 0)
      out.append(["s", tno, op, a])
      if held is not None and op != "acq" and r.chance(0.5):
        out.append(["s", tno, "rel",
                    {"l": held, "cond": not r.chance(0.1)}])
        held = None
    if held is not None and r.chance(0.9):
      out.append(["s", tno, "rel", {"l": held, "cond": True}])
    return out


def gen_plan(seed, tier):
  r = Rng(seed)
  ntask = r.wpick([(1, 1), (3, 2), (3, 3), (2, 4), (1, 5), (1, 6)])
  nlock = 2
  # swarm: every plan emphasises a random subset of the vocabulary
  w = {k: r.pick([0.3, 1, 1, 3]) for k in ("cpu", "blk", "io", "lock",
                                           "again")}
  lowprio = r.chance(0.25)
  cfg = {
    "cpu": r.wpick([(6, 0), (2, 1), (1, 2)]),
    "prio": [r.pick([0.25, 0.5, 0.75, 1]) if lowprio else 1
             for _ in range(6)],
    "start": [0 if r.chance(0.75) else _tick(r) for _ in range(6)],
    "fast": [r.chance(0.5) for _ in range(6)],
    "target": [r.chance(0.2) for _ in range(6)],
    "credit": [r.wpick([(4, None), (1, 0), (1, 1), (1, 5)])
               for _ in range(12)],
    "recv_mode": r.pick(["all", "all", "choose"]),
    "shuffle": r.chance(0.3),
    # scripted raises use an exception outside the Exception hierarchy
    "boom_base": r.chance(0.25),
  }
  r2 = Rng(mix(seed, "hub"))
  epoll = r2.chance(0.2)
  cross = None
  if ntask >= 2 and r2.chance(0.5 if epoll else 0.1):
    cross = r2.sample(list(range(ntask)), 2)
    cfg["cross"] = cross
  g = _Gen(r, ntask, nlock, w, cross)
  steps = []
  for tno in range(ntask):
    steps.extend(g.program(tno))
  ntm = r.wpick([(5, 0), (3, 1), (2, 2), (1, 3)])
  for no in range(ntm):
    rec = r.chance(0.5)
    spec = {"c": 0 if r.chance(0.7) else _tick(r) // 4,
            "rec": rec,
            "d": r.pick([0.25, 0.5, 1.0, 1.5]) if rec else _dur(r),
            "abs": (not rec) and r.chance(0.25),
            "started": r.chance(0.8),
            "selfstop": r.chance(0.8),
            "cb": r.wpick([(6, "ok"), (3, "false"), (1, "raise")]),
            "k": r.randint(1, 3)}
    if spec["abs"]:
      spec["at"] = (_tick(r) // 2 - r.pick([0, 0, 1024])) * TICK
    # what an ordinary firing returns (only the object False stops a timer;
    # a count that happens to be 0 does not)
    spec["ret"] = Rng(mix(seed, "tmret", no)).pick(["k", "k", 0, 0.0, "",
                                                   None])
    steps.append(["tm", no, spec])
    if not spec["started"] and r.chance(0.9):
      g.events.append(["h", _tick(r) // 2, "tstart", {"tm": no}])
    if r.chance(0.5):
      g.events.append(["h", _tick(r), "tcancel", {"tm": no}])
  # stray events
  for _ in range(r.randint(0, 3)):
    k = r.wpick([(3, "wake"), (2, "data"), (1, "credit"), (1, "jump")])
    if k == "wake":
      a = {"t": r.randrange(ntask)}
    elif k == "jump":
      a = {"dt": r.pick([0.5, 3.0])}
    else:
      a = {"s": r.randrange(2 * ntask), "n": r.pick([1, 3, None])}
      if k == "data" and a["n"] is None:
        a["n"] = 2
    g.events.append(["h", _tick(r), k, a])
  g.events.sort(key=lambda e: e[1])
  steps.extend(g.events)
  if epoll:
    # the hub's other backend (--epoll-selecthub): pox.lib.epoll_select on
    # a simulated epoll object.  It documents that it ignores the
    # exceptional-condition lists, so those are left out of such plans.
    cfg["epoll"] = True
    _strip_x(steps)
    steps[:] = [st for st in steps
                if not (st[0] == "h" and st[2] == "exc")]
  return {"prop": PROP, "seed": seed, "cfg": cfg, "steps": steps}


def _strip_x(node):
  if isinstance(node, dict):
    if "x" in node and "r" in node and "w" in node:
      node["x"] = []
      if not (node["r"] or node["w"]) and node.get("to") is None:
        node["to"] = 0.5
    for v in node.values():
      _strip_x(v)
  elif isinstance(node, list):
    for v in node:
      _strip_x(v)


def minimise_hint(plan):
  """Simplifications ddmin cannot make: drop nested sub-steps, flatten the
  swarm knobs."""
  import copy
  out = []
  cfg = plan["cfg"]
  if cfg.get("cpu"):
    p = copy.deepcopy(plan)
    p["cfg"]["cpu"] = 0
    out.append(p)
  if any(x != 1 for x in cfg.get("prio", [])):
    p = copy.deepcopy(plan)
    p["cfg"]["prio"] = [1] * 6
    out.append(p)
  if cfg.get("shuffle"):
    p = copy.deepcopy(plan)
    p["cfg"]["shuffle"] = False
    out.append(p)
  if cfg.get("recv_mode") != "all":
    p = copy.deepcopy(plan)
    p["cfg"]["recv_mode"] = "all"
    out.append(p)
  if any(cfg.get("target", [])):
    p = copy.deepcopy(plan)
    p["cfg"]["target"] = [False] * 6
    out.append(p)
  if any(cfg.get("start", [])):
    p = copy.deepcopy(plan)
    p["cfg"]["start"] = [0] * 6
    out.append(p)

  def paths(sub, prefix):
    for i, st in enumerate(sub):
      yield prefix + [i]
      if st[0] == "again":
        for q in paths(st[1].get("sub", []), prefix + [i]):
          yield q

  top_ok = ("sleep", "sleepabs", "block", "select", "recv", "send", "acq",
            "rel", "again", "raise")
  for si, st in enumerate(plan["steps"]):
    if st[0] != "s" or st[2] != "again":
      continue
    sub = st[3].get("sub", [])
    if sub and all(x[0] in top_ok for x in sub):
      # call replaced by the callee's steps
      p = copy.deepcopy(plan)
      p["steps"][si:si + 1] = [["s", st[1], x[0], x[1]] for x in sub]
      out.append(p)
    for pth in paths(st[3].get("sub", []), []):
      p = copy.deepcopy(plan)
      sub = p["steps"][si][3]["sub"]
      for j in pth[:-1]:
        sub = sub[j][1]["sub"]
      del sub[pth[-1]]
      out.append(p)
      if len(out) > 60:
        return out
  return out


# ---------------------------------------------------------------------------
# harness objects
# ---------------------------------------------------------------------------

class HarnessErrE(Exception):
  def __init__(self, tag):
    Exception.__init__(self, tag)
    self.tag = tag


class HarnessErrB(BaseException):
  """the same, outside the Exception hierarchy (what sys.exit() in a task
  or a generator close would raise): used by the runs with cfg.boom_base"""
  def __init__(self, tag):
    BaseException.__init__(self, tag)
    self.tag = tag


HarnessErrE.__name__ = HarnessErrB.__name__ = "HarnessErr"
_HE = (HarnessErrE, HarnessErrB)
HarnessErr = HarnessErrE      # rebound per run (see run_plan)


def _stream(idx, off, n):
  return bytes(((idx * 29 + (off + i) * 7 + 1) & 0xff) for i in range(n))


def _payload(tno, serial, n):
  return bytes(((tno * 37 + serial * 11 + i * 3 + 5) & 0xff)
               for i in range(n))


class CSock(S.SimSocket):
  """Task-side end of a simulated connection; logs what recoco does to it."""

  def __init__(self, sim, name, idx):
    S.SimSocket.__init__(self, sim, name)
    self.idx = idx
    self.recv_log = []
    self.send_log = []
    self.inj = 0
    self.eagain_left = 0
    self.since = {"r": None, "w": None, "x": None}

  def recv(self, n, flags=0):
    try:
      out = S.SimSocket.recv(self, n, flags)
    except OSError:
      self.recv_log.append(None)
      raise
    self.recv_log.append(out)
    return out

  def send(self, data, flags=0):
    if (self.eagain_left > 0 and not self.closed and not self.tx_dead
        and self.tx_fatal is None):
      # spurious readiness: select reported the socket writable, send()
      # would block all the same (legal; another writer, Linux semantics)
      self.eagain_left -= 1
      self.sim.stats["tx_spurious_eagain"] += 1
      self.send_log.append((self.sim.now, None, len(data)))
      raise BlockingIOError(errno.EAGAIN, "Resource temporarily unavailable")
    try:
      k = S.SimSocket.send(self, data, flags)
    except OSError:
      self.send_log.append((self.sim.now, None, len(data)))
      raise
    self.send_log.append((self.sim.now, k, len(data)))
    return k

  def feed(self, n):
    self.inject(_stream(self.idx, self.inj, n))
    self.inj += n

  def refresh(self):
    now = self.sim.now
    s = self.since
    for k, v in (("r", self.readable()), ("w", self.writable()),
                 ("x", self.exceptional())):
      if v:
        if s[k] is None:
          s[k] = now
      else:
        s[k] = None


class Frame(object):
  __slots__ = ("depth", "path", "obj", "wait", "yielded", "sub_result",
               "ended")

  def __init__(self, depth, path, obj):
    self.depth = depth
    self.path = path
    self.obj = obj
    self.wait = None
    self.yielded = False
    self.sub_result = None
    self.ended = False


class Thread(object):
  """One logical thread of control: a root task plus its Again sub-tasks."""

  def __init__(self, tno, prog):
    self.tno = tno
    self.prog = prog
    self.root = None
    self.frames = []
    self.done = False
    self.dead = False
    self.ignore = False
    self.started = False
    self.tokens = 0
    self.nsteps = 0
    self.expect_raise = None
    self.holding = {}       # lock no -> count (interpreter's own view)
    self.serial = 0
    self.target = False     # created as Task(target=generator function)


class LockM(object):
  def __init__(self, no):
    self.no = no
    self.real = R.Lock()
    self.holder = None      # tno, "?" (handed to one of cands), or None
    self.waiters = set()
    self.cands = set()
    self.handoff = None     # (cycle, n_ready, front) of the pending hand-off


class Tm(object):
  def __init__(self, no, spec):
    self.no = no
    self.spec = spec
    self.obj = None
    self.started_at = None
    self.due0 = None
    self.fires = []
    self.cancel_time = None
    self.stopped = False
    self.dead = False
    self.expect_raise = False
    self.ref_cycle = 0
    self.ref_jump = 0.0


class PTask(R.Task):
  def __init__(self, O, L):
    self._O = O
    self._c06 = L
    R.Task.__init__(self, name="t%d" % L.tno)

  def __hash__(self):
    return self._c06.tno

  def run(self):
    return _interp(self._O, self._c06, self._c06.prog, 0, (), None)


class TTask(R.Task):
  """The same program, started the threading.Thread way:
  Task(target=<generator function>, args=...)."""

  def __init__(self, O, L):
    self._O = O
    self._c06 = L
    R.Task.__init__(self, target=_interp, name="t%d" % L.tno,
                    args=(O, L, L.prog, 0, (), None))

  def __hash__(self):
    return self._c06.tno


def _kind(v, e):
  if e is not None:
    return "x:" + type(e).__name__
  if v is None:
    return "N"
  if v is True:
    return "T"
  if v is False:
    return "F"
  if isinstance(v, (bytes, bytearray)):
    return "b%d" % len(v)
  if isinstance(v, tuple) and len(v) == 3:
    try:
      return "sel%d/%d/%d" % (len(v[0]), len(v[1]), len(v[2]))
    except Exception:
      return "tuple"
  if isinstance(v, (int, float, str)):
    return "%s:%s" % (type(v).__name__, v)
  return "o:" + type(v).__name__


def _same(a, b):
  return type(a) is type(b) and a == b


# ---------------------------------------------------------------------------
# the interpreter (ONE generator function runs every program and sub-program)
# ---------------------------------------------------------------------------

def _interp(O, L, prog, depth, path, holder):
  fr = O.frame_enter(L, depth, path, holder)
  if fr is None:
    return
  for i, st in enumerate(prog):
    if O.viol is not None or O.herr is not None:
      return
    op = st[0]
    a = st[1]
    O.step(L, fr, i, op)
    if op == "raise":
      tag = "t%d.%s" % (L.tno, ".".join(str(x) for x in path + (i,)))
      O.frame_exit(L, fr, "exc", tag)
      # (inside a sub-task always an ordinary exception: whether anything
      # outside the Exception hierarchy is handed to the caller or treated
      # like an interpreter exit is not something the statement decides)
      raise (HarnessErr if depth == 0 else HarnessErrE)(tag)
    if op == "exit":
      break
    if op == "ret":
      if depth > 0:
        O.frame_exit(L, fr, "val", a["v"])
        yield a["v"]
        O.fail("subtask_resumed_after_return",
               "task %d: a sub-task that had returned a value was resumed"
               % L.tno)
        return
      break
    y, w = O.build(L, fr, i, op, a)
    try:
      v = yield y
      e = None
    except Exception as ex:
      v = None
      e = ex
    act = O.resume(L, fr, w, v, e)
    if act is not None:
      O.frame_exit(L, fr, "exc", act)
      raise e
  O.frame_exit(L, fr, "none", None)


# ---------------------------------------------------------------------------
# the oracle
# ---------------------------------------------------------------------------

class Oracle(object):

  def __init__(self, sim, sched, plan, known):
    self.sim = sim
    self.epoll = bool(plan["cfg"].get("epoll"))
    self.sched = sched
    self.cfg = plan["cfg"]
    self.known = known
    self.hit = []
    self.viol = None
    self.herr = None
    self.cur = None
    self.front = 0
    self.jumped = 0.0
    self.cpu = self.cfg.get("cpu", 0)
    self.threads = {}
    self.timers = {}
    self.socks = {}
    self.locks = {}
    self.last_sel = None
    self.allp1 = True
    self.expected_deaths = []
    self.kinds = set()
    self.P = sim.probes

  # -- verdict helpers ---------------------------------------------------
  def fail(self, vclass, detail):
    if self.viol is None:
      self.viol = (vclass, detail)

  def known_or_fail(self, kid, vclass, detail):
    if kid in self.known:
      if kid not in self.hit:
        self.hit.append(kid)
      self.P["known_" + kid] += 1
      return True
    self.fail(vclass, detail + " [finding id %s]" % kid)
    return False

  def slack(self, c0, j0):
    return (CYCLE_MAX + (self.sim.cycles - c0 + 1) * self.cpu * TICK
            + (self.jumped - j0) + EPS)

  # -- slices ------------------------------------------------------------
  def slice_begin(self, obj):
    if self.cur is not None:
      self.fail("overlap", "a task slice began while another task's slice "
                "was still in progress")
    if getattr(obj, "_c06_done", False):
      self.fail("finished_task_ran_again", "a task that had finished or "
                "raised was executed again")
    self.cur = obj

  def slice_end(self, obj):
    self.cur = None

  def on_task_exc(self, obj, e):
    """An exception is leaving BaseTask.execute (the scheduler is about to
    de-schedule the task)."""
    tb = e.__traceback__
    last = None
    while tb is not None:
      last = tb
      tb = tb.tb_next
    if (last is not None and not isinstance(e, _HE)
        and last.tb_frame.f_code.co_filename == __file__):
      import traceback
      self.herr = "".join(traceback.format_exception(type(e), e,
                                                     e.__traceback__))[-2500:]
      return
    L = getattr(obj, "_c06", None)
    tm = getattr(obj, "_c06tm", None)
    msg = "%s: %s" % (type(e).__name__, str(e)[:160])
    if L is not None:
      if L.ignore:
        return
      if (isinstance(e, _HE) and obj is L.root
          and L.expect_raise == e.tag):
        L.dead = True
        obj._c06_done = True
        self.expected_deaths.append(("HarnessErr", e.tag))
        self.P["task_death_expected"] += 1
        return
      fr = L.frames[-1] if L.frames else None
      w = fr.wait if fr is not None else None
      if L.target and obj is L.root:
        gsi = (type(e) is RuntimeError
               and str(e) == "generator raised StopIteration")
        if gsi and L.done:
          # Task.run lets the StopIteration of a target that simply ended
          # escape: the scheduler reports an exception for a normal exit.
          # The task is over either way; the property does not forbid the
          # report, so it is only counted.
          self.P["target_end_reported_as_exception"] += 1
          self.expected_deaths.append(("RuntimeError", str(e)))
          return
        if w is not None and w["k"] == "again" and fr.sub_result is not None:
          kind, val = fr.sub_result
          if kind == "empty" and gsi:
            if self.known_or_fail(
                KF_EMPTY, "again_empty_stopiteration",
                "task %d step %d (again): the sub-task function finished "
                "before its first yield and StopIteration was thrown into "
                "the caller" % (L.tno, w["i"])):
              L.ignore = L.dead = True
              self.expected_deaths.append(("RuntimeError", str(e)))
            return
          if kind == "exc" and isinstance(e, _HE) and e.tag == val:
            if self.known_or_fail(
                KF_TARGET, "target_task_exception_not_forwarded",
                "task %d step %d (again): the caller is a Task(target=...) "
                "generator; its sub-task raised HarnessErr(%s) but the "
                "exception never reached the caller's code: Task.run() "
                "received it instead and the task was de-scheduled"
                % (L.tno, w["i"], val)):
              L.ignore = L.dead = True
              self.expected_deaths.append(("HarnessErr", e.tag))
            return
      if (isinstance(e, NameError) and "scheduler" in str(e)
          and w is not None and w["k"] == "send" and obj is fr.obj):
        sk = w["sock"]
        lastc = sk.send_log[-1] if sk.send_log else None
        if lastc is not None and (lastc[1] is None or lastc[1] == 0):
          if self.known_or_fail(
              KF_SEND, "send_wouldblock_nameerror",
              "task %d: Send._sendReturnFunc raised %s when send() %s after "
              "select reported the socket writable; the sending task was "
              "de-scheduled" % (L.tno, msg, "raised" if lastc[1] is None
                                else "returned 0")):
            L.ignore = True
            L.dead = True
            self.expected_deaths.append(("NameError", str(e)[:200]))
          return
      self.fail("task_raised", "task %d was de-scheduled by an exception its "
                "program did not raise: %s (waiting in %s)"
                % (L.tno, msg, w["k"] if w else "nothing"))
      return
    if tm is not None:
      if isinstance(e, _HE) and tm.expect_raise:
        tm.dead = True
        tm.expect_raise = False
        self.expected_deaths.append(("HarnessErr", e.tag))
        return
      self.fail("task_raised", "timer %d task raised %s" % (tm.no, msg))
      return
    self.fail("task_raised", "an internal task raised %s" % msg)

  # -- frames ------------------------------------------------------------
  def frame_enter(self, L, depth, path, holder):
    if L.ignore:
      return None
    if depth == 0:
      obj = L.root
      if L.started:
        self.fail("task_started_twice", "task %d: program started twice"
                  % L.tno)
        return None
      L.started = True
    else:
      obj = holder["op"].subtask
      obj._c06 = L
      par = L.frames[-1] if L.frames else None
      if par is None or par.wait is None or par.wait["k"] != "again":
        self.fail("subtask_without_caller", "task %d: a sub-task started "
                  "while its caller was not waiting for it" % L.tno)
        return None
    if self.cur is not obj:
      self.fail("wrong_slice", "task %d: program code ran outside its own "
                "task's slice" % L.tno)
      return None
    fr = Frame(depth, path, obj)
    L.frames.append(fr)
    return fr

  def frame_exit(self, L, fr, kind, val):
    if L.ignore or self.viol is not None:
      return
    if not L.frames or L.frames[-1] is not fr:
      self.fail("frame_order", "task %d: a frame ended that was not the "
                "innermost one" % L.tno)
      return
    L.frames.pop()
    fr.ended = True
    if fr.depth == 0:
      fr.obj._c06_done = True
      if kind == "exc":
        L.expect_raise = val
        fr.obj._c06_done = False     # the raise itself is still to come
      else:
        L.done = True
      return
    fr.obj._c06_done = True
    self.front += 1
    par = L.frames[-1]
    if kind == "none" and not fr.yielded:
      par.sub_result = ("empty", None)
    else:
      par.sub_result = (kind, val)

  # -- a step begins -----------------------------------------------------
  def step(self, L, fr, i, op):
    if L.ignore:
      return
    if self.cur is not fr.obj:
      self.fail("wrong_slice", "task %d step %s.%d ran outside its own "
                "task's slice" % (L.tno, fr.path, i))
    if not L.frames or L.frames[-1] is not fr:
      self.fail("caller_before_subtask_end", "task %d: step %d of an outer "
                "frame ran while its sub-task had not ended" % (L.tno, i))
    L.nsteps += 1
    self.kinds.add(op)
    self.P["op_" + op] += 1
    if fr.depth == 3:
      self.P["again_depth3"] += 1
    self.sim.ev("s", L.tno, fr.path, i, op, self.sim.now - T0)

  # -- build the value to yield and the wait record ---------------------
  def build(self, L, fr, i, op, a):
    sim = self.sim
    now = sim.now
    for sk in self.socks.get(L.tno, ()):
      sk.refresh()
    if op == "wake":
      T = self.threads.get(a.get("t"))
      if T is not None and T is not L:
        self.try_wake(T, a.get("twice", False))
      op = "y0"
      a = {}
    if op == "rel":
      # only the holder releases; an unconditional release of a lock that
      # is FREE is kept (recoco must fail it); everything else is a no-op
      m = self.locks[a["l"] % len(self.locks)]
      if not L.holding.get(m.no) and (a.get("cond") or m.holder is not None):
        op = "sleep"
        a = {"d": 0.0}
    if fr.depth > 0 and op in ("y0", "fsleep"):
      op = "sleep"
      a = {"d": 0.0}
    w = {"k": op, "t0": now, "c0": sim.cycles, "j0": self.jumped,
         "f0": self.front, "i": i}
    if op == "y0":
      y = 0.0 if a.get("f") else 0
      w["n"] = len(self.sched._ready)
    elif op == "fsleep":
      y = a["d"]
      if y == 0:
        y = 0.25
      w["due"] = now + y
      w["k"] = "sleep"
    elif op == "sleep":
      y = R.Sleep(a["d"])
      w["due"] = now + a["d"]
    elif op == "sleepabs":
      t = T0 + a["at"]
      if a.get("kw"):
        y = R.Sleep(timeToWake=t, absoluteTime=True)
      else:
        y = R.Sleep(t, True)
      w["due"] = t
      w["k"] = "sleep"
    elif op == "block":
      if a.get("v") == "false" and fr.depth == 0:
        y = False
      elif a.get("v") == "true" and fr.depth == 0:
        # (any value the scheduler has no meaning for deschedules the task;
        # True is one -- and happens to be an int to isinstance)
        y = True
        self.sim.probes["blocked_by_yielding_true"] += 1
      else:
        y = R.Sleep(None)
      L.tokens = 0
    elif op == "select":
      socks = self.socks[L.tno]
      rl = [socks[s & 1] for s in a["r"]]
      wl = [socks[s & 1] for s in a["w"]]
      xl = [socks[s & 1] for s in a["x"]]
      to = a.get("to")
      if not (rl or wl or xl) and to is None:
        to = 0.5
      form = a.get("form", 0)
      if form == 2:
        args = [tuple(rl) if rl else None, tuple(wl) if wl else None,
                tuple(xl) if xl else None]
      else:
        args = [list(rl), list(wl), list(xl)]
      if to is None:
        y = R.Select(*args)
      elif form == 1:
        y = R.Select(*args, timeout=to)
      else:
        y = R.Select(args[0], args[1], args[2], to)
      w.update(r=rl, w=wl, x=xl, to=to, consume=a.get("consume"))
      if to is not None:
        w["due"] = now + to
    elif op == "recv":
      sk = self.socks[L.tno][a["s"] & 1]
      to = a.get("to")
      if to is None:
        y = R.Recv(sk, a["n"])
      else:
        y = R.Recv(sk, a["n"], timeout=to)
        w["due"] = now + to
      w.update(sock=sk, n=a["n"], to=to, ri=len(sk.recv_log),
               since=sk.since["r"])
    elif op == "send":
      sk = self.socks[L.tno][a["s"] & 1]
      L.serial += 1
      data = _payload(L.tno, L.serial, a["n"])
      kw = {}
      if a.get("to") is not None:
        kw["timeout"] = a["to"]
      if a.get("bs"):
        kw["block_size"] = a["bs"]
      sk.eagain_left = a.get("eg") or 0
      y = R.Send(sk, data, **kw)
      w.update(sock=sk, data=data, to=a.get("to"), bs=a.get("bs") or 8192,
               si=len(sk.send_log), a0=len(sk.accepted),
               p0=len(sk.peer.rxbuf))
    elif op == "acq":
      m = self.locks[a["l"] % len(self.locks)]
      b = bool(a.get("b", True))
      y = m.real.acquire(b)
      w.update(lock=m, b=b)
      if m.holder is None:
        m.holder = L.tno
        w["imm"] = True
        w["exp"] = True
      elif not b:
        w["imm"] = True
        w["exp"] = False
        self.P["lock_nonblock_false"] += 1
      else:
        m.waiters.add(L.tno)
        w["imm"] = False
        w["exp"] = True
        self.P["lock_wait"] += 1
    elif op == "rel":
      m = self.locks[a["l"] % len(self.locks)]
      y = m.real.release()
      w["lock"] = m
      if m.holder is None:
        w["expect_death"] = True
        self.expected_deaths.append(("RuntimeError",
                                     "You haven't locked this lock"))
        self.P["rel_unheld"] += 1
      else:
        m.holder = None
        if m.waiters:
          m.holder = "?"
          m.cands = set(m.waiters)
          m.handoff = (sim.cycles, len(self.sched._ready), self.front)
          self.P["lock_handoff"] += 1
        if L.holding.get(m.no):
          L.holding[m.no] -= 1
    elif op == "again":
      holder = {}
      sub = a.get("sub", [])
      if "plain" in a and not sub:
        pv = a["plain"]

        def plain(L=L, path=fr.path + (i,), pv=pv):
          # an ordinary function wrapped by task_function
          self.plain_called(L, path, pv)
          return pv
        y = R.task_function(plain)()
        w["plain"] = True
        w["pv"] = pv
      elif a.get("tf"):
        y = _interp_tf(self, L, sub, fr.depth + 1, fr.path + (i,),
                       holder)
      else:
        y = R.Again(_interp(self, L, sub, fr.depth + 1, fr.path + (i,),
                            holder))
      holder["op"] = y
      w["prop"] = a.get("prop")
      self.front += 1
      fr.sub_result = None
    else:
      self.herr = "unknown op %r" % (op,)
      y = 0
    if isinstance(y, R.BlockingOperation):
      fr.yielded = True
    fr.wait = w
    return y, w

  def plain_called(self, L, path, pv):
    fr = L.frames[-1] if L.frames else None
    if fr is None or fr.wait is None or fr.wait["k"] != "again":
      self.fail("subtask_without_caller", "task %d: a wrapped plain "
                "function ran while its caller was not waiting" % L.tno)
      return
    fr.sub_result = ("val", pv)
    self.front += 1            # its AgainTask now returns to the caller
    self.sim.ev("plain", L.tno, path, self.sim.now - T0)

  # -- a step is resumed -------------------------------------------------
  def resume(self, L, fr, w, v, e):
    if L.ignore or self.viol is not None:
      return None
    sim = self.sim
    now = sim.now
    k = w["k"]
    tno = L.tno
    where = "task %d step %s%d (%s)" % (tno, "".join("%d." % x
                                                      for x in fr.path),
                                        w["i"], k)
    sim.ev("r", tno, fr.path, w["i"], now - T0, _kind(v, e))
    if fr.wait is not w:
      self.fail("double_resume", where + ": resumed although it was not "
                "waiting (second resumption for one wait)")
      return None
    if self.cur is not fr.obj:
      self.fail("wrong_slice", where + ": resumed outside its own task's "
                "slice")
      return None
    if L.frames[-1] is not fr:
      self.fail("caller_before_subtask_end", where + ": the caller was "
                "resumed before its sub-task ended")
      return None
    fr.wait = None
    if e is not None and k != "again":
      self.fail("unexpected_exception", where + ": %s was thrown into the "
                "task" % type(e).__name__)
      return None
    act = None
    if k == "y0":
      if v is not None:
        self.fail("wrong_value", where + ": yield 0 resumed with %s"
                  % _kind(v, e))
      self.cycle_bound(where, w["c0"], w["n"], w["f0"])
    elif k == "sleep":
      if v is None:
        self.P["sleep_immediate"] += 1
      elif _is_empty_triple(v):
        self.P["sleep_via_hub"] += 1
      else:
        self.fail("wrong_value", where + ": sleep resumed with %s"
                  % _kind(v, e))
      self.time_bounds(where, w, w["due"])
    elif k == "block":
      if v is not None:
        self.fail("wrong_value", where + ": blocked task resumed with %s"
                  % _kind(v, e))
      if L.tokens != 1:
        self.fail("blocked_task_ran_unscheduled", where + ": a blocked task "
                  "ran although nobody scheduled it (accepted schedule() "
                  "calls outstanding: %d)" % L.tokens)
      L.tokens = 0
      wk = w.get("wk")
      if wk is not None:
        self.cycle_bound(where, wk[0], wk[1], wk[2])
    elif k == "select":
      self.resume_select(where, L, w, v)
    elif k == "recv":
      self.resume_recv(where, L, w, v)
    elif k == "send":
      self.resume_send(where, L, w, v)
    elif k == "acq":
      m = w["lock"]
      if v is not w["exp"]:
        if w["imm"]:
          self.fail("lock_value", where + ": acquire(blocking=%s) returned "
                    "%s while the lock was %s" % (w["b"], _kind(v, e),
                                                  "held" if w["exp"] is False
                                                  else "free"))
        else:
          self.fail("lock_value", where + ": blocking acquire resumed with "
                    "%s" % _kind(v, e))
      elif w["imm"]:
        if v is True:
          L.holding[m.no] = L.holding.get(m.no, 0) + 1
      else:
        if m.holder != "?" or tno not in m.cands:
          self.fail("lock_two_holders", where + ": a waiter acquired lock %d "
                    "although it was not released to it (model holder: %s)"
                    % (m.no, m.holder))
        else:
          m.holder = tno
          m.cands = set()
          m.waiters.discard(tno)
          L.holding[m.no] = L.holding.get(m.no, 0) + 1
          ho = m.handoff
          m.handoff = None
          if ho is not None:
            self.cycle_bound(where, ho[0], ho[1], ho[2])
    elif k == "rel":
      if w.get("expect_death"):
        self.fail("lock_release_unheld", where + ": releasing a free lock "
                  "did not fail")
      elif v is not None:
        self.fail("wrong_value", where + ": release resumed with %s"
                  % _kind(v, e))
    elif k == "again":
      act = self.resume_again(where, L, fr, w, v, e)
    for sk in self.socks.get(tno, ()):
      sk.refresh()
    return act

  def cycle_bound(self, where, c0, n, f0):
    if not self.allp1:
      return
    bound = c0 + n + 1 + (self.front - f0)
    if self.sim.cycles > bound:
      self.fail("runnable_task_starved", where + ": made runnable in cycle "
                "%d behind %d ready task(s) but ran in cycle %d (bound %d)"
                % (c0, n, self.sim.cycles, bound))

  def time_bounds(self, where, w, due):
    now = self.sim.now
    if now < due - EPS:
      self.fail("early_wake", where + ": resumed at +%.6f, before the "
                "requested time +%.6f" % (now - T0, due - T0))
    elif now > max(due, w["t0"]) + self.slack(w["c0"], w["j0"]):
      self.fail("late_wake", where + ": requested +%.6f, resumed only at "
                "+%.6f" % (due - T0, now - T0))

  def resume_select(self, where, L, w, v):
    now = self.sim.now
    if not (isinstance(v, tuple) and len(v) == 3
            and all(isinstance(x, list) for x in v)):
      self.fail("wrong_value", where + ": Select resumed with %s"
                % _kind(v, None))
      return
    r, wr, x = v
    if not r and not wr and not x:
      self.P["select_timeout"] += 1
      if w["to"] is None:
        self.fail("spurious_wake", where + ": Select without timeout "
                  "resumed with nothing ready")
        return
      self.time_bounds(where, w, w["due"])
      return
    self.P["select_io"] += 1
    ls = self.last_sel
    exp = None
    if ls is not None:
      exp = ([o for o in ls[1] if _in(o, w["r"])],
             [o for o in ls[2] if _in(o, w["w"])],
             [o for o in ls[3] if _in(o, w["x"])])
    if exp is None or not (_same_objs(r, exp[0]) and _same_objs(wr, exp[1])
                           and _same_objs(x, exp[2])):
      self.fail("select_value", where + ": Select returned %s but the fds "
                "that were ready for it are %s"
                % (_names(v), _names(exp) if exp else None))
      return
    since = []
    for o in r:
      if not o.readable():
        self.fail("select_value", where + ": Select named %s readable but "
                  "it is not" % o.name)
        return
      since.append(o.since["r"])
    for o in wr:
      since.append(o.since["w"])
    for o in x:
      since.append(o.since["x"])
    since = [s for s in since if s is not None]
    if since:
      t = min(since)
      if now > max(t, w["t0"]) + self.slack(w["c0"], w["j0"]):
        self.fail("late_wake", where + ": fd ready since +%.6f, resumed only "
                  "at +%.6f" % (t - T0, now - T0))
    if w.get("consume"):
      for o in r:
        try:
          while o.rxbuf:
            S.SimSocket.recv(o, 4096)
        except OSError:
          pass

  def epoll_error(self, sk):
    """the epoll backend reports a socket error / hang-up as an exceptional
    condition to those who listed the socket there (Recv and Send do)"""
    return self.epoll and (
        sk.rx_reset or sk.tx_dead or sk.tx_fatal is not None)

  def resume_recv(self, where, L, w, v):
    now = self.sim.now
    sk = w["sock"]
    calls = sk.recv_log[w["ri"]:]
    if len(calls) > 1:
      self.fail("recv_twice", where + ": recv() was called %d times for one "
                "Recv" % len(calls))
      return
    if v is None:
      self.P["recv_none"] += 1
      if calls:
        if calls[0] is not None:
          self.fail("recv_value", where + ": %d byte(s) were read from the "
                    "socket but Recv returned None" % len(calls[0]))
        return
      if sk.exceptional() or self.epoll_error(sk):
        return
      if w["to"] is not None:
        self.time_bounds(where, w, w["due"])
        return
      self.fail("spurious_wake", where + ": Recv without timeout returned "
                "None although nothing happened on the socket")
      return
    if not isinstance(v, bytes):
      self.fail("wrong_value", where + ": Recv resumed with %s"
                % _kind(v, None))
      return
    self.P["recv_data"] += 1
    if len(calls) != 1 or calls[0] != v:
      self.fail("recv_value", where + ": Recv returned %d byte(s) which are "
                "not what the socket delivered" % len(v))
      return
    if len(v) > w["n"]:
      self.fail("recv_value", where + ": Recv returned %d > bufsize %d"
                % (len(v), w["n"]))
      return
    t = w["since"] if w["since"] is not None else sk.since["r"]
    if t is not None and now > max(t, w["t0"]) + self.slack(w["c0"],
                                                            w["j0"]):
      self.fail("late_wake", where + ": socket readable since +%.6f, "
                "resumed only at +%.6f" % (t - T0, now - T0))

  def resume_send(self, where, L, w, v):
    now = self.sim.now
    sk = w["sock"]
    data = w["data"]
    calls = sk.send_log[w["si"]:]
    if type(v) is not int:
      self.fail("wrong_value", where + ": Send resumed with %s"
                % _kind(v, None))
      return
    acc = sum(c[1] for c in calls if c[1])
    if v != acc:
      self.fail("send_value", where + ": Send returned %d but the socket "
                "accepted %d byte(s)" % (v, acc))
      return
    if (bytes(sk.accepted[w["a0"]:]) != data[:v]
        or bytes(sk.peer.rxbuf[w["p0"]:]) != data[:v]):
      self.fail("send_bytes", where + ": the peer did not receive exactly "
                "the first %d byte(s) of the data in order" % v)
      return
    for c in calls:
      if c[2] > w["bs"]:
        self.fail("send_block", where + ": send() was given %d bytes, more "
                  "than block_size %d" % (c[2], w["bs"]))
        return
    if len([c for c in calls if c[1]]) > 1:
      self.P["send_partial_progress"] += 1
    if v == len(data):
      self.P["send_full"] += 1
      return
    self.P["send_short"] += 1
    if sk.exceptional() or self.epoll_error(sk):
      return        # exceptional condition reported by select: error path
    if sk.tx_dead and calls and calls[-1][1] is None:
      return        # send() failed fatally: the property is silent on errors
    if w["to"] is None:
      self.fail("send_value", where + ": Send without timeout returned %d "
                "of %d bytes" % (v, len(data)))
      return
    last = w["t0"]
    for c in calls:
      if c[1]:
        last = c[0]
    if now < last + w["to"] - EPS:
      self.fail("early_wake", where + ": Send gave up at +%.6f, before its "
                "timeout (last progress +%.6f, timeout %s)"
                % (now - T0, last - T0, w["to"]))

  def resume_again(self, where, L, fr, w, v, e):
    res = fr.sub_result
    fr.sub_result = None
    if res is None:
      self.fail("caller_before_subtask_end", where + ": the caller was "
                "resumed (%s) although its sub-task has not ended"
                % _kind(v, e))
      return None
    kind, val = res
    if kind == "val":
      if e is not None or not _same(v, val):
        self.fail("again_value", where + ": sub-task returned %r, caller "
                  "received %s" % (val, _kind(v, e)))
      else:
        self.P["again_val"] += 1
    elif kind == "none":
      if e is not None or v is not None:
        self.fail("again_value", where + ": sub-task ended without a value, "
                  "caller received %s" % _kind(v, e))
      else:
        self.P["again_none"] += 1
    elif kind == "empty":
      self.P["again_empty"] += 1
      if e is None and v is None:
        pass
      elif type(e) is StopIteration:
        self.known_or_fail(
            KF_EMPTY, "again_empty_stopiteration",
            where + ": the sub-task function finished before its first "
            "yield (no value, no error) and the caller had StopIteration "
            "thrown into it")
      else:
        self.fail("again_value", where + ": sub-task ended without a value, "
                  "caller received %s" % _kind(v, e))
    elif kind == "exc":
      if isinstance(e, _HE) and e.tag == val:
        self.P["again_exc"] += 1
        if w.get("prop"):
          return val
      else:
        self.fail("again_value", where + ": sub-task raised HarnessErr(%s), "
                  "caller received %s" % (val, _kind(v, e)))
    return None

  # -- schedule() of blocked tasks --------------------------------------
  def try_wake(self, L, twice=False):
    if L.done or L.dead or L.ignore or not L.frames:
      return False
    fr = L.frames[-1]
    w = fr.wait
    if w is None or w["k"] != "block" or self.cur is fr.obj:
      return False
    for _ in range(2 if twice else 1):
      n = len(self.sched._ready)
      r = self.sched.schedule(fr.obj)
      if L.tokens == 0:
        if r is not True:
          self.fail("schedule_refused", "schedule() of blocked task %d "
                    "returned %r" % (L.tno, r))
        L.tokens = 1
        w["wk"] = (self.sim.cycles, n, self.front)
        self.P["wake_ok"] += 1
      else:
        if r is not False:
          self.fail("schedule_twice", "schedule() accepted task %d a second "
                    "time while it was still in the ready queue" % L.tno)
        self.P["wake_dup"] += 1
    self.sim.ev("wake", L.tno, self.sim.now - T0)
    return True

  # -- timers -------------------------------------------------------------
  def make_timer(self, tm):
    spec = tm.spec
    sim = self.sim

    def cb(no):
      self.timer_fired(tm)
      k = len(tm.fires)
      if spec["cb"] == "raise" and k == spec["k"]:
        tm.expect_raise = True
        raise HarnessErr("tm%d" % tm.no)
      if spec["cb"] == "false" and k == spec["k"]:
        if spec["selfstop"]:
          tm.stopped = True
          self.P["timer_selfstop"] += 1
        return False
      rv = spec.get("ret", "k")
      if rv != "k":
        self.P["timer_callback_returns_falsy"] += 1
        return rv
      return k

    d = spec["d"]
    kw = {}
    if spec.get("abs") and not spec["rec"]:
      kw["absoluteTime"] = True
      d = T0 + spec.get("at", 0.0)
    if spec["rec"]:
      kw["recurring"] = True
      if d <= 0:
        d = 0.25
    if not spec["selfstop"]:
      kw["selfStoppable"] = False
    tm.interval = d if spec["rec"] else 0
    tm.obj = R.Timer(d, cb, args=(tm.no,), started=False, **kw)
    tm.obj._c06tm = tm
    tm.d = d
    if spec["started"]:
      self.start_timer(tm)
    sim.ev("tm_new", tm.no, sim.now - T0)

  def start_timer(self, tm):
    if tm.obj is None or tm.started_at is not None:
      return
    now = self.sim.now
    tm.started_at = now
    tm.due0 = tm.d if tm.spec.get("abs") and not tm.spec["rec"] else now + tm.d
    tm.ref_cycle = self.sim.cycles
    tm.ref_jump = self.jumped
    tm.obj.start()

  def cancel_timer(self, tm):
    if tm.obj is None or tm.cancel_time is not None:
      return
    tm.cancel_time = self.sim.now
    tm.cancel_cycle = self.sim.cycles
    tm.cancel_jump = self.jumped
    tm.obj.cancel()
    if not tm.fires:
      self.P["timer_cancelled_before_fire"] += 1

  def timer_fired(self, tm):
    sim = self.sim
    now = sim.now
    what = "timer %d" % tm.no
    self.P["timer_fire"] += 1
    sim.ev("tm", tm.no, now - T0)
    if self.cur is not tm.obj:
      self.fail("wrong_slice", what + ": callback ran outside the timer "
                "task's slice")
    if tm.started_at is None:
      self.fail("timer_unstarted", what + " fired before start()")
    elif tm.cancel_time is not None:
      self.fail("timer_after_cancel", what + " fired at +%.6f after cancel() "
                "at +%.6f" % (now - T0, tm.cancel_time - T0))
    elif tm.stopped:
      self.fail("timer_after_false", what + " fired again after its "
                "callback returned False")
    elif tm.dead:
      self.fail("finished_task_ran_again", what + " fired again after its "
                "callback raised")
    elif tm.fires and not tm.spec["rec"]:
      self.fail("timer_twice", what + " is one-shot but fired %d times"
                % (len(tm.fires) + 1))
    else:
      if tm.fires:
        due = tm.fires[-1] + tm.interval
        self.P["timer_recurring_fire"] += 1
      else:
        due = tm.due0
      if now < due - EPS:
        self.fail("early_wake", what + " fired at +%.6f, due +%.6f"
                  % (now - T0, due - T0))
      elif now > max(due, tm.started_at) + self.slack(tm.ref_cycle,
                                                      tm.ref_jump):
        self.fail("late_wake", what + " due +%.6f fired only at +%.6f"
                  % (due - T0, now - T0))
    tm.fires.append(now)
    tm.ref_cycle = sim.cycles
    tm.ref_jump = self.jumped

  def timers_final(self):
    """Liveness of timers, evaluated after the run."""
    sim = self.sim
    for tm in self.timers.values():
      if tm.obj is None or tm.started_at is None:
        if tm.fires:
          self.fail("timer_unstarted", "timer %d fired without start()"
                    % tm.no)
        continue
      what = "timer %d" % tm.no
      end = tm.cancel_time if tm.cancel_time is not None else sim.now
      endc = tm.cancel_cycle if tm.cancel_time is not None else sim.cycles
      endj = tm.cancel_jump if tm.cancel_time is not None else self.jumped
      if tm.stopped or tm.dead:
        continue
      if not tm.spec["rec"]:
        if tm.fires:
          continue
        lim = (max(tm.due0, tm.started_at) + CYCLE_MAX
               + (endc - tm.ref_cycle + 1) * self.cpu * TICK
               + (endj - tm.ref_jump) + EPS)
        if end > lim:
          self.fail("timer_never_fired", what + " (one-shot, due +%.6f) had "
                    "not fired by +%.6f" % (tm.due0 - T0, end - T0))
      else:
        # (a callback that returned False without selfStoppable must go on)
        ref = tm.fires[-1] + tm.interval if tm.fires else tm.due0
        lim = (max(ref, tm.started_at) + CYCLE_MAX
               + (endc - tm.ref_cycle + 1) * self.cpu * TICK
               + (endj - tm.ref_jump) + EPS)
        if end > lim:
          self.fail("timer_stopped_firing", what + " (recurring every %s s) "
                    "fired %d time(s), last reference +%.6f, but was silent "
                    "until +%.6f" % (tm.interval, len(tm.fires), ref - T0,
                                     end - T0))


def _is_empty_triple(v):
  return (isinstance(v, tuple) and len(v) == 3
          and all(isinstance(x, list) and not x for x in v))


def _in(o, lst):
  for x in lst:
    if x is o:
      return True
  return False


def _same_objs(a, b):
  return len(a) == len(b) and all(x is y for x, y in zip(a, b))


def _names(v):
  return tuple([o.name for o in part] for part in v)


# `yield f(...)` where f is a generator function decorated with
# task_function: the decorated callable is the one interpreter itself
_interp_tf = R.task_function(_interp)


# ---------------------------------------------------------------------------
# run
# ---------------------------------------------------------------------------

_ORIG_EXEC = None


def _install_shims(O):
  global _ORIG_EXEC
  if _ORIG_EXEC is None:
    _ORIG_EXEC = R.BaseTask.execute
  orig = _ORIG_EXEC

  def execute(self):
    O.slice_begin(self)
    try:
      return orig(self)
    except StopIteration:
      raise
    except BaseException as e:
      O.on_task_exc(self, e)
      raise
    finally:
      O.slice_end(self)

  R.BaseTask.execute = execute
  R.AgainTask.__hash__ = lambda self: self.id
  R.nextTaskID = 1000


def run_plan(plan):
  cfg = plan["cfg"]
  globals()["HarnessErr"] = HarnessErrB if cfg.get("boom_base") \
      else HarnessErrE
  sim = S.Sim(mix(plan["seed"], "run"), calm=plan.get("calm", False))
  S.install(sim)
  if cfg.get("boom_base"):
    sim.probes["raise_is_baseexception"] += 1
  sched = S.new_scheduler(sim)
  sim.cycle_cap = 8000
  sim.cpu_cost_ticks = cfg.get("cpu", 0)
  sim.recv_mode = cfg.get("recv_mode", "all")
  sim.shuffle_ready = bool(cfg.get("shuffle"))
  known = load_known(PROP)
  O = Oracle(sim, sched, plan, known)
  _install_shims(O)

  def rnd():
    sim.probes["prio_draw"] += 1
    return sim.ch.below("prio", 8) / 8.0
  sched._random = rnd

  base_select = sim.select
  if cfg.get("epoll"):
    ES = S.install_epoll(sim)
    base_select = ES.EpollSelect().select
    sim.probes["hub_epoll"] += 1

  def sel(rl, wl, xl, timeout=None):
    got = base_select(rl, wl, xl, timeout)
    O.last_sel = (sim.now, list(got[0]), list(got[1]), list(got[2]))
    return got
  sched._selectHub._select_func = sel

  res = {"verdict": "ok"}
  try:
    _drive(sim, sched, plan, O)
  except S.SimAbort as a:
    if a.vclass == "livelock":
      _livelock(O, a)
    else:
      O.fail(a.vclass, a.detail)
  except BaseException as e:
    tb = e.__traceback__
    last = None
    while tb is not None:
      last = tb
      tb = tb.tb_next
    import traceback
    txt = "".join(traceback.format_exception(type(e), e, e.__traceback__))
    if not isinstance(e, _HE) and (
        last is not None and last.tb_frame.f_code.co_filename == __file__
        or isinstance(e, S.WouldBlock)):
      O.herr = txt[-2500:]
    else:
      where = "?"
      if last is not None:
        where = "%s:%d" % (last.tb_frame.f_code.co_filename.split("/")[-1],
                           last.tb_lineno)
      O.fail("scheduler_crash", "%s: %s escaped from the scheduler at %s"
             % (type(e).__name__, str(e)[:200], where))
  if O.herr is not None:
    res.update(verdict="error", detail=O.herr)
  elif O.viol is not None:
    res.update(verdict="violation", vclass=O.viol[0], detail=O.viol[1])
  res["digest"] = sim.digest()
  res["sim_time"] = sim.now - T0
  res["steps"] = sum(L.nsteps for L in O.threads.values())
  res["known"] = sorted(set(O.hit))
  res["nontrivial"] = len(O.threads) >= 2 and len(O.kinds) >= 4
  sim.stats["cycles"] += sim.cycles
  res["stats"] = dict(sim.stats)
  res["probes"] = dict(sim.probes)
  return res


def _livelock(O, a):
  """The cycle cap was hit.  Recognise the one livelock that has an id."""
  for L in O.threads.values():
    if L.done or L.dead or not L.frames:
      continue
    w = L.frames[-1].wait
    if w is not None and w["k"] == "send" and w["sock"].tx_dead:
      if O.known_or_fail(
          KF_SPIN, "send_error_spin",
          "task %d: Send on a socket whose send() keeps failing "
          "(ECONNRESET/EPIPE) never returns: select reports it writable, "
          "send() raises, Send re-registers, for ever" % L.tno):
        return
      return
  O.fail("livelock", a.detail)


def _drive(sim, sched, plan, O):
  cfg = plan["cfg"]
  progs = {}
  tms = []
  events = []
  for st in plan["steps"]:
    if st[0] == "s":
      progs.setdefault(st[1], []).append([st[2], st[3]])
    elif st[0] == "tm":
      tms.append(st)
    elif st[0] == "h":
      events.append(st)
  prio = cfg.get("prio", [1] * 6)
  O.allp1 = all(prio[t % len(prio)] == 1 for t in progs)
  for i in range(2):
    O.locks[i] = LockM(i)
  credit = cfg.get("credit", [None] * 12)
  for tno in sorted(progs):
    pair = []
    for k in (0, 1):
      idx = 2 * tno + k
      a = CSock(sim, "s%d" % idx, idx)
      b = S.SimSocket(sim, "h%d" % idx)
      a.peer, b.peer = b, a
      a.connected = b.connected = True
      a.tx_credit = credit[idx % len(credit)]
      a.refresh()
      pair.append(a)
    O.socks[tno] = pair
  start = cfg.get("start", [0] * 6)
  fast = cfg.get("fast", [False] * 6)
  for tno in sorted(progs):
    L = Thread(tno, progs[tno])
    O.threads[tno] = L
    tg = cfg.get("target", [False] * 6)
    L.target = bool(tg[tno % len(tg)])
    L.root = TTask(O, L) if L.target else PTask(O, L)
    p = prio[tno % len(prio)]

    def go(L=L, p=p, f=fast[tno % len(fast)]):
      sim.ev("start", L.tno, sim.now - T0)
      L.root.start(scheduler=sched, priority=p, fast=f)
    t = start[tno % len(start)]
    if t:
      sim.at(T0 + t * TICK, _guard(O, go))
    else:
      go()
  for st in tms:
    tm = Tm(st[1], st[2])
    if tm.no in O.timers:
      continue
    O.timers[tm.no] = tm
    c = st[2].get("c", 0)
    if c:
      sim.at(T0 + c * TICK, _guard(O, lambda tm=tm: O.make_timer(tm)))
    else:
      O.make_timer(tm)
  last_tick = max([0] + [start[t % len(start)] for t in progs]
                  + [st[2].get("c", 0) for st in tms])
  for st in events:
    last_tick = max(last_tick, st[1])
    sim.at(T0 + st[1] * TICK, _guard(O, _event(sim, O, st[2], st[3])))

  def bad():
    return O.viol is not None or O.herr is not None

  # planned phase
  sim.run_until(T0 + last_tick * TICK + 1.0)
  if bad():
    return
  for tm in O.timers.values():
    if tm.obj is None:
      O.make_timer(tm)
    O.cancel_timer(tm)
  # sweep: end every wait that only the environment can end
  sig = None
  for _ in range(2000):
    sim.advance(8.0)
    if bad():
      return
    pend = [L for L in O.threads.values() if not (L.done or L.dead)]
    if not pend:
      break
    poked = False
    for L in pend:
      if _poke(sim, O, L):
        poked = True
    nsig = sum(L.nsteps for L in O.threads.values())
    if not poked and nsig == sig:
      break
    sig = nsig
  sim.settle()
  if bad():
    return
  _final(sim, O)


def _guard(O, fn):
  def run():
    if O.viol is not None or O.herr is not None:
      return
    fn()
  return run


def _event(sim, O, kind, a):
  def fire():
    if kind == "wake":
      L = O.threads.get(a.get("t"))
      if L is not None:
        O.try_wake(L, a.get("twice", False))
      return
    if kind in ("tstart", "tcancel"):
      tm = O.timers.get(a.get("tm"))
      if tm is None or tm.obj is None:
        return
      if kind == "tstart":
        O.start_timer(tm)
      else:
        O.cancel_timer(tm)
        sim.ev("tm_cancel", tm.no, sim.now - T0)
      return
    if kind == "jump":
      sim.now += a["dt"]
      O.jumped += a["dt"]
      sim.stats["clock_jump"] += 1
      return
    s = a.get("s", 0)
    pair = O.socks.get(s // 2)
    if pair is None:
      return
    sk = pair[s & 1]
    sim.stats["ev_" + kind] += 1
    if kind == "data":
      sk.feed(a.get("n") or 1)
    elif kind == "eof":
      sk.inject_eof()
    elif kind == "reset":
      sk.inject_reset()
    elif kind == "exc":
      sk.exc_flag = True
    elif kind == "credit":
      if a.get("n") is None or sk.tx_credit is None:
        sk.tx_credit = None
      else:
        sk.tx_credit = max(0, sk.tx_credit) + a["n"]
    elif kind == "drop":
      sk.tx_credit = 0
    sk.refresh()
    sim.ev("ev", kind, s, sim.now - T0)
  return fire


def _poke(sim, O, L):
  """End-of-plan sweep: supply what the wait of L needs from outside."""
  if not L.frames:
    return False
  w = L.frames[-1].wait
  if w is None:
    return False
  k = w["k"]
  if k == "block":
    if L.tokens == 0:
      return O.try_wake(L)
    return False
  if k == "select":
    if w["to"] is not None:
      return False
    did = False
    for sk in w["r"]:
      if not sk.readable():
        sk.feed(1)
        did = True
    for sk in w["w"]:
      if not sk.writable():
        sk.tx_credit = None
        did = True
    for sk in w["x"]:
      if not sk.exceptional():
        sk.exc_flag = True
        did = True
    for sk in w["r"] + w["w"] + w["x"]:
      sk.refresh()
    return did
  if k == "recv":
    sk = w["sock"]
    if w["to"] is None and not sk.readable() and not sk.exceptional():
      sk.feed(1)
      sk.refresh()
      return True
    return False
  if k == "send":
    sk = w["sock"]
    if sk.tx_credit is not None:
      sk.tx_credit = None
      sk.refresh()
      return True
    return False
  return False


def _final(sim, O):
  # liveness: every task finished, died as its program said, or is blocked
  # for a reason the property allows
  for tno in sorted(O.threads):
    L = O.threads[tno]
    if L.done or L.dead:
      continue
    if not L.started:
      O.fail("task_never_ran", "task %d was scheduled but its program never "
             "started" % tno)
      return
    w = L.frames[-1].wait if L.frames else None
    if w is None:
      O.fail("task_lost", "task %d is neither finished nor waiting for "
             "anything: it was runnable and was never run again" % tno)
      return
    k = w["k"]
    at = "task %d step %d (%s)" % (tno, w["i"], k)
    if k == "acq" and not w["imm"]:
      m = w["lock"]
      if m.holder is None:
        O.fail("lock_free_waiter_blocked", at + ": lock %d is free but the "
               "waiter is still blocked" % m.no)
        return
      if m.holder == "?":
        O.fail("lock_handoff_lost", at + ": lock %d was released with "
               "waiters but no waiter was resumed" % m.no)
        return
      continue
    if k == "rel" and w.get("expect_death"):
      continue
    if k == "y0":
      O.fail("task_lost", at + ": yielded 0 and was never run again")
      return
    if k == "block" and L.tokens:
      O.fail("task_lost", at + ": schedule() was accepted but the task "
             "never ran")
      return
    if k == "sleep":
      O.fail("sleeper_never_woken", at + ": due +%.6f, never resumed (now "
             "+%.6f)" % (w["due"] - T0, sim.now - T0))
      return
    if k == "again":
      O.fail("caller_never_resumed", at + ": the sub-task ended but its "
             "caller was never resumed")
      return
    O.fail("wait_never_ended", at + ": still waiting at +%.6f although its "
           "condition holds / its timeout passed" % (sim.now - T0))
    return
  for m in O.locks.values():
    if m.holder == "?":
      O.fail("lock_handoff_lost", "lock %d was released with waiters but no "
             "waiter was resumed" % m.no)
      return
  O.timers_final()
  if O.viol is not None:
    return
  got = sorted((a, b) for a, b in sim.task_deaths)
  exp = sorted(O.expected_deaths)
  if got != exp:
    extra = list(got)
    for x in exp:
      if x in extra:
        extra.remove(x)
    missing = list(exp)
    for x in got:
      if x in missing:
        missing.remove(x)
    if extra:
      O.fail("unexpected_task_death", "the scheduler de-scheduled a task "
             "with %s: %s, which no program raised" % extra[0])
    else:
      O.fail("raise_not_descheduled", "a task raised %s: %s but the "
             "scheduler did not report de-scheduling it" % missing[0])


# ---------------------------------------------------------------------------
# threaded select hub: a fraction of the seeds run the thread-world variant
# ---------------------------------------------------------------------------
from checks import c06t as _T      # noqa: E402

_gen_inline, _run_inline, _hint_inline = gen_plan, run_plan, minimise_hint


def _some_blocks_yield_true(node, r):
  if isinstance(node, list):
    for i in range(len(node) - 1):
      if node[i] == "block" and isinstance(node[i + 1], dict) \
          and node[i + 1].get("v") == "false" and r.chance(0.35):
        node[i + 1]["v"] = "true"
    for x in node:
      _some_blocks_yield_true(x, r)
  elif isinstance(node, dict):
    for x in node.values():
      _some_blocks_yield_true(x, r)


def gen_plan(seed, tier):          # noqa: F811
  if seed % 6 == 0:
    return _T.gen_plan(seed, tier)
  plan = _gen_inline(seed, tier)
  _some_blocks_yield_true(plan.get("steps"), Rng(mix(seed, "btrue")))
  return plan


def run_plan(plan):                # noqa: F811
  if plan.get("cfg", {}).get("threaded_hub"):
    return _T.run_plan(plan)
  return _run_inline(plan)


def minimise_hint(plan):           # noqa: F811
  if plan.get("cfg", {}).get("threaded_hub"):
    return []
  return _hint_inline(plan)
