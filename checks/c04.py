"""
C04 -- the flow table evolves as the OpenFlow 1.0 FLOW_MOD/timeout state
machine; flow-removed exactly once per notifying removal.

World: SW (real switch + ExpireMixin's real recurring Timer under the
virtual clock), refinement against models.of10switch via worlds.swref.
"""

from simkit.rng import Rng, mix
from worlds import swref
from checks import swgen as G
from models import of10wire as W

PROP = "C04"
LEVEL = "exploration"
BUDGET = {"quick": 4000, "thorough": 300000}
RULE = ("Each run: a seeded history (8-60 steps) of ADD/MODIFY/MODIFY_STRICT/"
        "DELETE/DELETE_STRICT over an overlapping match alphabet derived from "
        "a few concrete flows (priorities from a small set, SEND_FLOW_REM/"
        "CHECK_OVERLAP flags, idle/hard timeouts 0-5 s, out_port filters, "
        "small max_entries), interleaved with data-plane frames and virtual "
        "clock advances biased around timeout and sweep instants; after "
        "every step the full table (wire-level flow-stats probe) is compared "
        "with the reference model, timeouts as bounds, flow_removed messages "
        "matched one-to-one with notifying removals.  Non-trivial = at least "
        "one entry was removed by timeout or delete and one was modified or "
        "replaced; distinct = distinct event-log digest.")
ASSUMPTIONS = [
  "reference model encodes OF1.0 section 4.6 as read in DESIGN.md 5a; "
  "canonical matches only (ignored fields wildcarded, host bits zero)",
  "timeouts are checked as bounds: present => age <= timeout + sweep period; "
  "gone => age >= timeout; boundary instants accepted either way",
  "control channel is instantaneous in this world (segmentation and partial "
  "recv only), so operation times are exact",
]
REAL = ["pox.datapaths.switch.SoftwareSwitch/ExpireMixin/OFConnection",
        "pox.openflow.flow_table.FlowTable/TableEntry",
        "pox.lib.recoco Scheduler/SelectHub/Timer (virtual clock)",
        "pox.lib.ioworker RecocoIOLoop/RecocoIOWorker",
        "pox.openflow.libopenflow_01 codec", "pox.lib.packet parsers"]
STUBBED = ["socket/select/time/pinger (simkit)", "controller peer (scripted)",
           "data-plane hosts (frames injected by the harness)"]
EXPECT_PROBES = ["fm_cmd_0_ok", "fm_cmd_1_ok", "fm_cmd_2_ok", "fm_cmd_3_ok",
                 "fm_cmd_4_ok", "fm_cmd_0_error", "lookup_hit", "lookup_miss",
                 "advance", "removed_idle", "removed_hard", "removed_delete",
                 "control_reconnected"]


def gen_plan(seed, tier):
  r = Rng(seed)
  cfg = G.sw_cfg(r, max_buffers=r.pick([0, 4, 100]))
  nports = cfg["nports"]
  # a few concrete flows; matches are wildcarded versions of their keys
  base = []
  for _ in range(r.randint(2, 4)):
    fs = G.gen_frame(r, rich=r.chance(0.25))
    port = r.randint(1, nports)
    base.append((fs, port))
  alphabet = []
  for fs, port in base:
    key = G.frame_key(fs, port)
    for _ in range(r.randint(1, 3)):
      alphabet.append((G.match_from_key(key, r, keep=r.pick([0.2, 0.5, 0.8])),
                       False))
    if r.chance(0.3):
      alphabet.append((G.match_from_key(key, r, exact=True), True))
  alphabet.append(({}, False))
  prios = [1, 5, 5, 0x8000, 0xffff]
  n = r.randint(8, 60 if tier == "thorough" else 36)
  steps = []
  for _ in range(n):
    k = r.wpick([(9, "flow_mod"), (6, "frame"), (5, "advance"),
                 (2, "packet_out"), (0.6, "reconnect")])
    if k == "reconnect":
      # the control connection is replaced; the switch and its table stay
      steps.append({"op": "reconnect", "how": r.pick(["close", "reset"])})
      continue
    if k == "flow_mod":
      m, exact = r.pick(alphabet)
      if r.chance(0.25):
        m = G.vary_dont_care(m, r)     # (still the same match)
      cmd = r.wpick([(6, W.FC_ADD), (2, W.FC_MODIFY), (2, W.FC_MODIFY_STRICT),
                     (2, W.FC_DELETE), (2, W.FC_DELETE_STRICT)])
      flags = 0
      if r.chance(0.5):
        flags |= W.FF_SEND_FLOW_REM
      if cmd == W.FC_ADD and r.chance(0.2):
        flags |= W.FF_CHECK_OVERLAP
      if cmd == W.FC_ADD and r.chance(0.03):
        flags |= W.FF_EMERG
      st = {"op": "flow_mod", "m": m, "cmd": cmd, "prio": r.pick(prios),
            "acts": G.gen_actions(r, nports), "cookie": r.randrange(1 << 16),
            "idle": r.pick([0, 0, 1, 2, 3, 5]),
            "hard": r.pick([0, 0, 0, 1, 2, 3, 5]), "flags": flags}
      rv = Rng(mix(seed, "vlanact", len(steps)))
      if rv.chance(0.2):
        # actions that change the frame's length on its way out: what an
        # entry counts is what it received
        st["acts"] = [rv.pick([["set_vlan_vid", 7], ["set_vlan_vid", 100],
                               ["set_vlan_pcp", 3], ["strip_vlan"]])] \
            + st["acts"]
      rb = Rng(mix(seed, "fbad", len(steps)))
      if rb.chance(0.07):
        # an action of a type the switch does not implement (a vendor
        # action, or a type number nobody has): the request is refused as a
        # whole and the table stays what it was, whatever the command
        st["fbad"] = rb.pick([0xffff, 12, 100, 0x7fff])
        st["fbadpos"] = rb.pick([0, 1])
      if exact:
        # for exact-match entries the specification gives the priority
        # field no meaning (identity and overlap become ambiguous)
        st["prio"] = 0x8000
        st["flags"] &= ~W.FF_CHECK_OVERLAP
      if cmd in (W.FC_DELETE, W.FC_DELETE_STRICT) and r.chance(0.35):
        # (any port an action may name: physical, reserved, or one the
        # switch does not have)
        st["out_port"] = r.wpick([(6, r.randint(1, nports)),
                                  (2, W.OFPP_CONTROLLER), (2, W.OFPP_FLOOD),
                                  (1, nports + 1), (1, W.OFPP_IN_PORT)])
      elif r.chance(0.15):
        # out_port only filters DELETE / DELETE_STRICT; ADD and MODIFY must
        # ignore it
        st["out_port"] = r.randint(1, nports)
      if cmd in (W.FC_DELETE, W.FC_DELETE_STRICT) \
          and Rng(mix(seed, "op0", len(steps))).chance(0.1):
        # port number 0 is a port number like any other: a filter that no
        # entry here satisfies
        st["out_port"] = 0
      steps.append(st)
    elif k == "frame":
      fs, port = r.pick(base)
      if r.chance(0.2):
        port = r.randint(1, nports)
      steps.append({"op": "frame", "port": port, "f": fs,
                    "with_data": r.chance(0.7)})
    elif k == "advance":
      steps.append({"op": "advance",
                    "dt": r.pick([0.25, 0.5, 0.75, 1, 1, 1.25, 2, 2, 3, 5,
                                  0.999, 1.001, 6])})
    else:
      fs, port = r.pick(base)
      steps.append({"op": "packet_out", "in_port": W.OFPP_NONE,
                    "acts": [["output", r.randint(1, nports), 0]], "f": fs})
      if r.chance(0.5):
        # traffic through the table that did not arrive on a port: it is
        # traffic all the same (counters, idle clock)
        steps[-1].update(acts=[["output", W.OFPP_TABLE, 0]],
                         in_port=r.pick([W.OFPP_NONE, W.OFPP_NONE, port]))
  return {"prop": PROP, "seed": seed, "cfg": cfg, "steps": steps}


def run_plan(plan):
  res = swref.run(plan, PROP)
  p = res["probes"]
  removed = sum(v for k, v in p.items() if k.startswith("removed_"))
  changed = p.get("fm_cmd_1_ok", 0) + p.get("fm_cmd_2_ok", 0) + \
      p.get("replaced", 0)
  res["nontrivial"] = bool(removed and changed)
  return res
