"""
C19 -- the discovered topology is the physical one; flooding is pruned to a
tree.

World: NET with openflow.discovery + openflow.spanning_tree on the real
controller, 2-6 (thorough: up to 10) real switches, random multigraphs with
parallel, one-way and missing links, host ports, 64-bit dpids and large port
numbers, link and control-connection faults under the virtual clock.
"""

from simkit import sim as S
from simkit.rng import Rng, mix
from simkit.check import load_known
from worlds.net import NetWorld
from models import of10wire as W
from models import rawframe as F

PROP = "C19"
LEVEL = "exploration"
BUDGET = {"quick": 500, "thorough": 60000}
RUN_TIMEOUT = 120
RULE = ("Each run: a seeded multigraph on 2-6 switches (thorough: up to 10) "
        "with up to 2 parallel links per pair, each direction independently "
        "present, dpids incl. > 2^48 and port numbers up to 0xfeff, one "
        "host-facing port per switch; link_timeout 4 or 10 s; a seeded "
        "history of per-direction link down/up, control-connection resets "
        "(reconnect through the real back-off), silent switches and LLDP "
        "loss, separated by virtual-time advances.  LinkEvents are checked "
        "against the physical links as they happen (added link physically "
        "up, alternation add/remove, withdrawal with the switch); after the "
        "faults stop for send_cycle + link_timeout + check_period + 2 s the "
        "adjacency must equal the up directed links among connected "
        "switches, the flood-enabled inter-switch ports must form a "
        "spanning forest of the bidirectional links with every other "
        "discovered port flood-disabled at both ends and every port on no "
        "link flood-enabled, and a flood simulated over the physical graph "
        "with the switches' own NO_FLOOD bits must reach every switch of "
        "the origin's component exactly once.  Non-trivial = the graph had a "
        "cycle of bidirectional links and at least one fault was injected; "
        "distinct = distinct event-log digest.")
ASSUMPTIONS = [
  "tree properties are checked at converged quiescent points (after the "
  "stated convergence bound), not during convergence",
  "any spanning forest is accepted (the traversal order is the "
  "implementation's business)",
]
REAL = ["pox.openflow.discovery (LLDPSender, Discovery)",
        "pox.openflow.spanning_tree", "pox.lib.packet.lldp",
        "controller stack (of_01, nexus)", "SoftwareSwitch/ExpireMixin (flows, "
        "packet-out, port-mod, NO_FLOOD)", "OpenFlowWorker/BackoffWorker",
        "recoco timers under the virtual clock"]
STUBBED = ["socket/select/time/pinger/random (simkit)", "links and hosts "
           "(harness)", "DeferredSender (no back-pressure)"]
EXPECT_PROBES = ["has_cycle", "one_way_link", "parallel_links", "link_down",
                 "link_up", "control_reset", "silent_switch", "converged",
                 "reset_with_probe_in_flight", "wire_pads_short_frames",
                 "flood_sim", "big_dpid", "big_port", "port_deleted",
                 "dpid_leading_digit_d", "dpid_leading_digit_c",
                 "dpid_leading_digit_e", "dpid_leading_digit_2",
                 "port_readded"]

# dpids of every hex-digit length (the probe carries the dpid as hex text):
# 16^k, 16^(k+1)-1 and a value in between, plus a few small ones
DPID_POOL = sorted(set(
    [1, 2, 3, 4, 5, 6, 7, 8, 9, 10, (1 << 48) + 3, (1 << 63) + 1,
     0xabcdef0123, 0xffffffffffff, 0xffffffffffffffff]
    + [16 ** k for k in range(1, 16)]
    + [16 ** k - 1 for k in range(2, 16)]
    + [(16 ** k) * 10 + 0xb * 16 ** (k - 1) + 7 for k in range(1, 15)]))


def gen_plan(seed, tier):
  r = Rng(seed)
  nsw = r.randint(2, 10 if (tier == "thorough" and r.chance(0.2)) else 6)
  # the far corner of the quantifier: twelve switches, every pair joined by
  # two cables (276 ports to probe); a handful of runs per batch
  dense = Rng(mix(seed, "dense")).chance(0.012)
  if dense:
    nsw = 12
  dpids = r.sample(DPID_POOL, nsw)
  # every hex digit in the leading position (the probe carries the dpid as
  # hex text behind a 'dpid:' tag), with a random tail of every length; and
  # pairs that differ only in their leading digits (d1 / 1, dd07 / 7).  Own
  # stream: the other draws of the plan stay what they were.
  r5 = Rng(mix(seed, "dpidlead"))
  if r5.chance(0.35):
    for k in range(nsw):
      if r5.chance(0.5):
        ndig = r5.randint(2, 16)
        lead = r5.randint(1, 15)
        tail = r5.getrandbits(4 * (ndig - 1))
        if r5.chance(0.3):
          tail &= 0xff                       # mostly zeros after the lead
        d = (lead << (4 * (ndig - 1))) | tail
        if r5.chance(0.3) and dpids[k - 1] < (1 << 56):
          # the neighbour's dpid with one or two digits in front of it
          base = dpids[k - 1]
          w = max(1, (base.bit_length() + 3) // 4)
          d = base | (lead << (4 * w))
          if r5.chance(0.5) and d < (1 << 60):
            d |= lead << (4 * (w + 1))
        if d and d not in dpids:
          dpids[k] = d
  cfg = {"dpids": dpids, "link_timeout": 10 if dense else r.pick([4, 4, 10]),
         "segment": r.chance(0.3), "delay": r.chance(0.3),
         "link_delay": r.pick([0, 0, 2]), "max_buffers": r.pick([0, 4, 100]),
         # the components' own launch options
         "disc_no_flow": r.chance(0.2), "disc_explicit_drop": r.chance(0.75),
         "disc_eat_early": r.chance(0.2),
         "st_no_flood": r.chance(0.2), "st_hold_down": r.chance(0.2)}
  cfg["wire_pads"] = Rng(mix(seed, "pads")).chance(0.5)
  nextport = {d: 1 for d in dpids}
  big = r.chance(0.3)

  def newport(d):
    p = nextport[d]
    nextport[d] += 1
    if big and p >= 2:
      return 0xfe00 + p
    return p
  links = []      # directed: [a, pa, b, pb]
  pdens = r.pick([0.3, 0.5, 0.8])
  for i in range(nsw):
    for j in range(i + 1, nsw):
      if dense or j == i + 1 and r.chance(0.8) or r.chance(pdens):
        for _ in range(2 if dense else r.wpick([(4, 1), (1, 2)])):
          a, b = dpids[i], dpids[j]
          pa, pb = newport(a), newport(b)
          dirs = "both" if dense else r.wpick([(6, "both"), (1, "ab"),
                                               (1, "ba")])
          if dirs in ("both", "ab"):
            links.append([a, pa, b, pb])
          if dirs in ("both", "ba"):
            links.append([b, pb, a, pa])
  hostports = {}
  for d in dpids:
    hostports[str(d)] = newport(d)
  cfg["links"] = links
  cfg["hostports"] = hostports
  cfg["ports"] = {}
  for d in dpids:
    ps = set([hostports[str(d)]])
    for a, pa, b, pb in links:
      if a == d:
        ps.add(pa)
      if b == d:
        ps.add(pb)
    cfg["ports"][str(d)] = sorted(ps)
  steps = []
  gone = []
  if dense:
    cfg["dense"] = True
    cfg["segment"] = cfg["delay"] = False
  for _ in range(0 if dense else r.randint(0, 6)):
    k = r.wpick([(5, "link"), (2, "reset"), (1, "silent"), (1, "loss"),
                 (2, "port"), (3, "advance")])
    if k == "link" and links:
      steps.append({"op": "link", "i": r.randrange(len(links)),
                    "down": r.chance(0.6), "both": r.chance(0.6)})
    elif k == "port":
      # an inter-switch port is removed from / given back to its switch
      # (port_status DELETE / ADD)
      if gone and r.chance(0.6):
        sw_, i_ = gone.pop(r.randrange(len(gone)))
        steps.append({"op": "port", "sw": sw_, "i": i_, "del": False})
      else:
        sw_, i_ = r.pick(dpids), r.randrange(8)
        gone.append((sw_, i_))
        steps.append({"op": "port", "sw": sw_, "i": i_, "del": True})
    elif k == "reset":
      steps.append({"op": "reset", "sw": r.pick(dpids)})
      if r.chance(0.4):
        # the reset lands while one of that switch's own probes is on the
        # wire (armed here, fired by its next probe transmission)
        steps[-1]["mid_probe"] = True
    elif k == "silent":
      steps.append({"op": "silent", "sw": r.pick(dpids), "on": r.chance(0.7)})
    elif k == "loss":
      steps.append({"op": "loss", "p": r.pick([0.0, 0.1, 0.3])})
    else:
      steps.append({"op": "advance", "dt": r.pick([0.5, 2, 5, 11])})
    if r.chance(0.5):
      steps.append({"op": "advance", "dt": r.pick([0.2, 1, 3, 6])})
  rhf = Rng(mix(seed, "halfreset"))
  if not dense and rhf.chance(0.2):
    steps.insert(rhf.randint(0, len(steps)),
                 {"op": "reset", "sw": rhf.pick(dpids), "half": True})
  rsw = Rng(mix(seed, "swap"))
  if not dense and rsw.chance(0.3):
    # (late in the history, so that the tree has settled on what to block)
    steps.append({"op": "advance", "dt": 11})
    for _ in range(rsw.randint(1, 3)):
      steps.append({"op": "port", "sw": rsw.pick(dpids),
                    "i": rsw.randrange(8), "del": False, "swap": True})
  rh = Rng(mix(seed, "hotplug"))
  if rh.chance(0.25):
    cfg["hotplug"] = rh.pick(["all", "all", "most"])
  return {"prop": PROP, "seed": seed, "cfg": cfg, "steps": steps}


class Violation(Exception):
  def __init__(self, vclass, detail):
    Exception.__init__(self, vclass, detail)
    self.vclass = vclass
    self.detail = detail


def run_plan(plan):
  cfg = plan["cfg"]
  sim = S.Sim(mix(plan["seed"], "run"), calm=plan.get("calm", False))
  S.install(sim)
  sim.net_segment = cfg.get("segment", False)
  sim.net_delay = cfg.get("delay", False)
  sim.max_delay_ticks = 8
  known = load_known(PROP)
  hit = []
  res = {"verdict": "ok"}
  try:
    _drive(sim, plan, known, hit)
  except Violation as v:
    res.update(verdict="violation", vclass=v.vclass, detail=v.detail)
  except S.SimAbort as a:
    if a.vclass == "harness":
      res.update(verdict="error", detail=a.detail)
    else:
      res.update(verdict="violation", vclass=a.vclass, detail=a.detail)
  res["digest"] = sim.digest()
  res["sim_time"] = sim.now - S.T0
  res["steps"] = len(plan["steps"])
  res["known"] = sorted(set(hit))
  res["stats"] = dict(sim.stats)
  res["probes"] = dict(sim.probes)
  p = sim.probes
  res["nontrivial"] = bool(p.get("has_cycle") and
                           (p.get("link_down") or p.get("control_reset")
                            or p.get("silent_switch")))
  return res


def _components(nodes, edges):
  """edges: iterable of (a, b) undirected; returns list of sets"""
  adj = {n: set() for n in nodes}
  for a, b in edges:
    adj[a].add(b)
    adj[b].add(a)
  seen = set()
  out = []
  for n in nodes:
    if n in seen:
      continue
    comp = set()
    st = [n]
    while st:
      x = st.pop()
      if x in comp:
        continue
      comp.add(x)
      st.extend(adj[x] - comp)
    seen |= comp
    out.append(comp)
  return out


def _drive(sim, plan, known, hit):
  import pox.openflow.discovery as D
  import pox.openflow.spanning_tree as ST
  cfg = plan["cfg"]
  net = NetWorld(sim, cfg)
  net.boot()
  net.link_delay_ticks = cfg.get("link_delay", 0)
  if cfg.get("wire_pads"):
    # the medium brings short frames up to the Ethernet minimum (zeros
    # behind the probe's END TLV)
    net.pad_min = 60
    sim.probes["wire_pads_short_frames"] += 1
  D.random = lambda: sim.ch.uniform("disc_random", 0.0, 1.0, 0.0)
  D.launch(link_timeout=cfg["link_timeout"],
           no_flow=bool(cfg.get("disc_no_flow")),
           explicit_drop=bool(cfg.get("disc_explicit_drop", True)),
           eat_early_packets=bool(cfg.get("disc_eat_early")))
  ST._noflood_by_default = False
  ST._hold_down = False
  ST.launch(no_flood=bool(cfg.get("st_no_flood")),
            hold_down=bool(cfg.get("st_hold_down")))
  for k in ("disc_no_flow", "disc_eat_early", "st_no_flood", "st_hold_down"):
    if cfg.get(k):
      sim.probes["opt_" + k] += 1
  disc = net.core.openflow_discovery
  dpids = cfg["dpids"]
  if any(d >= (1 << 48) for d in dpids):
    sim.probes["big_dpid"] += 1
  for c in set(("%x" % d)[0] for d in dpids if d > 15):
    sim.probes["dpid_leading_digit_" + c] += 1
  if any(p >= 0xff00 - 256 for ps in cfg["ports"].values() for p in ps):
    sim.probes["big_port"] += 1
  for d in dpids:
    ns = net.add_switch(d, 0, max_buffers=cfg["max_buffers"])
  # ports are added before the handshake completes (no port_status yet)
  # -- simplest: recreate with explicit ports
  # (add_switch already connected; add ports now and let port_status flow)
  hot = cfg.get("hotplug")
  if hot:
    # the switches complete their handshakes port-less (or with their
    # first port only); every other port is plugged in afterwards and is
    # known to the controller from an OFPPR_ADD port status alone
    sim.probes["ports_hot_plugged_" + hot] += 1
    if hot == "most":
      for d in dpids:
        sw = net.switches[d].sw
        no = cfg["ports"][str(d)][0]
        sw.add_port(sw.generate_port(no, name="p%d" % no))
    sim.drain()
    sim.advance(0.05)
    sim.drain()
  for d in dpids:
    sw = net.switches[d].sw
    for no in cfg["ports"][str(d)]:
      if no not in sw.ports:
        sw.add_port(sw.generate_port(no, name="p%d" % no))
  phys = {}         # (a,pa) -> (b,pb)
  up = {}           # (a,pa) -> bool
  last_up = {}      # (a,pa) -> time the direction was last up
  for a, pa, b, pb in cfg["links"]:
    net.link(a, pa, b, pb, both=False)
    phys[(a, pa)] = (b, pb)
    up[(a, pa)] = True
  pairs = {}
  for (a, pa), (b, pb) in phys.items():
    pairs.setdefault(frozenset((a, b)), []).append(((a, pa), (b, pb)))
  if any(len(v) > 2 for v in pairs.values()):
    sim.probes["parallel_links"] += 1
  if any(phys.get(v) != k for k, v in phys.items()):
    sim.probes["one_way_link"] += 1
  bidir_edges = set(frozenset((a, b)) for (a, pa), (b, pb) in phys.items()
                    if phys.get((b, pb)) == (a, pa))
  ncomp = len(_components(dpids, [tuple(e) for e in bidir_edges]))
  if len(bidir_edges) > len(dpids) - ncomp:
    sim.probes["has_cycle"] += 1
  for d in dpids:
    net.add_host(d, cfg["hostports"][str(d)])
  silent = set()
  link_events = []      # (t, added, link tuple)
  state = {}            # link -> currently announced?

  def on_link(e):
    l = e.link
    key = (l.dpid1, l.port1, l.dpid2, l.port2)
    link_events.append((sim.now, e.added, key))
    sim.ev("link", e.added, key)
    src = (l.dpid1, l.port1)
    if e.added:
      if state.get(key):
        raise_later.append(("link-event/added-twice", "%r announced added "
                            "twice in a row" % (key,)))
      state[key] = True
      if l.dpid1 not in set(net.nexus.connections.dpids):
        raise_later.append(("link-event/from-disconnected-switch",
                            "discovery announced %r while switch %#x is not "
                            "connected" % (key, l.dpid1)))
      if phys.get(src) != (l.dpid2, l.port2):
        raise_later.append(("link-event/not-physical", "discovery announced "
                            "%r which is not a physical link" % (key,)))
      elif sim.now - last_up.get(src, -1e9) > 1.0 and not up.get(src):
        raise_later.append(("link-event/stale", "discovery announced %r "
                            "%.1f s after that direction went down"
                            % (key, sim.now - last_up.get(src, 0))))
    else:
      if not state.get(key):
        raise_later.append(("link-event/removed-without-add", "%r announced "
                            "removed but was not announced" % (key,)))
      state[key] = False
  raise_later = []
  disc.addListenerByName("LinkEvent", on_link)
  downs = []
  net.nexus.addListenerByName("ConnectionDown",
                              lambda e: downs.append((sim.now, e.dpid)))

  def flush_violations():
    if raise_later:
      vc, det = raise_later[0]
      raise Violation(vc, det)

  def settle():
    sim.drain()
    sim.advance(0.05)
    sim.drain()
    flush_violations()
    # withdrawal with the switch
    while downs:
      t, d = downs.pop(0)
      left = [l for l in disc.adjacency if l.dpid1 == d or l.dpid2 == d]
      # a link may be legitimately re-learned only after the switch is back
      if left and d not in set(net.nexus.connections.dpids):
        raise Violation("links-kept-after-disconnect", "switch %#x "
                        "disconnected but adjacency still has %r"
                        % (d, left[:3]))

  for k in up:
    last_up[k] = sim.now
  wire = dict(up)       # what the link steps did to each direction
  present = {(d, p): True for d in dpids for p in cfg["ports"][str(d)]}

  def recompute():
    for e, far in phys.items():
      new = bool(wire[e] and present[e] and present[far])
      if new != up[e] or new:
        last_up[e] = sim.now
      up[e] = new
      net.link_up[e] = wire[e]
  settle()
  T_conv = cfg["link_timeout"] / 2.0 + cfg["link_timeout"] + 5 + 2
  sim.advance(T_conv)
  settle()
  _check_converged(sim, net, disc, cfg, phys, up, silent, known, hit,
                   "initial convergence", present)
  last_fault = sim.now
  for idx, st in enumerate(plan["steps"]):
    sim.ch.reseed(mix(plan["seed"], "step", idx))
    op = st["op"]
    if op == "advance":
      sim.advance(st["dt"])
      settle()
      continue
    last_fault = sim.now
    if op == "link":
      a, pa, b, pb = cfg["links"][st["i"] % len(cfg["links"])]
      ends = [(a, pa)]
      if st.get("both") and phys.get((b, pb)) == (a, pa):
        ends.append((b, pb))
      for e in ends:
        wire[e] = not st["down"]
        sim.probes["link_down" if st["down"] else "link_up"] += 1
      recompute()
    elif op == "port":
      d = st["sw"]
      cands = sorted(p for p in cfg["ports"][str(d)]
                     if p != cfg["hostports"][str(d)])
      if cands:
        pno = cands[st["i"] % len(cands)]
        sw = net.switches[d].sw
        if st.get("swap") and present[(d, pno)]:
          # the port is replaced in place (a module swapped, a driver
          # restarted): the switch announces the number anew -- OFPPR_ADD,
          # no DELETE before it -- with a new address and default config
          np_ = sw.generate_port(pno, name="p%d" % pno,
                                 ethaddr="02:aa:%02x:%02x:%02x:%02x"
                                 % ((d >> 8) & 0xff, d & 0xff,
                                    (pno >> 8) & 0xff, pno & 0xff))
          sw.ports[pno] = np_
          sw.send_port_status(np_, 0)       # OFPPR_ADD
          sim.probes["port_swapped_in_place"] += 1
        elif st["del"] and present[(d, pno)]:
          sw.delete_port(pno)
          present[(d, pno)] = False
          sim.probes["port_deleted"] += 1
        elif not st["del"] and not present[(d, pno)]:
          sw.add_port(sw.generate_port(pno, name="p%d" % pno))
          present[(d, pno)] = True
          sim.probes["port_readded"] += 1
        recompute()
    elif op == "reset" and st.get("half"):
      # the switch loses its control connection and reconnects; the
      # controller's end of the old one stays open (it was never told) and
      # is torn down only later: ConnectionDown for a connection that has
      # been superseded
      ns = net.switches[st["sw"]]
      c = ns.sw._connection
      sock = c.io_worker.socket if c is not None else None
      if sock is not None and not sock.closed and sock.peer is not None:
        old = sock.peer
        sock.shut_wr = True       # (nothing of the teardown reaches the peer)
        sock.inject_reset()
        sim.drain()
        sim.advance(6.0)
        sim.drain()
        if not old.closed:
          old.inject_reset()
          sim.probes["stale_connection_closed_after_reconnect"] += 1
          sim.probes["control_reset"] += 1
    elif op == "reset" and st.get("mid_probe"):
      def fire(dpid, port, raw, target=st["sw"]):
        if dpid != target or raw[12:14] != b"\x88\xcc":
          return False
        if net.reset_control(target):
          sim.probes["control_reset"] += 1
          sim.probes["reset_with_probe_in_flight"] += 1
        return True           # one shot
      net.on_transmit = fire
    elif op == "reset":
      if net.reset_control(st["sw"]):
        sim.probes["control_reset"] += 1
    elif op == "silent":
      ns = net.switches[st["sw"]]
      ns.silent = bool(st["on"])
      if st["on"]:
        silent.add(st["sw"])
        sim.probes["silent_switch"] += 1
        for e in up:
          if e[0] == st["sw"] and up[e]:
            last_up[e] = sim.now
      else:
        silent.discard(st["sw"])
    elif op == "loss":
      net.loss = st["p"]
      sim.probes["lldp_loss"] += 1 if st["p"] else 0
    settle()
  # faults stop; everything comes back to a steady state
  net.loss = 0.0
  settle()
  sim.advance(T_conv + 6.0)      # + reconnect back-off
  settle()
  _check_converged(sim, net, disc, cfg, phys, up, silent, known, hit,
                   "after the last fault", present)
  # alternation add/remove per link over the whole run
  per = {}
  for t, added, key in link_events:
    per.setdefault(key, []).append(added)
  for key, seq in per.items():
    for i, a in enumerate(seq):
      if a != (i % 2 == 0):
        raise Violation("link-event/alternation", "events for %r: %r"
                        % (key, seq))
  if sim.task_deaths:
    raise Violation("task-died", "%r" % (sim.task_deaths[:2],))
  if sim.stats.get("log_exception"):
    raise Violation("handler-exception", "an exception was logged: %r"
                    % (getattr(sim, "last_error", None),))


def _check_converged(sim, net, disc, cfg, phys, up, silent, known, hit, ctx,
                     present):
  dpids = cfg["dpids"]
  connected = set(net.nexus.connections.dpids)
  if connected != set(dpids):
    raise Violation("not-reconnected", "%s: connected switches %r of %r"
                    % (ctx, sorted(connected), sorted(dpids)))
  want = set()
  for (a, pa), (b, pb) in phys.items():
    if up[(a, pa)] and a not in silent and b not in silent:
      want.add((a, pa, b, pb))
  have = set((l.dpid1, l.port1, l.dpid2, l.port2) for l in disc.adjacency)
  if have != want:
    raise Violation("adjacency-mismatch", "%s: adjacency has %d links, "
                    "physical up links %d; missing %r, extra %r"
                    % (ctx, len(have), len(want), sorted(want - have)[:4],
                       sorted(have - want)[:4]))
  sim.probes["converged"] += 1
  # --- tree -------------------------------------------------------------
  def flood_on(d, p):
    port = net.switches[d].sw.ports.get(p)
    return port is not None and not (port.config & W.PC_NO_FLOOD)

  bidir = [(a, pa, b, pb) for (a, pa, b, pb) in have
           if (b, pb, a, pa) in have and (a, pa) < (b, pb)]
  nodes = set(dpids)
  enabled = [(a, pa, b, pb) for (a, pa, b, pb) in bidir
             if flood_on(a, pa) and flood_on(b, pb)]
  half = [(a, pa, b, pb) for (a, pa, b, pb) in bidir
          if flood_on(a, pa) != flood_on(b, pb)]
  if half:
    raise Violation("tree/half-disabled-link", "%s: link %r has flooding "
                    "enabled at one end only" % (ctx, half[0]))
  comps = _components(nodes, [(a, b) for a, pa, b, pb in bidir])
  fcomps = _components(nodes, [(a, b) for a, pa, b, pb in enabled])
  if sorted(map(sorted, comps)) != sorted(map(sorted, fcomps)):
    raise Violation("tree/not-spanning", "%s: flood-enabled links connect "
                    "%r, the bidirectional links connect %r"
                    % (ctx, sorted(map(sorted, fcomps)),
                       sorted(map(sorted, comps))))
  if len(enabled) != len(nodes) - len(comps):
    raise Violation("tree/cycle", "%s: %d flood-enabled inter-switch links "
                    "over %d switches in %d components: not a forest"
                    % (ctx, len(enabled), len(nodes), len(comps)))
  on_link = set()
  for a, pa, b, pb in have:
    on_link.add((a, pa))
    on_link.add((b, pb))
  for d in dpids:
    for p in cfg["ports"][str(d)]:
      if present[(d, p)] and (d, p) not in on_link and not flood_on(d, p):
        raise Violation("tree/edge-port-disabled", "%s: port %d of switch "
                        "%#x is on no discovered link but has flooding "
                        "disabled" % (ctx, p, d),)
  # --- flood simulation over the physical graph --------------------------
  sim.probes["flood_sim"] += 1
  for origin in dpids:
    if origin in silent:
      continue
    arrivals = {d: 0 for d in dpids}
    arrivals[origin] = 1
    frontier = [(origin, cfg["hostports"][str(origin)])]
    hops = 0
    while frontier:
      hops += 1
      if hops > 4 * len(dpids) + 4:
        raise Violation("flood/loop", "%s: a flood from switch %#x is still "
                        "circulating after %d hops" % (ctx, origin, hops))
      nxt = []
      for d, inport in frontier:
        for p in cfg["ports"][str(d)]:
          if p == inport or not flood_on(d, p):
            continue
          far = phys.get((d, p))
          if far is None or not up[(d, p)] or far[0] in silent:
            continue
          arrivals[far[0]] += 1
          nxt.append(far)
      frontier = nxt
    comp = [c for c in comps if origin in c][0]
    for d in dpids:
      if d in silent:
        continue
      if d in comp:
        ok = arrivals[d] == 1
      else:
        # reachable only over one-way links, if at all: never twice
        ok = arrivals[d] <= 1
      if not ok:
        raise Violation("flood/coverage", "%s: a frame flooded at switch "
                        "%#x reaches switch %#x %d time(s)"
                        % (ctx, origin, d, arrivals[d]))
