#!/usr/bin/env python3
"""Regenerates /verif/MANIFEST.json from the table below (single source)."""
import json, os
HERE = os.path.dirname(os.path.dirname(os.path.abspath(__file__)))

TECH = "deterministic simulation with fault injection"
CLAIMED = {
 "C13": dict(
   level="exploration", design="5/C13, 5a",
   text="Seeded search over request histories pushed through a simulated TCP byte stream (segmentation, delay, partial recv) into the real switch stack; every reply is decoded by an independent OF1.0 codec and paired by position and xid against a reference model. Sampling, not proof.",
   note="Trusts models/of10wire.py and the C13 reference model as the reading of OpenFlow 1.0; socket/select/time are simulated; runs are forked children of one pre-imported parent.",
   technique=TECH + ": scripted controller peer vs real switch over simulated TCP, reply/request pairing oracle"),
}
PENDING_REASON = "not claimed yet: check not built in this round (design in DESIGN.md section 5)"
NA = {
 "C01": "pure function of the constructed object (encode/decode/re-encode): no schedule, clock, fault or history for a simulator to vary",
 "C14": "pure function of header fields and payload (build/parse/checksum): nothing for deterministic simulation to vary",
 "C16": "pure functions of an address value (parse/print/compare/mask): nothing for deterministic simulation to vary",
}
ALL = ["C%02d" % i for i in range(1, 21)]

def main():
  checks = []
  for pid in sorted(CLAIMED):
    c = CLAIMED[pid]
    checks.append({
      "property_id": pid,
      "quick_cmd": "./check %s --tier quick" % pid,
      "thorough_cmd": "./check %s --tier thorough" % pid,
      "evidence_file": "/verif/evidence/%s.json" % pid,
      "replay_cmd_template": "./check %s --replay {path}" % pid,
      "engine": "simkit",
      "level_claimed": {"category": c["level"], "text": c["text"],
                        "design_ref": "DESIGN.md section " + c["design"]},
      "level_note": c["note"],
      "technique": c["technique"],
    })
  na = []
  for pid in ALL:
    if pid in CLAIMED: continue
    na.append({"property_id": pid, "reason": NA.get(pid, PENDING_REASON)})
  m = {
    "version": 1,
    "setup_cmd": "./setup.sh",
    "hooks": {"guard": "NOXREPO_POX_VERIF",
              "enable": "no hooks: every seam is a module-attribute replacement made by the harness inside the forked simulation child",
              "baseline_off_cmd": "cd /repo && /venv/bin/python -m pytest -ra -q -p no:cacheprovider --timeout=900 --continue-on-collection-errors",
              "source_commits": [], "add_only": True},
    "engines": [{"name": "simkit", "path": "/verif/simkit",
                 "serves_properties": sorted(CLAIMED),
                 "kind_free_text": "seeded discrete-event simulator driving the real recoco scheduler: virtual clock, simulated select/sockets/pingers, controlled threads, fork-per-run pool, plan minimiser, replay"}],
    "checks": checks,
    "not_applicable": na,
    "notes": "See DESIGN.md. Defects repaired in /repo are 'fix:' commits listed in known_findings.json.",
  }
  with open(os.path.join(HERE, "MANIFEST.json"), "w") as f:
    json.dump(m, f, indent=1)
  print("MANIFEST.json: %d checks, %d not claimed" % (len(checks), len(na)))

if __name__ == "__main__":
  main()
