#!/usr/bin/env python3
"""Regenerates /verif/MANIFEST.json from the table below (single source)."""
import json, os
HERE = os.path.dirname(os.path.dirname(os.path.abspath(__file__)))

TECH = "deterministic simulation with fault injection"
CLAIMED = {
 "C11": dict(
   level="exploration", design="5/C11",
   text="Whole-network simulation: the real controller with forwarding.l2_learning and 1-3 real switches in a loop-free topology over simulated TCP (segmentation, delay), 2-5 hosts, seeded frame sequences (unicast known/unknown, broadcast, multicast, LLDP, bridge-filtered, src==dst, host moves) with virtual-time gaps across the 10 s/30 s flow timeouts, buffer pools 0/1/4/100, miss_send_len 14/128/1500, and (fault configuration) control-connection resets with reconnect through the real back-off. Every frame carries a tag; per switch and arriving frame the egress port multiset is compared with a learning-bridge model evaluated in packet-in order; no switch buffer may stay occupied at quiescence.",
   note="Frames hitting a cached flow are checked as 'at most one port on which the destination was ever learned'; in reset runs frames in flight at the reset and the buffer check are excluded; static port configuration.",
   technique=TECH + ": whole-system (controller + switches + network) history search against a learning-bridge model"),
 "C19": dict(
   level="exploration", design="5/C19",
   text="Whole-network simulation: the real controller with openflow.discovery and openflow.spanning_tree and 2-6 (thorough up to 10) real switches on random multigraphs with parallel, one-way and missing links, 64-bit dpids and large port numbers; histories of per-direction link down/up, control-connection resets, silent switches and LLDP loss under the virtual clock. LinkEvents are checked against the physical links as they happen; after the stated convergence bound the adjacency must equal the up directed links, flood-enabled inter-switch ports must form a spanning forest of the bidirectional links with no half-disabled link and every port on no link flooding, and a flood simulated over the physical graph with the switches' own NO_FLOOD bits reaches every switch of the origin's component exactly once.",
   note="Tree properties are checked at converged quiescent points only; any spanning forest accepted.",
   technique=TECH + ": whole-system topology/fault-history search with convergence-bounded graph oracles"),
 "C06": dict(
   level="exploration", design="5/C06",
   text="Seeded search over sets of 1-6 task programs (reschedule, float/Sleep/absolute sleeps, block and wake, Select/Recv/Send on simulated sockets with readiness, EOF, reset and back-pressure events at chosen virtual times, cooperative locks, Again/task_function calls nested to depth 3 returning, ending or raising, raising steps, Timers one-shot/recurring/cancelled/self-stopping, priorities below 1, per-cycle CPU cost, clock jumps) run by the real Scheduler/SelectHub under the virtual clock; a shim around BaseTask.execute observes every slice; oracle: program order, exactly-once, no overlap, never-early and exactly-one resumption per wait, values delivered, timer semantics, isolation of a raising task, sub-task result/exception reaches exactly its caller, bounded liveness in cycles and virtual time.",
   note="Inline select hub only (the threaded hub's hand-off is explored by C07); sockets exclusive per task; schedule() of a task sleeping in the hub and release by a non-holder are treated as API misuse and not generated.",
   technique=TECH + ": task-program x readiness/timer schedule search against a per-task step model under a virtual clock"),
 "C15": dict(
   level="fault_enumeration", design="5/C15",
   text="Fault enumeration over a corpus of 113 valid frames covering every parser reachable from ethernet: every truncation length and every offset x {0x00, 0xff, bit flips, seeded values} (quick; all 255 other values in thorough), checksum-repairing variants for ICMPv6/IGMP, plus seeded multi-byte mutation, length-field extremes, splices and random bytes. Each damaged frame goes through PacketIn.parsed / ethernet(raw=...), the layer chain walk, str(), dump() and pack(); every raise is a finding identified by (operation, exception type, file, function). The enumerated part is partitioned exactly over the runs and reported exhaustive only when every chunk ran. In-system half (one scenario per run): 1-3 real switches under the real controller with l2_learning and/or discovery, miss_send_len 0..65535, hosts sending damaged corpus frames, random cases and forged discovery probes, an inter-switch wire that truncates or replaces a byte of what crosses it; nothing may raise out of the switch's receive or output path, no handler exception may be logged, no task may die, no control connection may be lost, and 35 virtual seconds after the hostile traffic stops a clean unicast is delivered exactly once.",
   note="Pure-function fault enumeration: the truncation/bit-flip of a received buffer is the fault model the property names; the in-system half (checks/c15n.py) pushes the same damage through running switches, the controller and its PacketIn handlers (sampled, not enumerated). Signatures omit line numbers.",
   technique=TECH + ": exhaustive single-fault enumeration (truncation, byte corruption) over a frame corpus with a no-raise oracle, plus seeded whole-network runs with a damaging wire and a liveness check after the last fault"),
 "C20": dict(
   level="exploration", design="5/C20",
   text="Seeded search over per-call socket outcome scripts {accept all, accept k of n, EAGAIN, fatal} x message sequences x thread interleavings: on the controller side the real DeferredSender.run loop runs on an engine-controlled thread against the real Connection.send on the scheduler thread (of_01.py traced at line granularity, real OpenFlow task loop for the closed-exactly-once part); on the switch side the real IO worker/loop with send and send_fast; exceptional conditions on a socket with a backlog (both sides), peer resets with a backlog, and on the controller side two connections whose backlogs overlap. Invariant at every yield point: bytes accepted by each socket are a prefix of the queued stream; at quiescence after the script ends they are the whole stream; after a fatal error exactly one ConnectionDown / close-handler call.",
   note="Line-granularity pre-emption in of_01.py plus intercepted primitives; scripts sampled; select() on a closed socket raises as the real one does.",
   technique=TECH + ": socket-fault scripts x controlled-thread interleavings with a byte-stream prefix invariant"),
 "C07": dict(
   level="exploration", design="5/C07, 3.4",
   text="Seeded search over thread interleavings: the real Scheduler.run loop, the real select-hub thread (both hub modes) and 2-3 foreign threads are real Python threads of which the engine lets exactly one run, pre-empting at every traced source line of recoco.py and at every Lock/Event/Queue/select (random schedules with switch probability 0.05-0.6 and PCT priority schedules of depth 1-4). Workloads: call-later hand-off, concurrent wake of a blocked task, synchronized sections, cooperative locks. Oracles: exactly once, on the scheduler thread, per-thread order, zero virtual latency (lost wake-ups show up as a 2 s poll rescue), queued at most once at every yield point, no task step inside a section, lock exclusion/hand-over.",
   note="Line granularity: races inside one source line or inside C code are not explored; threading primitives are engine-controlled stand-ins with the semantics of threading.Lock/Event and queue.Queue.",
   technique=TECH + ": controlled-thread interleaving search (baton passing, sys.settrace pre-emption points, virtual time)"),
 "C10": dict(
   level="fault_enumeration", design="5/C10",
   text="Seeded fault injection into a valid byte stream on one victim connection (header length 0..len+8, type 0..255, version, any aligned 16-bit body word, truncation+EOF at any offset, byte flips, random streams) while sibling connections carry known-good traffic, on the controller side (real task loop) and the switch side (two real switches on one IO loop). Oracle: deterministic traced-line termination budget, loop tasks alive, siblings answered exactly, fresh connection handshakes, every delivered/answered message is a declared-length frame of the damaged stream in order, declared valid echo requests answered unless the connection closed.",
   note="Faults are sampled per run (one fault per run); the enumeration over (type, field, value) is not proven complete; termination judged by a line budget proportional to the stream length.",
   technique=TECH + ": stream-corruption fault injection with containment, liveness and termination-budget oracles"),
 "C17": dict(
   level="exploration", design="5/C17",
   text="Seeded search over port_status histories (add/modify incl. rename and re-address/delete/re-add/delete-unknown over 4 ports) and stats replies split into 1-6 parts interleaved with other messages (echo requests, packet-ins, barrier replies, errors about other requests incl. under the pending reply's xid, flow-removed notices, config replies), abandoned partial replies, part-by-part interleaving and connection loss, over a segmented stream into the real Connection; after every message the full mapping API of con.ports/original_ports is compared with a model dict and aggregated stats events with the parts sent.",
   note="Unique names/addresses among current ports; entries identified by a tag field; one open known finding (part-by-part interleaved multipart replies).",
   technique=TECH + ": message-history search against a port-view dict model and a per-xid reassembly model"),
 "C02": dict(
   level="exploration", design="5/C02",
   text="Seeded search over message sequences x segmentations of the byte stream (every byte, cuts at header offsets, message boundary +-1, read-size multiples +-1, random k-cuts) x segment delays x partial recv()s, for the controller-side Connection.read under the real OpenFlow_01_Task and the switch-side OFConnection.read under the real IO loop; after every segment the delivered (type, xid) sequence must equal the completely arrived messages and the receive buffer the incomplete tail.",
   note="TCP is modelled reliable and ordered; no spurious readiness; delivery observed at handler invocation; message contents are not compared (C01 not claimed).",
   technique=TECH + ": network-delivery-schedule search with a prefix-exactness invariant after every segment"),
 "C05": dict(
   level="exploration", design="5/C05",
   text="Seeded search over histories of subscribe (priority, once, weak, by name, autobind), unsubscribe (handler, eid, (type,eid), eid+type), raise (instance/class form, with and without error suppression) and handler scripts incl. re-entrant subscribe/unsubscribe/raise, owner death + gc; a reference model ordered by (-priority, sequence) with a stack of in-progress deliveries checks order, exactly-once, halting, removal, rejection of undeclared types, listener counts, and termination by a deterministic invocation budget.",
   note="One live subscription per (handler, source, type); where the statement is silent (handlers added or removed by other handlers mid-delivery) both behaviours are accepted; single thread, no clock.",
   technique=TECH + ": operation-history search incl. re-entrancy and owner-death faults against a delivery reference model"),
 "C09": dict(
   level="exploration", design="5/C09",
   text="Seeded search over interleavings of handshake replies with asynchronous switch messages, connection loss (EOF/reset) at every point, and reconnects of a datapath before its stale connection closes, for up to 3 scripted switch connections over 2 dpids against the real controller stack; after every settled step ConnectionUp/Down counts and order, deferred port-status order, the registry and the socket reached by sendToDPID are compared with a lifecycle model.",
   note="Announcements and losses are separated by a settle so that 'most recent' is well defined; duplicate features replies / foreign barrier xids not generated; one open known finding (older live connection not restored).",
   technique=TECH + ": interleaving and connection-loss search against a lifecycle/registry model"),
 "C08": dict(
   level="exploration", design="5/C08",
   text="Seeded search over permutations of register / call_when_ready / listen_to_dependencies over up to 5 components and 5 waiters (dependency sets in every accepted form, chained registrations, failing callbacks), goUp with 0-3 deferral holders released in every order and manner, quit before/after goUp once or twice; a fresh real POXCore per run; oracle checks exactly-once, never-early, fired-inside-the-completing-call, containment, wiring, and the GoingUp/Up/GoingDown/Down sequence.",
   note="quit's helper thread is run inline by the harness at chosen points (no real pre-emption of _quit against goUp); time is virtual; relative order of Up and Down and other points the statement is silent on are accepted either way.",
   technique=TECH + ": operation-history search against a rendezvous/lifecycle reference model"),
 "C03": dict(
   level="exploration", design="5/C03, 5a",
   text="Seeded search over tables built through the byte-level control connection (matches derived from generated frames by random wildcarding, prefix lengths, near-miss perturbation, priority ties, exact entries) and frames injected on ports; the entry whose counters advanced is compared with an independent OF1.0 matcher working on raw bytes. The per-(match, frame) predicate is input-quantified and only sampled.",
   note="Trusts models/rawframe.py (field extraction, key_matches) and models/of10switch.py as the reading of OF1.0 3.4; canonical matches only; equal-priority ties accept any winner.",
   technique=TECH + ": refinement of the real switch against an executable OF1.0 reference model, lock-step after every step"),
 "C04": dict(
   level="exploration", design="5/C04, 5a",
   text="Seeded search over FLOW_MOD histories x frames x virtual-clock advances (biased around timeout and sweep instants) with the real ExpireMixin timer under the simulated clock; after every step the wire-level flow-stats view is compared with an executable OF1.0 table model (entries, actions, counters, durations), timeouts as bounds, flow_removed one-to-one with notifying removals, table-sorted invariant.",
   note="Trusts models/of10switch.py as the reading of OF1.0 4.6; control channel instantaneous in this world; boundary instants accepted either way.",
   technique=TECH + ": refinement against an executable table model under a virtual clock, history search"),
 "C12": dict(
   level="exploration", design="5/C12, 5a",
   text="Seeded search over frames x action lists (12 standard actions, physical and virtual output ports, via flows and packet-out) x port-mod histories; every emitted (port, bytes) is compared with a reference applier that rewrites raw bytes with its own offset arithmetic and RFC 1071 sums, and port-stats replies with the tally of frames actually received/transmitted.",
   note="Trusts models/rawframe.py's applier; unspecified cases (L3/L4 rewrite of TCP/UDP fragments, TABLE from odd ports) end the run without verdict; emission order within one FLOOD/ALL not compared.",
   technique=TECH + ": refinement of emitted frames and counters against a byte-level reference applier, history search"),
 "C18": dict(
   level="exploration", design="5/C18, 5a",
   text="Seeded search over histories of table misses, send-to-controller actions, packet-outs and flow-mods naming buffers (valid, stale, used, bogus ids), set-config, with pools of 0-4 buffers; buffer ids are tracked as opaque tokens: uniqueness, pool bound, full-pool fallback, data length vs limit, total_len, emit-exactly-that-frame-then-free, nothing for unknown ids.",
   note="Ids are never predicted; whether a slot counts as occupied while its own actions run is accepted either way; fate of the packet of a rejected flow_mod follows the implementation.",
   technique=TECH + ": history search with an opaque-token buffer model checked after every step"),
 "C13": dict(
   level="exploration", design="5/C13, 5a",
   text="Seeded search over request histories pushed through a simulated TCP byte stream (segmentation, delay, partial recv) into the real switch stack; every reply is decoded by an independent OF1.0 codec and paired by position and xid against a reference model (a statistics reply in parts flagged OFPSF_REPLY_MORE counts as one reply; 4% of the runs build tables whose flow statistics exceed one message); an exception logged from inside one of the switch's request handlers is an internal failure whatever was answered. Sampling, not proof.",
   note="Trusts models/of10wire.py and the C13 reference model as the reading of OpenFlow 1.0; socket/select/time are simulated; runs are forked children of one pre-imported parent.",
   technique=TECH + ": scripted controller peer vs real switch over simulated TCP, reply/request pairing oracle"),
}
PENDING_REASON = "not claimed yet: check not built in this round (design in DESIGN.md section 5)"
NA = {
 "C01": "pure function of the constructed object (encode/decode/re-encode): no schedule, clock, fault or history for a simulator to vary",
 "C14": "pure function of header fields and payload (build/parse/checksum): nothing for deterministic simulation to vary",
 "C16": "pure functions of an address value (parse/print/compare/mask): nothing for deterministic simulation to vary",
}
ALL = ["C%02d" % i for i in range(1, 21)]

def main():
  checks = []
  for pid in sorted(CLAIMED):
    c = CLAIMED[pid]
    checks.append({
      "property_id": pid,
      "quick_cmd": "./check %s --tier quick" % pid,
      "thorough_cmd": "./check %s --tier thorough" % pid,
      "evidence_file": "/verif/evidence/%s.json" % pid,
      "replay_cmd_template": "./check %s --replay {path}" % pid,
      "engine": "simkit",
      "level_claimed": {"category": c["level"], "text": c["text"],
                        "design_ref": "DESIGN.md section " + c["design"]},
      "level_note": c["note"],
      "technique": c["technique"],
    })
  na = []
  for pid in ALL:
    if pid in CLAIMED: continue
    na.append({"property_id": pid, "reason": NA.get(pid, PENDING_REASON)})
  m = {
    "version": 1,
    "setup_cmd": "./setup.sh",
    "hooks": {"guard": "NOXREPO_POX_VERIF",
              "enable": "no hooks: every seam is a module-attribute replacement made by the harness inside the forked simulation child",
              "baseline_off_cmd": "cd /repo && /venv/bin/python -m pytest -ra -q -p no:cacheprovider --timeout=900 --continue-on-collection-errors",
              "source_commits": [], "add_only": True},
    "engines": [{"name": "simkit", "path": "/verif/simkit",
                 "serves_properties": sorted(CLAIMED),
                 "kind_free_text": "seeded discrete-event simulator driving the real recoco scheduler: virtual clock, simulated select/sockets/pingers, controlled threads, fork-per-run pool, plan minimiser, replay"}],
    "checks": checks,
    "not_applicable": na,
    "notes": "See DESIGN.md. Defects repaired in /repo are 'fix:' commits listed in known_findings.json.",
  }
  with open(os.path.join(HERE, "MANIFEST.json"), "w") as f:
    json.dump(m, f, indent=1)
  print("MANIFEST.json: %d checks, %d not claimed" % (len(checks), len(na)))

if __name__ == "__main__":
  main()
