#!/usr/bin/env python3
"""
Intake of a sub-agent's seeded change: confirm (in its scratch worktree) that
the demo passes without the change and fails with it and that the existing
test suite is unchanged, then store it as /verif/seeded/<name>/.

  tools/intake_seed.py <PROP> <name> "<what it needs to manifest>"
expects /tmp/seed_<PROP>/ (worktree with the change applied, uncommitted) and
/tmp/seed_<PROP>_work/{patch.diff,demo.py}.
"""
import json, os, re, shutil, subprocess, sys

def sh(cmd, cwd=None, timeout=900):
  p = subprocess.run(cmd, shell=True, cwd=cwd, stdout=subprocess.PIPE,
                     stderr=subprocess.STDOUT, timeout=timeout)
  return p.returncode, p.stdout.decode(errors="replace")

def tests(wt):
  rc, out = sh("timeout 800 /venv/bin/python -m pytest -q -p no:cacheprovider "
               "--timeout=900 --continue-on-collection-errors 2>&1 | tail -1", wt)
  m = re.search(r"(\d+) passed", out)
  return int(m.group(1)) if m else 0, out.strip()

def main():
  prop, name, needs = sys.argv[1], sys.argv[2], sys.argv[3]
  wt = "/tmp/seed_%s" % prop
  work = "/tmp/seed_%s_work" % prop
  patch = os.path.join(work, "patch.diff")
  demo = os.path.join(work, "demo.py")
  assert os.path.exists(patch) and os.path.exists(demo), "missing patch/demo"
  ran = []
  # confirm in a fresh scratch worktree of /repo's HEAD (never touching the
  # sub-agent's worktree; note that `git stash` is shared between worktrees)
  scratch = "/tmp/intake_%s" % name
  sh("git -C /repo worktree remove --force %s" % scratch)
  rc, out = sh("git -C /repo worktree add -q --detach %s HEAD" % scratch)
  assert rc == 0, out
  try:
    rc_without, out_without = sh("timeout 120 /venv/bin/python %s %s"
                                 % (demo, scratch))
    npass_without, tline_without = tests(scratch)
    rc, out = sh("git apply %s" % patch, scratch)
    assert rc == 0, "patch does not apply to /repo HEAD: " + out
    rc_with, out_with = sh("timeout 120 /venv/bin/python %s %s"
                           % (demo, scratch))
    npass_with, tline_with = tests(scratch)
  finally:
    sh("git -C /repo worktree remove --force %s" % scratch)
  print("demo with change: rc=%s; without: rc=%s" % (rc_with, rc_without))
  print("tests with change: %s; without: %s" % (tline_with, tline_without))
  ok = (rc_with == 1 and rc_without == 0 and npass_with == npass_without == 46)
  if not ok:
    print("NOT CONFIRMED"); print(out_with[-800:]); print(out_without[-800:])
    return 1
  dst = os.path.join("/verif/seeded", name)
  os.makedirs(dst, exist_ok=True)
  shutil.copy(patch, os.path.join(dst, "patch.diff"))
  shutil.copy(demo, os.path.join(dst, "demo.py"))
  meta = {"property": prop, "needs": needs, "expect": "caught",
          "confirmed": {"demo_rc_with_change": rc_with,
                        "demo_rc_without_change": rc_without,
                        "tests_passed_with_change": npass_with,
                        "tests_passed_without_change": npass_without,
                        "demo_output_with_change": out_with.strip()[-600:]},
          "ran": ["timeout 120 /venv/bin/python demo.py <worktree> (fresh worktree of /repo HEAD, "
                  "without and with patch.diff applied)",
                  "pytest baseline command in the worktree, with and without",
                  "./check mutants --seeded --id %s" % name]}
  with open(os.path.join(dst, "meta.json"), "w") as f:
    json.dump(meta, f, indent=1)
  print("stored", dst)
  return 0

sys.exit(main())
