#!/usr/bin/env python3
"""Rewrite the table of seeded changes in DESIGN.md (between the
<!-- seeded-table --> markers) from seeded/*/meta.json."""
import glob, json, os, re
here = os.path.dirname(os.path.dirname(os.path.abspath(__file__)))
rows = []
for m in sorted(glob.glob(os.path.join(here, "seeded", "*", "meta.json"))):
  d = json.load(open(m))
  name = os.path.basename(os.path.dirname(m))
  needs = d["needs"].replace("|", "/")
  if d.get("expect") == "silent":
    label = {"miss": "NOT caught (documented miss)",
             "allowed": "not flagged: the behaviour is allowed",
             "equivalent": "not flagged: harmless / equivalent on the repaired tree",
             "unreachable": "not flagged: not reachable with real sockets",
             }[d.get("silent_kind", "miss")]
    needs += " -- **" + label + "**: " + \
        d.get("why_silent", "").replace("|", "/")
  rows.append((d["property"], name, needs))
rows.sort()
out = ["| property | seeded change | needs, to manifest |", "|---|---|---|"]
for p, n, needs in rows:
  out.append("| %s | `%s` | %s |" % (p, n, needs))
tab = "\n".join(out)
p = os.path.join(here, "DESIGN.md")
s = open(p).read()
a, b = "<!-- seeded-table -->", "<!-- /seeded-table -->"
assert a in s and b in s
s = s[:s.index(a) + len(a)] + "\n" + tab + "\n" + s[s.index(b):]
open(p, "w").write(s)
print("%d seeded changes" % len(rows))
