#!/bin/sh
# every registered check's thorough tier, each capped at <budget> seconds of
# wall time.  usage: tools/thorough.sh <budget_s> <seed> [checks...]
cd "$(dirname "$0")/.."
budget=${1:-900}; seed=${2:-0}; shift 2 2>/dev/null
checks=${*:-"C02 C03 C04 C05 C06 C07 C08 C09 C10 C11 C12 C13 C15 C17 C18 C19 C20"}
bad=0
for c in $checks; do
  out=$(VERIF_SEED=$seed VERIF_BUDGET_S=$budget timeout $((budget + 1500)) ./check $c --tier thorough --no-evidence 2>&1)
  rc=$?
  if [ $rc -ne 0 ]; then
    bad=$((bad+1))
    echo "=== $c rc=$rc"
    echo "$out" | grep -v KNOWN-FINDING | tail -12
  fi
  echo "$out" | tail -1 | sed "s/^/[thorough seed $seed] /"
done
echo "thorough sweep done: $bad failing invocations"
