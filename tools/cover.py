#!/venv/bin/python
"""
Reach measurement: which lines of the pox files a property is anchored in do
the first N runs of a check's quick tier execute?  (Not part of any check;
a tool for finding vocabulary gaps.  Needs the `coverage` package of /venv.)

  tools/cover.py <C13|C12,C13|ALL> [N=300] [file-substring ...]

Runs each plan in a forked child with coverage (sys.monitoring core, so it
does not fight the sys.settrace users: cthreads, LineBudget), combines the
data and prints, per pox file touched, the function-body lines never
executed.
"""
import importlib
import os
import shutil
import sys

HERE = os.path.dirname(os.path.dirname(os.path.abspath(__file__)))
sys.path.insert(0, HERE)
os.environ.setdefault("COVERAGE_CORE", "sysmon")

from simkit import boot  # noqa: E402


ALL = ["C02", "C03", "C04", "C05", "C06", "C07", "C08", "C09", "C10", "C11",
       "C12", "C13", "C15", "C17", "C18", "C19", "C20"]


def main():
  boot.reexec_if_needed()
  import coverage
  prop = sys.argv[1]
  n = int(sys.argv[2]) if len(sys.argv) > 2 else 300
  subs = sys.argv[3:]
  work = "/var/tmp/verif_cov_%s" % prop
  shutil.rmtree(work, ignore_errors=True)
  os.makedirs(work)
  repo = boot.REPO if hasattr(boot, "REPO") else "/repo"
  cov = coverage.Coverage(data_file=os.path.join(work, ".coverage"),
                          data_suffix=True, include=[repo + "/pox/*"])
  cov.start()
  boot.import_pox()
  props = ALL if prop == "ALL" else prop.split(",")
  from simkit.rng import mix
  base = int(os.environ.get("VERIF_SEED", "0"))
  live = {}
  for pr in props:
    mod = importlib.import_module("checks." + pr.lower())
    if hasattr(mod, "setup"):
      mod.setup()
    for i in range(n):
      while len(live) >= 12:
        pid, _ = os.wait()
        live.pop(pid, None)
      pid = os.fork()
      if pid == 0:
        try:
          seed = mix(base, mod.PROP, i)
          plan = mod.gen_plan(seed, "quick")
          try:
            mod.run_plan(plan)
          except BaseException:
            pass
          cov.stop()
          cov.save()
        finally:
          os._exit(0)
      live[pid] = i
  while live:
    pid, _ = os.wait()
    live.pop(pid, None)
  cov.stop()
  cov.save()
  c2 = coverage.Coverage(data_file=os.path.join(work, ".coverage"))
  c2.combine([work])
  c2.load()
  data = c2.get_data()
  for f in sorted(data.measured_files()):
    rel = f[len(repo) + 1:] if f.startswith(repo) else f
    if subs and not any(s in rel for s in subs):
      continue
    try:
      _, stmts, _, missing, _ = c2.analysis2(f)
    except Exception:
      continue
    if not stmts:
      continue
    pct = 100.0 * (len(stmts) - len(missing)) / len(stmts)
    print("== %s: %d statements, %.0f%% run, %d missing"
          % (rel, len(stmts), pct, len(missing)))
    if subs:
      src = open(f).read().split("\n")
      for ln in missing:
        print("   %5d  %s" % (ln, src[ln - 1][:100]))
  shutil.rmtree(work, ignore_errors=True)


if __name__ == "__main__":
  main()
