#!/bin/sh
# soak: every registered check's quick tier under several base seeds; any
# non-zero exit is printed.  usage: tools/soak.sh <first_seed> <last_seed> [checks...]
cd "$(dirname "$0")/.."
a=${1:-1}; b=${2:-5}; shift 2 2>/dev/null
checks=${*:-"C02 C03 C04 C05 C06 C07 C08 C09 C10 C11 C12 C13 C15 C17 C18 C19 C20"}
bad=0
for s in $(seq $a $b); do
  for c in $checks; do
    out=$(VERIF_SEED=$s timeout 1200 ./check $c --tier quick --no-evidence 2>&1)
    rc=$?
    if [ $rc -ne 0 ]; then
      bad=$((bad+1))
      echo "=== seed $s $c rc=$rc"
      echo "$out" | grep -v KNOWN-FINDING | tail -8
      # keep the replay files of this soak
    fi
    echo "$out" | tail -1 | sed "s/^/[seed $s] /"
  done
done
echo "soak done: $bad failing invocations"
